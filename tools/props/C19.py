"""C19 -- sampling grids lie in and cover their target region (DESIGN.md section 4, C19;
as-built notes in design.d/C19.md)."""
import json

from vlib import Check, fhex, run_cases, run_impl

PROP = "C19"


def q4(q):
    return "(" + ", ".join(fhex(x) for x in q) + ")"


def v3(v):
    return "(" + ", ".join(fhex(x) for x in v) + ")"


def lst(items):
    return "[" + "; ".join(items) + "]"


def ql(qs):
    return lst([q4(q) for q in qs])


def vl(vs):
    return lst([v3(v) for v in vs])


def bl(b):
    return "true" if b else "false"


def zl(z):
    z = int(z)
    return f"({z})%Z" if z < 0 else f"{z}%Z"


def optz(z):
    return "None" if z is None else f"(Some {zl(z)})"


def optzz(p):
    return "None" if p is None else f"(Some ({zl(p[0])}, {zl(p[1])}))"


HEADER = """From Coq Require Import QArith.
From Verif Require Import Quat C17Unique C19Model.
Open Scope float_scope.
Definition Q4 := (float * float * float * float)%type.
Definition V3 := (float * float * float)%type.
Inductive case :=
| Csteps (num : Z) (den : positive) (even odd : bool) (n : Z) (semi : option Z) (uv ea : option (Z * Z))
| Cceil (what : Z) (res : float) (n size : Z)
| Cgrid (method n : Z) (out : list Q4)
| Clgrid (n num1 num2 : nat) (gw : float) (out : list Q4)
| Cfund (grid : list Q4) (subs : list (list Q4 * list Q4))
| Clocal (gw : float) (center : option Q4) (grid out : list Q4)
| Cs2 (method : Z) (p : list Z) (edges : list (nat * nat)) (out : list V3)
| Creduced (system method : Z) (normals pts : list V3) (out : list Q4).
Definition q_close (p q : Q4) : bool :=
  let '(a, b, c, d) := p in let '(e, f, g, h) := q in fclose a e && fclose b f && fclose c g && fclose d h.
Definition q_eqb (p q : Q4) : bool :=
  let '(a, b, c, d) := p in let '(e, f, g, h) := q in (a =? e) && (b =? f) && (c =? g) && (d =? h).
Definition v_close (p q : V3) : bool :=
  let '(a, b, c) := p in let '(e, f, g) := q in fclose a e && fclose b f && fclose c g.
Fixpoint all2 {A} (f : A -> A -> bool) (xs ys : list A) : bool :=
  match xs, ys with
  | [], [] => true
  | x :: xs', y :: ys' => f x y && all2 f xs' ys'
  | _, _ => false
  end.
Definition zz_eqb (a b : Z * Z) : bool := Z.eqb (fst a) (fst b) && Z.eqb (snd a) (snd b).
Definition opt_ok {A} (eqb : A -> A -> bool) (model : A) (obs : option A) : bool :=
  match obs with None => true | Some o => eqb model o end.
Definition tol9 : float := 0x1.12e0be826d695p-30.
Definition znth (l : list Z) (k : nat) : Z := nth k l 0%Z.
Definition ok (c : case) : bool :=
  match c with
  | Csteps num den even odd n semi uv ea =>
      Z.eqb (resolution_to_num_steps (num # den) even odd) n
      && opt_ok Z.eqb (resolution_to_semi_edge_steps (num # den)) semi
      && opt_ok zz_eqb (uv_steps (num # den)) uv
      && opt_ok zz_eqb (equal_area_steps (num # den)) ea
  | Cceil what res n size =>
      if (what <? 3)%Z then is_ceil FOps tol9 (cube_steps_arg FOps what res) n
      else if (what =? 3)%Z then
        is_ceil FOps tol9 (hex_steps_arg FOps res) n
        && (let m := (n + n mod 2)%Z in Z.eqb size (6 * m * m + 2))
      else is_ceil FOps tol9 (ico_steps_arg FOps res) n && Z.eqb size (10 * n * n + 2)
  | Cgrid method n out => all2 q_close (so3_grid FOps method n) out
  | Clgrid n num1 num2 gw out =>
      is_floor FOps tol9 (num_1_arg FOps n gw) (Z.of_nat num1)
      && is_floor FOps tol9 (num_2_arg FOps n gw) (Z.of_nat num2)
      && all2 q_close (three_uniform_local_grid FOps n num1 num2 gw) out
  | Cfund grid subs =>
      forallb (fun s => all2 q_close (sample_fundamental_on FOps f_round12 (fst s) grid) (snd s)) subs
  | Clocal gw center grid out =>
      all2 q_close (sample_local_on FOps f_round12 gw center grid) out
  | Cs2 method p edges out =>
      all2 v_close
        (if (method =? 0)%Z then uv_mesh FOps (Z.to_nat (znth p 0)) (Z.to_nat (znth p 1))
         else if (method =? 1)%Z then equal_area_mesh FOps (Z.to_nat (znth p 0)) (Z.to_nat (znth p 1))
         else if (method <? 5)%Z then cube_mesh FOps (method - 2) (znth p 0)
         else if (method =? 5)%Z then ico_mesh FOps edges (Z.to_nat (znth p 0))
         else hex_mesh FOps (znth p 0)) out
  | Creduced system method normals pts out =>
      all2 q_close (reduced_on FOps normals pts) out
      && ((system <? 0)%Z || Z.eqb (default_s2_method system) method)
  end.
"""


def case_coq(c):
    k = c["k"]
    if k == "steps":
        return (f"Csteps {zl(c['num'])} {int(c['den'])}%positive {bl(c['even'])} {bl(c['odd'])} {zl(c['n'])} "
                f"{optz(c.get('semi'))} {optzz(c.get('uv'))} {optzz(c.get('ea'))}")
    if k == "ceil":
        return f"Cceil {zl(c['what'])} {fhex(c['res'])} {zl(c['n'])} {zl(c.get('size', 0))}"
    if k == "grid":
        return f"Cgrid {zl(c['method'])} {zl(c['n'])} {ql(c['out'])}"
    if k == "lgrid":
        return f"Clgrid {int(c['n'])}%nat {int(c['num1'])}%nat {int(c['num2'])}%nat {fhex(c['gw'])} {ql(c['out'])}"
    if k == "fund":
        subs = lst([f"({ql(s['normals'])}, {ql(s['out'])})" for s in c["subs"]])
        return f"Cfund {ql(c['grid'])} {subs}"
    if k == "local":
        cen = "None" if c["center"] is None else f"(Some {q4(c['center'])})"
        return f"Clocal {fhex(c['gw'])} {cen} {ql(c['grid'])} {ql(c['out'])}"
    if k == "s2":
        edges = lst([f"({int(a)}%nat, {int(b)}%nat)" for a, b in c.get("edges", [])])
        return f"Cs2 {zl(c['method'])} {lst([zl(x) for x in c['p']])} {edges} {vl(c['out'])}"
    if k == "reduced":
        return f"Creduced {zl(c['system'])} {zl(c['method'])} {vl(c['normals'])} {vl(c['pts'])} {ql(c['out'])}"
    raise ValueError(k)


def weight(c):
    return len(json.dumps(c))


def correspond(ck, cases):
    """chunks balanced by payload size (the float lists dominate coqc's time)"""
    chunks, cur, cur_w, index = [], [], 0, []
    for i, c in enumerate(cases):
        w = weight(c)
        if cur and (cur_w + w > 400000 or len(cur) >= 150):
            chunks.append(cur)
            cur, cur_w = [], 0
        cur.append(i)
        cur_w += w
    if cur:
        chunks.append(cur)
    texts = []
    for n, idxs in enumerate(chunks):
        body = "Definition cases : list case := [\n" + ";\n".join(case_coq(cases[i]) for i in idxs) + "].\n"
        texts.append((f"c{n}", body))
    res = run_cases(PROP, texts, header_extra=HEADER, timeout=1200)
    for (name, n, bad, err), idxs in zip(res, chunks):
        if err:
            ck.broken.append(("correspondence", f"cases file {name} did not evaluate: {err[-300:]}"))
            continue
        for b in bad:
            c = cases[idxs[b]]
            small = {k: v for k, v in c.items() if k not in ("out", "grid", "subs", "pts")}
            ck.disagreement(f"model and implementation differ on a {c['k']} case {json.dumps(small)[:200]}", small)


def run(tier, seed):
    ck = Check(PROP, tier, seed)
    ck.trusted += ["translator tools/translate for the scalar kernels the grids call (cu2ro, ro2ax, ax2qu, eu2qu, "
                   "from_polar, polar, azimuth, Rotation._differentiators)",
                   "hand model coq/Model/C19Model.v of the sampling functions (tied by correspondence only)",
                   "OrientationRegion.from_symmetry / Symmetry.fundamental_sector normals are inputs of the model "
                   "(taken from the implementation; the oracle checks the zone with an independent Voronoi criterion)",
                   "np.linspace / np.meshgrid order / python set iteration order of the icosahedron edges "
                   "(modelled, compared element by element)",
                   "FInst float evaluator (correspondence sensitivity only)"]
    ck.assumptions += ["theorems are over exact reals; float rounding is not modelled (see finding "
                       "cubochoric:outer-layer-dropped, which is a pure rounding effect found by the oracle)",
                       "COVERING is proved only for the uv mesh (chord <= r/sqrt 2); for every other grid it is "
                       "NOT proved and only monitored by the oracle with stratified probes",
                       "step counts through tan/arctan are modelled relationally (n - 1 < x <= n)"]
    if not ck.step_sanity():
        return ck.finish()
    ck.step_prove(["quatkernels", "conversions", "c17", "c20stereo"], "Props/C19.v", extra=["Model/C19Model.vo"])
    out = run_impl("c19.py", {"seed": seed, "tier": tier}, timeout=2400)
    cases = out["cases"]
    for c in cases:
        if c["k"] == "fund":
            for s in c["subs"]:
                ck.count(f"fund/{c['method']}/{s['group']}", (c["method"], c["n"], s["group"]))
        else:
            key = {k: v for k, v in c.items() if k not in ("out", "grid", "pts")}
            ck.count(c["k"] + ("/" + str(c.get("method")) if "method" in c else ""), json.dumps(key, sort_keys=True)[:500])
    for s, v in out["strata"].items():
        if s.startswith("oracle/"):
            ck.cov["strata"][s] = v
            ck.cov["evaluations"] += v
    ck.cov["measured_covering_ratio"] = {k: round(v, 3) for k, v in sorted(out["measured"].items())}
    for c in cases[:400:60]:
        ck.sample({k: (v if not isinstance(v, list) else f"<{len(v)} items>") for k, v in c.items()})
    correspond(ck, cases)
    for f in out["fails"]:
        ck.failure(f["sig"], f["what"], f["replay"])
    ck.cov["rule"] = ("correspondence: step counts for fixed + random dyadic resolutions (3 parity modes); relational "
                      "tan/arctan step counts; whole SO(3) grids (3 methods x several sizes, element by element, order "
                      "included); filter+unique of get_sample_fundamental on the implementation's grid for the 11 proper "
                      "groups (+4 settings in thorough) x 3 methods (same length, same order, values to 2^-30: Rotation.__init__ re-normalises on every indexing, which is the identity over R and is not modelled); get_sample_local x 3 methods with and "
                      "without centre; 7 S2 meshes; reduced sample for all 38 point groups. oracle: 11 groups x 3 methods "
                      "x resolutions: Voronoi inside test, duplicates, covering radius of stratified probes (uniform, small "
                      "angle, near pi, Euler poles, u1 poles, cubochoric pyramid boundaries / faces); cubochoric sizes; "
                      "local angle bound; S2 unit + covering (uniform, polar caps, cube edges, equator); reduced exactness, "
                      "inside, phi1 = 0, covering. distinct = distinct (kind, parameters)")
    return ck.finish()


def replay(path):
    d = json.load(open(path))
    print(json.dumps(d, indent=1)[:3000])
    return run("quick", d.get("seed", 0))
