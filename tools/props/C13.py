"""C13 -- orix HDF5 save/load is lossless (DESIGN.md section 4, C13; design.d/C13.md)."""
import json
import os
import shutil

from vlib import BUILD, Check, coq_eval, fhex, run_cases, run_impl

PROP = "C13"

HEADER = """From Verif Require Import Quat RotArr C13Store C13Map C13Cmp.
Open Scope Z_scope.
"""


# ------------------------------------------------------------ Coq printers
def cstr(s):
    """python str -> Coq string literal (bytes of the UTF-8 encoding)"""
    return '"' + s.replace('"', '""') + '"%string'


def zl(xs):
    return "[" + "; ".join(f"({int(x)})" if int(x) < 0 else str(int(x)) for x in xs) + "]"


def pstr(s):
    return zl([ord(c) for c in s])


def nl(xs):
    return "[" + "; ".join(f"{int(x)}%nat" for x in xs) + "]"


def arr(a):
    if a["cls"] == "F":
        d = "DF [" + "; ".join(fhex(x) for x in a["d"]) + "]%float"
    elif a["cls"] == "I":
        d = "DI " + zl(a["d"])
    elif a["cls"] == "B":
        d = "DB [" + "; ".join("true" if x else "false" for x in a["d"]) + "]"
    else:
        raise ValueError("array class not representable in the model: " + a["dt"])
    return f"(mkArr {cstr(a['dt'])} {nl(a['sh'])} ({d}))"


def oarr(a):
    return "None" if a is None else f"(Some {arr(a)})"


def opt(x, f):
    return "None" if x is None else f"(Some {f(x)})"


def atom(a):
    return f"(mkAtom {pstr(a['element'])} {pstr(a['label'])} {fhex(a['occ'])}%float {arr(a['xyz'])} {arr(a['U'])})"


def phase(p):
    ats = "[" + "; ".join(atom(a) for a in p["atoms"]) + "]"
    return (f"(mkPhase {pstr(p['name'])} {opt(p['sg'], lambda z: str(int(z)))} {opt(p['pg'], pstr)} "
            f"{pstr(p['color'])} (mkLat {arr(p['abcABG'])} {arr(p['baserot'])}, {ats}))")


def cmap(m):
    rots = "[" + "; ".join("((" + ", ".join(fhex(x) for x in q) + ")%float, " + ("true" if i else "false") + ")"
                           for q, i in zip(m["q"], m["imp"])) + "]"
    props = "[" + "; ".join(f"({cstr(k)}, {arr(v)})" for k, v in m["props"].items()) + "]"
    phases = "[" + "; ".join(f"({int(i) if int(i) >= 0 else '(%d)' % int(i)}, {phase(p)})"
                             for i, p in sorted(m["phases"].items(), key=lambda kv: int(kv[0]))) + "]"
    return (f"(mkMap {nl(m['rsh'])} {rots} {zl(m['pid'])} {oarr(m['x'])} {oarr(m['y'])} "
            f"[{'; '.join('true' if b else 'false' for b in m['ind'])}] {props} {opt(m['unit'], pstr)} {phases})")


def h5(node):
    if "g" in node:
        return "(HG [" + "; ".join(f"({cstr(k)}, {h5(v)})" for k, v in node["g"].items()) + "])"
    if "s" in node:
        if node["sh"] != [1]:
            raise ValueError("string dataset of unexpected shape")
        return f"(HS {node['w']} {zl(node['s'][0])})"
    return f"(HA {arr(node['a'])})"


def case_coq(c, canon):
    tab = "[" + "; ".join(f"({pstr(k)}, {pstr(v)})" for k, v in sorted(canon.items())) + "]"
    f = "None" if c["file"] is None else "(Some " + h5({"g": c["file"]}) + ")"
    ld = "None" if c["loaded"] is None else "(Some " + cmap(c["loaded"]) + ")"
    return f"mkCase {cmap(c['m'])} {pstr(c['version'])} {tab} {f} {ld}"


def tables_coq(t):
    sl = lambda xs: "[" + "; ".join(cstr(x) for x in xs) + "]"  # noqa
    al = "[" + "; ".join(f"({cstr(k)}, {sl(v)})" for k, v in t["aliases"]) + "]"
    return f"Eval vm_compute in (tables_ok {sl(t['sg2pg'])} {al} {sl(t['groups'])}).\n"


# ------------------------------------------------------------ correspondence
def correspond(ck, out, chunk=60):
    cases = [c for c in out["cases"] if c["corr"]]
    chunks = []
    for i in range(0, len(cases), chunk):
        body = ("Definition cases : list case := [\n" +
                ";\n".join(case_coq(c, out["canon"]) for c in cases[i:i + chunk]) + "].\n")
        chunks.append((f"c{i // chunk}", body))
    res = run_cases(PROP, chunks, header_extra=HEADER)
    for (name, n, bad, err), i in zip(res, range(0, len(cases), chunk)):
        if err:
            ck.broken.append(("correspondence", f"cases file {name} did not evaluate: {err[-300:]}"))
            continue
        if bad:
            txt = (HEADER + "Definition cases : list case := [\n" +
                   ";\n".join(case_coq(cases[i + b], out["canon"]) for b in bad[:20]) +
                   "].\nEval vm_compute in (map (fun c => (save_ok c, load_ok c)) cases).\n")
            okc, outc = coq_eval(PROP, "diag", txt)
            import re
            rows = re.findall(r"\((true|false), (true|false)\)", outc.replace("\n", " "))
        for k, b in enumerate(bad):
            c = cases[i + b]
            which = ""
            if k < len(rows):
                which = ",".join(w for w, v in zip(("save: model tree != file", "load: model(file) != loaded map"),
                                                   rows[k]) if v == "false")
            ck.disagreement(f"model and implementation differ on a map (hostile={c['hostile']}, "
                            f"save_exc={c['save_exc']}, load_exc={c['load_exc']}): {which}",
                            {"id": c["id"], "m": c["m"], "load_exc": c["load_exc"], "save_exc": c["save_exc"]})
    # the embedded symmetry tables are the ones of the source
    okc, outc = coq_eval(PROP, "tables", HEADER + tables_coq(out["tables"]))
    if not okc or "= true" not in outc:
        ck.broken.append(("correspondence", "sg->pg / alias / group-name tables embedded in Model/C13Map.v differ "
                          "from orix/quaternion/symmetry.py: " + outc[-200:]))
    return len(cases)


def run(tier, seed, only=None):
    ck = Check(PROP, tier, seed)
    ck.trusted += ["h5py/HDF5 as a faithful store of typed arrays and fixed-width byte strings, links listed in name "
                   "order (observed through a dump of every file the check writes)",
                   "matplotlib colour-name canonicalisation (Phase.color setter): abstract function, idempotence on "
                   "its outputs tested each run",
                   "Phase.structure setter (lattice re-alignment): abstract function; fixed-point hypothesis "
                   "tested each run through the lattice/atoms comparison of the oracle",
                   "diffpy Atom/Lattice/Structure constructors as record constructors",
                   "Euler kernels: generated coq/Gen/Conversions.v (translator) + C01 lemmas",
                   "FInst float evaluator (correspondence sensitivity only)"]
    ck.assumptions += ["theorems are over exact reals; Euler round trip proved on the generic branch and on the exact "
                       "gimbal branch Phi=0 outside the kernels' 1e-9 threshold bands",
                       "HDF5 path semantics of '/' in dataset names and numpy string arrays are not modelled "
                       "(oracle only)"]
    if not ck.step_sanity():
        return ck.finish()
    ck.step_prove(["conversions", "quatkernels"], "Props/C13.v",
                  extra=["Model/C13Cmp.vo"])
    tmp = os.path.join(BUILD, "tmp", "c13")
    os.makedirs(tmp, exist_ok=True)
    payload = {"seed": seed, "n": 240 if tier == "quick" else 2400, "tmp": tmp}
    if only is not None:
        payload["only"] = only
    try:
        out = run_impl("c13.py", payload)
    finally:
        shutil.rmtree(tmp, ignore_errors=True)
    for c in out["cases"]:
        ck.count("hostile:" + str(c["hostile"]), json.dumps(c["m"], sort_keys=True)[:4000],
                 nontrivial=True)
    ck.cov["strata"] = out["strata"]
    for c in out["cases"][:3]:
        ck.sample({"rsh": c["m"]["rsh"], "pid": c["m"]["pid"], "props": list(c["m"]["props"]),
                   "phases": {i: [p["name"], p["sg"], p["pg"]] for i, p in c["m"]["phases"].items()}})
    ncorr = correspond(ck, out)
    ck.cov["correspondence_cases"] = ncorr
    for f in out["fails"]:
        ck.failure(f["sig"], f["what"], f["replay"])
    ck.cov["rule"] = ("maps built through the public API from structured specs: 1D (x / y / no coordinates) and 2D "
                      "grids with int and float steps, 1..12 points, 1/2/3/5 rotations per point, rotations generic / "
                      "negative scalar part / non-unit / identity / Euler gimbal Phi=0, pi and near, in-data masks "
                      "(none, partial, empty), 1-3 phases with non-contiguous ids and not-indexed points, phases with "
                      "space group / point group / both / none, 0-15 atoms, 7 lattices, 16 colour spellings, 0-4 "
                      "properties of 7 dtypes with 1 or 2 values per point, 6 scan units; 20 hostile strata (one per "
                      "forced hypothesis of the Coq theorem or repaired defect). Every case goes through a real HDF5 file (both "
                      "extensions) which is dumped and removed; model save vs file, model load(file) vs loaded map "
                      "inside Coq; oracle = field-by-field numpy comparison, save-does-not-mutate, second cycle. "
                      "distinct = distinct observed map record")
    return ck.finish()


def replay(path):
    d = json.load(open(path))
    print(json.dumps(d, indent=1)[:3000])
    rep = d.get("replay") or {}
    if "spec" in rep:
        return run("quick", d.get("seed", 0), only=[rep["spec"]])
    return run("quick", d.get("seed", 0))
