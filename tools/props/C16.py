"""C16 -- array-like objects have value semantics under structural operations
(DESIGN.md section 4, C16; as-built notes in design.d/C16.md)."""
import glob
import json
import os

from vlib import BUILD, VERIF, Check, fhex, run_cases, run_impl

PROP = "C16"

CLS = {"Quaternion": "CQuat", "Rotation": "CRot", "Misorientation": "CMis",
       "Orientation": "COri", "Vector3d": "CVec", "Miller": "CMil"}
EOPS = {"id": "EId", "unit": "EUnit", "inv": "EInv", "neg": "ENeg"}

HEADER = """From Verif Require Import NdIndex C16Model.
Open Scope float_scope.
Definition frow : Type := (list float * bool)%type.
Inductive outcome := Raised | Res (s : list nat) (rows : list frow) (m : meta).
Inductive case :=
| CProg (c : cls) (x : obj (list float)) (steps : list (op * outcome))
| CAz (x : obj (list float)) (after : list (list float)) (vals : list float).
Fixpoint rows_close (a b : list frow) : bool :=
  match a, b with
  | [], [] => true
  | (u, i) :: a', (v, j) :: b' => fclose_list u v && Bool.eqb i j && rows_close a' b'
  | _, _ => false
  end.
Fixpoint data_close (a : list frow) (b : list (list float)) : bool :=
  match a, b with
  | [], [] => true
  | (u, _) :: a', v :: b' => fclose_list u v && data_close a' b'
  | _, _ => false
  end.
Fixpoint ang_close (a b : list float) : bool :=
  match a, b with
  | [], [] => true
  | x :: a', y :: b' => fclose_ang x y && ang_close a' b'
  | _, _ => false
  end.
(* run the FAITHFUL model step by step, continuing from the model's own
   result, and compare with what the implementation produced at every step *)
Fixpoint check (c : cls) (x : obj (list float)) (steps : list (op * outcome)) : bool :=
  match steps with
  | [] => true
  | (o, out) :: r =>
      match step_cls (lvf FOps) c o x, out with
      | Some x', Res s rows m =>
          shape_eqn (oshape x') s && rows_close (orows x') rows && meta_eqb (ometa x') m
          && check c x' r
      | None, Raised => match r with [] => true | _ => false end
      | _, _ => false
      end
  end.
Definition ok (cs : case) : bool :=
  match cs with
  | CProg c x steps => check c x steps
  | CAz x after vals =>
      data_close (orows (after_read PAzimuth x)) after
      && ang_close (azimuth_values FOps x) vals
  end.
"""


def nat_list(xs):
    return "[" + "; ".join(f"{int(x)}%nat" for x in xs) + "]"


def z(n):
    return f"({int(n)})%Z"


def zopt(v):
    return "None" if v is None else f"(Some {z(v)})"


def fl(xs):
    return "[" + "; ".join(fhex(x) for x in xs) + "]"


def rows(data, flags):
    return "[" + "; ".join(f"({fl(d)}, {'true' if f else 'false'})" for d, f in zip(data, flags)) + "]"


def meta(m):
    return f"(mkMeta {z(m[0])} {z(m[1])} {z(m[2])} {z(m[3])})"


def obj(s):
    return f"(mkObj {nat_list(s['shape'])} {rows(s['data'], s['flags'])} {meta(s['meta'])})"


def key(k):
    if k["t"] == "basic":
        items = []
        for it in k["items"]:
            if it[0] == "i":
                items.append(f"KInt {z(it[1])}")
            else:
                items.append(f"KSlice {zopt(it[1])} {zopt(it[2])} {zopt(it[3])}")
        return "(KBasic [" + "; ".join(items) + "])"
    if k["t"] == "ellip":
        def items_of(l):
            return "[" + "; ".join(f"KInt {z(it[1])}" if it[0] == "i" else f"KSlice {zopt(it[1])} {zopt(it[2])} {zopt(it[3])}" for it in l) + "]"
        return f"(KEllip {items_of(k['before'])} {items_of(k['after'])})"
    if k["t"] == "mask":
        bits = "[" + "; ".join("true" if b else "false" for b in k["bits"]) + "]"
        return f"(KMask {nat_list(k['mshape'])} {bits})"
    return "(KFancy [" + "; ".join(z(i) for i in k["ix"]) + "])"


def op(o):
    k = o["op"]
    if k == "get":
        return f"(OGet {key(o['key'])})"
    if k == "reshape":
        return "(OReshape [" + "; ".join(z(d) for d in o["dims"]) + "])"
    if k == "flatten":
        return "OFlatten"
    if k == "transpose":
        return "(OTranspose None)" if o["axes"] is None else f"(OTranspose (Some {nat_list(o['axes'])}))"
    if k == "squeeze":
        return "OSqueeze"
    if k == "stack":
        return "(OStack [" + "; ".join(EOPS[e] for e in o["vs"]) + "])"
    return f"(OEl {EOPS[k]})"


def outcome(s):
    if s is None:
        return "Raised"
    return f"(Res {nat_list(s['shape'])} {rows(s['data'], s['flags'])} {meta(s['meta'])})"


def has_nan(c):
    def bad(s):
        return s is not None and any(x != x or abs(x) == float("inf") for r in s["data"] for x in r)
    if c["k"] == "az":
        return bad(c["init"])
    return bad(c["init"]) or any(bad(st["out"]) for st in c["steps"])


def has_unknown_meta(c):
    if c["k"] != "prog":
        return False
    return any(st["out"] is not None and min(st["out"]["meta"]) < 0 for st in c["steps"])


def case_coq(c):
    if c["k"] == "az":
        return (f"CAz {obj(c['init'])} [" + "; ".join(fl(d) for d in c["after"]) + f"] {fl(c['vals'])}")
    steps = "; ".join(f"({op(s['op'])}, {outcome(s['out'])})" for s in c["steps"])
    return f"CProg {CLS[c['cls']]} {obj(c['init'])} [{steps}]"


def correspond(ck, cases, chunk=120):
    usable = [c for c in cases if not has_nan(c)]
    chunks = []
    for i in range(0, len(usable), chunk):
        body = ("Definition cases : list case := [\n" +
                ";\n".join(case_coq(c) for c in usable[i:i + chunk]) + "].\n")
        chunks.append((f"c{i // chunk}", body))
    res = run_cases(PROP, chunks, header_extra=HEADER)
    for (name, n, bad, err), i in zip(res, range(0, len(usable), chunk)):
        if err:
            ck.broken.append(("correspondence", f"cases file {name} did not evaluate: {err[-300:]}"))
            continue
        for b in bad:
            c = usable[i + b]
            what = (f"faithful model and implementation differ: class {c['cls']}, "
                    + ("azimuth read" if c["k"] == "az" else
                       "program " + " ; ".join(s["op"]["op"] for s in c["steps"])))
            rep = {"cls": c["cls"], "init": c["init"]}
            if c["k"] == "prog":
                rep["prog"] = [s["op"] for s in c["steps"]]
                rep["observed"] = [s["out"] for s in c["steps"]]
            ck.disagreement(what, rep)
    return len(usable)


def exhaustive_cases():
    """bounded-exhaustive support for the model's validation (thorough tier):
    every class x a set of small shapes x every single operation from a small
    alphabet x every pair of them"""
    alpha = [{"op": "flatten"}, {"op": "squeeze"}, {"op": "transpose", "axes": None},
             {"op": "unit"}, {"op": "neg"}, {"op": "inv"},
             {"op": "get", "key": {"t": "basic", "items": [["i", 0]], "bare": True}},
             {"op": "get", "key": {"t": "basic", "items": [["s", None, None, -1]], "bare": True}},
             {"op": "reshape", "dims": [-1], "tup": False},
             {"op": "stack", "vs": ["id", "neg"]}]
    progs = [[a] for a in alpha] + [[a, b] for a in alpha for b in alpha]
    return progs


def run(tier, seed):
    ck = Check(PROP, tier, seed)
    ck.trusted += ["hand-written faithful model coq/Model/C16Model.v (tied to /repo by the correspondence only)",
                   "FInst float evaluator (correspondence sensitivity only)",
                   "numpy indexing/reshape/transpose on an integer index array is the oracle's reference"]
    ck.assumptions += ["NumPy view/aliasing semantics are not modelled: the model is functional; operand mutation is "
                       "observed on the implementation by deep comparison before/after every step and property read",
                       "Rotation.__init__'s re-normalisation of already-unit quaternions is modelled as the identity",
                       "0-d objects (reshape to the empty shape), Ellipsis/None keys and NaN data are outside the modelled domain"]
    if not ck.step_sanity():
        return ck.finish()
    ck.step_prove([], "Props/C16.v", extra=["Model/C16Model.vo"])
    n = 300 if tier == "quick" else 4000
    # corpus first (minimised regression cases), then the generated cases
    corpus = []
    for f in sorted(glob.glob(os.path.join(VERIF, "corpus", PROP, "*.json"))):
        corpus += json.load(open(f))
    cases, fails = [], []
    if corpus:
        co = run_impl("c16.py", {"seed": 0, "n": 0, "only": corpus})
        for c in co["cases"]:
            c["tag"] = "corpus"
        cases += co["cases"]
        fails += co["fails"]
    out = run_impl("c16.py", {"seed": seed, "n": n})
    cases += out["cases"]
    fails += list(out["fails"])
    strata = dict(out["strata"])
    strata["corpus"] = len(corpus)
    if tier != "quick":
        # bounded-exhaustive: all 6 classes x 6 shapes x 110 programs of length <= 2
        ex = run_impl("c16.py", {"seed": seed + 1, "n": 0, "exhaustive": exhaustive_cases()})
        cases += ex["cases"]
        fails += ex["fails"]
        for k, v in ex["strata"].items():
            strata[k] = strata.get(k, 0) + v
    for c in cases:
        if c["k"] == "prog":
            ck.count(c.get("tag", c["cls"]), json.dumps([c["cls"], c["init"]["shape"], c["init"]["flags"],
                                                         c["init"]["meta"], [s["op"] for s in c["steps"]]]),
                     nontrivial=len(c["init"]["data"]) > 1 or len(c["steps"]) > 1)
        else:
            ck.count("azimuth-read", json.dumps(c["init"]["data"]))
    ck.cov["strata"] = strata
    for c in cases[:4]:
        if c["k"] == "prog":
            ck.sample({"cls": c["cls"], "shape": c["init"]["shape"], "meta": c["init"]["meta"],
                       "prog": [s["op"] for s in c["steps"]]})
    nus = correspond(ck, cases)
    ck.cov["correspondence_cases"] = nus
    ck.cov["flatten_order_measured"] = out.get("order")
    for f in fails:
        ck.failure(f["sig"], f["what"], f["replay"])
    ck.cov["rule"] = ("case = class (6) x shape stratum (1-D, 2-D, size-1 axes, empty, 3-D, 4-D, 5-D) x improper "
                      "flags (mixed/none/all) x metadata (7 symmetries, 3 phases x 5 coordinate formats) x data kind "
                      "(plain, components within 1e-8 of 0, zero vectors) x random program of 1-6 operations "
                      "(getitem with int/slice/tuple/mask/integer-list keys, reshape incl. -1, flatten, transpose, "
                      "squeeze, stack of element-wise variants, unit, ~, -), 12% with a malformed last operation; "
                      "every step is compared Coq faithful model vs implementation and checked by the oracle against "
                      "numpy acting on an index array; every public property of the final object is read with a deep "
                      "comparison before/after; distinct = distinct (class, shape, flags, metadata, program); "
                      "non-trivial = more than one element or more than one step")
    ck.cov["exhaustive"] = (tier != "quick")
    ck.cov["partial_or_refuted"] = ["C16_other_properties_pure_partial"]
    return ck.finish()


def replay(path):
    d = json.load(open(path))
    print(json.dumps(d, indent=1)[:4000])
    rep = d.get("replay", {})
    if isinstance(rep, dict) and "init" in rep and "prog" in rep:
        out = run_impl("c16.py", {"seed": 0, "n": 0, "only": [rep]})
        for f in out["fails"]:
            print("REPLAY-FAIL:", f["sig"], "--", f["what"])
        print(f"replayed: {len(out['fails'])} oracle failure(s) on this input")
        return 1 if any(f["sig"] == d.get("signature") for f in out["fails"]) else 0
    return run("quick", d.get("seed", 0))
