"""C15 -- vendor file readers decode every field of the formats they support
(DESIGN.md section 4, C15; as-built notes in design.d/C15.md)."""
import json
import re

from vlib import Check, coq_eval, fhex, run_cases, run_impl

PROP = "C15"


# ------------------------------------------------------------- JSON -> Coq text
def cstr(s):
    return '"' + s.replace('"', '""') + '"'


def coq(v):
    if v is None:
        return "None"
    if isinstance(v, bool):
        return "true" if v else "false"
    if isinstance(v, int):
        return f"({v})%Z"
    if isinstance(v, float):
        return fhex(v)
    if isinstance(v, str):
        return cstr(v)
    if isinstance(v, list):
        return "[" + "; ".join(coq(x) for x in v) + "]"
    if isinstance(v, dict):
        if "c" in v:
            return "(" + " ".join([v["c"]] + [coq(a) for a in v["a"]]) + ")" if v["a"] else v["c"]
        if "nat" in v:
            return f"{v['nat']}%nat"
        if "some" in v:
            return f"(Some {coq(v['some'])})"
        if "t" in v:
            return "(" + ", ".join(coq(x) for x in v["t"]) + ")"
        if "f" in v:
            return fhex(v["f"])
    raise ValueError(f"cannot encode {v!r}")


ERR = {"ValueError": "EValue", "IndexError": "EIndex"}


def obs_coq(o):
    if "err" in o:
        return f"(OErr {ERR.get(o['err'], 'EOther')})"
    qs = "[" + "; ".join("(" + ", ".join(fhex(x) for x in q) + ")" for q in o["q"]) + "]"
    fl = lambda xs: "[" + "; ".join(fhex(x) for x in xs) + "]"  # noqa: E731
    props = "[" + "; ".join(f"({cstr(k)}, {w}%nat, {fl(v)})" for k, w, v in o["props"]) + "]"
    phases = "[" + "; ".join(
        f"(({i})%Z, {cstr(n)}, {('(Some ' + coq(sg) + ')') if sg is not None else 'None'}, {('(Some ' + cstr(pg) + ')') if pg is not None else 'None'}, {fl(lat)})"
        for i, n, sg, pg, lat in o["phases"]) + "]"
    return (f"(OMap (mkObs {o['rw']}%nat {qs} {fl(o['x'])} {fl(o['y'])} {coq(o['pid'])} {props} "
            f"{cstr(o['unit'])} {phases} {coq(bool(o['warn']))}))")


HEADER = """From Verif Require Import Conversions RotArr C15Tables C15Common C15Ang C15Ctf C15H5.
Open Scope string_scope. Open Scope list_scope. Open Scope float_scope.
Definition F := float.
Record obs := mkObs { o_rw : nat; o_q : list (F * F * F * F); o_x : list F; o_y : list F; o_pid : list Z;
  o_props : list (string * nat * list F); o_unit : string;
  o_phases : list (Z * string * option Z * option string * list F); o_warn : bool }.
Inductive observed := OMap (o : obs) | OErr (e : err).
Inductive case :=
| KAng (f : angfile (T:=F)) (hdr : list (angline (T:=F))) (rows : list (list (num (T:=F)))) (o : observed)
| KCtf (f : ctffile (T:=F)) (hdr : list (ctfline (T:=F))) (rows : list (list (num (T:=F)))) (o : observed)
| KBruker (f : bfile (T:=F)) (t : btok (T:=F)) (o : observed)
| KEmsoft (refined : bool) (f : efile (T:=F)) (t : etok (T:=F)) (o : observed)
| KSgPg (n : Z) (name : string)
| KSelect (ext : string) (h5 : bool) (man got : option string).
Fixpoint all2b {A B} (f : A -> B -> bool) (xs : list A) (ys : list B) : bool :=
  match xs, ys with
  | [], [] => true
  | x :: xs', y :: ys' => f x y && all2b f xs' ys'
  | _, _ => false
  end.
Definition err_eqb (a b : err) : bool :=
  match a, b with EValue, EValue | EIndex, EIndex | EOther, EOther => true | _, _ => false end.
Definition oZ_eqb (a b : option Z) : bool :=
  match a, b with Some x, Some y => Z.eqb x y | None, None => true | _, _ => false end.
Definition oS_eqb (a b : option string) : bool :=
  match a, b with Some x, Some y => String.eqb x y | None, None => true | _, _ => false end.
Definition eu_q (e : F * F * F) : F * F * F * F := let '(a, b, c) := e in eu2qu_single FOps a b c.
Definition phase_ok (mp : Z * phase (T:=F)) (op : Z * string * option Z * option string * list F) : bool :=
  let '(i, n, sg, pg, lat) := op in
  Z.eqb (fst mp) i && String.eqb (ph_name (snd mp)) n && oZ_eqb (ph_sg (snd mp)) sg
  && oS_eqb (ph_pg (snd mp)) pg && fclose_list (ph_lat (snd mp)) lat.
Definition prop_ok (mp : string * (nat * list F)) (op : string * nat * list F) : bool :=
  let '(n, w, v) := op in
  String.eqb (fst mp) n && Nat.eqb (fst (snd mp)) w && fclose_list (snd (snd mp)) v.
(* which fields agree: rw, rotations, x, y, phase ids, properties, unit, phases, warning *)
Definition diag_map (m : xmap (T:=F)) (o : obs) : list bool :=
  [ Nat.eqb (xm_rw m) (o_rw o); all2b q_close (map eu_q (xm_eu m)) (o_q o);
    fclose_list (xm_x m) (o_x o); fclose_list (xm_y m) (o_y o);
    all2b Z.eqb (xm_pid m) (o_pid o); all2b prop_ok (xm_props m) (o_props o);
    String.eqb (xm_unit m) (o_unit o); all2b phase_ok (xm_phases m) (o_phases o);
    Bool.eqb (xm_warn m) (o_warn o) ].
Definition diag_res (r : result (xmap (T:=F))) (o : observed) : list bool :=
  match r, o with
  | Ok m, OMap ob => diag_map m ob
  | Err e, OErr e' => [err_eqb e e']
  | _, _ => [false]
  end.
(* model on the Coq rendering of the abstract file, then model on the tokens
   the serialisation shim actually wrote *)
Definition diag (c : case) : list bool :=
  match c with
  | KAng f hdr rows o =>
      let '(h, r) := render_ang f in diag_res (parse_ang FOps h r) o ++ diag_res (parse_ang FOps hdr rows) o
  | KCtf f hdr rows o =>
      let '(h, r) := render_ctf f in diag_res (parse_ctf FOps h r) o ++ diag_res (parse_ctf FOps hdr rows) o
  | KBruker f t o => diag_res (parse_bruker FOps (render_bruker FOps f)) o ++ diag_res (parse_bruker FOps t) o
  | KEmsoft rf f t o => diag_res (parse_emsoft FOps rf (render_emsoft FOps f)) o ++ diag_res (parse_emsoft FOps rf t) o
  | KSgPg n name => [String.eqb (sg_pg n) name]
  | KSelect ext h5 man got => [oS_eqb (select_plugin ext h5 man) got]
  end.
Definition ok (c : case) : bool := forallb (fun b => b) (diag c).
"""

FIELDS = ["rotations-per-point", "rotations", "x", "y", "phase_id", "properties", "scan_unit", "phases", "warning"]


def case_coq(c):
    k = c["fmt"]
    if k == "ang":
        return f"KAng {coq(c['file'])} {coq(c['tokens'][0])} {coq(c['tokens'][1])} {obs_coq(c['obs'])}"
    if k == "ctf":
        return f"KCtf {coq(c['file'])} {coq(c['tokens'][0])} {coq(c['tokens'][1])} {obs_coq(c['obs'])}"
    if k == "bruker":
        return f"KBruker {coq(c['file'])} {coq(c['tokens'])} {obs_coq(c['obs'])}"
    if k == "emsoft":
        return f"KEmsoft {coq(c['extra']['refined'])} {coq(c['file'])} {coq(c['tokens'])} {obs_coq(c['obs'])}"
    if k == "sgpg":
        return f"KSgPg ({c['n']})%Z {cstr(c['name'])}"
    if k == "select":
        man = f"(Some {cstr(c['man'])})" if c["man"] is not None else "None"
        got = f"(Some {cstr(c['got'])})" if c["got"] is not None else "None"
        return f"KSelect {cstr(c['ext'])} {coq(c['h5'])} {man} {got}"
    raise ValueError(k)


def describe(flags):
    half = len(flags) // 2
    parts = []
    for label, fl in (("coq-rendering", flags[:half]), ("shim-tokens", flags[half:])):
        if len(fl) == 1:
            if fl[0] == "false":
                parts.append(f"{label}: error class / outcome differs")
        else:
            bad = [f for f, v in zip(FIELDS, fl) if v == "false"]
            if bad:
                parts.append(f"{label}: " + ",".join(bad))
    return "; ".join(parts)


def correspond(ck, cases, chunk=40):
    chunks = []
    for i in range(0, len(cases), chunk):
        body = "Definition cases : list case := [\n" + ";\n".join(case_coq(c) for c in cases[i:i + chunk]) + "].\n"
        chunks.append((f"c{i // chunk}", body))
    res = run_cases(PROP, chunks, header_extra=HEADER)
    for (name, n, bad, err), i in zip(res, range(0, len(cases), chunk)):
        if err:
            ck.broken.append(("correspondence", f"cases file {name} did not evaluate: {err[-400:]}"))
            continue
        rows = []
        if bad:
            txt = HEADER + "Definition cases : list case := [\n" + \
                ";\n".join(case_coq(cases[i + b]) for b in bad[:20]) + "].\nEval vm_compute in (map diag cases).\n"
            _, outc = coq_eval(PROP, "diag", txt)
            rows = re.findall(r"\[((?:true|false)(?:; (?:true|false))*)\]", re.sub(r"\s+", " ", outc))
        for k, b in enumerate(bad):
            c = cases[i + b]
            which = describe(rows[k].split("; ")) if k < len(rows) else ""
            rep = {"stratum": c.get("stratum"), "abstract": c.get("abstract"), "observed": c.get("obs"),
                   "case": {kk: c[kk] for kk in c if kk in ("n", "name", "ext", "h5", "man", "got")}}
            ck.disagreement(f"reader model and implementation differ on a {c.get('stratum', c['fmt'])} file: {which}", rep)


def run(tier, seed, only=None):
    ck = Check(PROP, tier, seed)
    ck.trusted += [
        "translator unit tools/translate/units_c15.py (python ast -> string tables Gen/C15Tables.v)",
        "serialisation shim in tools/impl/c15.py (tokens -> text / HDF5; its token rendering is checked against the "
        "Coq renderer through the model on every case)",
        "np.loadtxt / float() as exact decimal parsing of repr() output; h5py as a faithful store",
        "space group -> point group name (diffpy table) and reader selection: compared exhaustively each run",
        "FInst float evaluator and generated eu2qu kernel (rotation comparison only)"]
    ck.assumptions += [
        "regular expressions of the readers are modelled at token level (line kinds / fields); character classes "
        "are not verified; generated names use [A-Za-z0-9_/]",
        "theorems are about the token-level reader models; numbers are an abstract scalar type (no rounding claim)",
        "CrystalMap construction is modelled only for the phase-list reconciliation; shape/step derivation from the "
        "coordinates is checked by the oracle on the implementation, not proved"]
    if not ck.step_sanity():
        return ck.finish()
    ck.step_prove(["c15tables", "conversions"], "Props/C15.v",
                  extra=["Model/C15Common.vo", "Model/C15Ang.vo", "Model/C15Ctf.vo", "Model/C15H5.vo", "Model/RotArr.vo"])
    n = 130 if tier == "quick" else 1600
    payload = {"seed": seed, "n": n}
    if only is not None:
        payload["only"] = only
    out = run_impl("c15.py", payload)
    cases = out["cases"]
    for c in cases:
        ck.count(c["stratum"], json.dumps(c["abstract"], sort_keys=True))
    for c in cases[:60:12]:
        a = c["abstract"]
        ck.sample({"stratum": c["stratum"], "grid": c["grid"],
                   "phases": a.get("phases") if a["fmt"] != "emsoft" else [a["name"], a["pg"]],
                   "first_point": (a.get("pts") or [None])[0], "observed_phases": c["obs"].get("phases"),
                   "observed_error": c["obs"].get("err")})
    tab = out["tables"]
    extra_cases = [{"fmt": "sgpg", "n": n_, "name": nm} for n_, nm in tab["sgpg"]] + \
                  [dict(fmt="select", **s) for s in tab["select"]]
    for c in extra_cases:
        ck.count("table/" + c["fmt"], json.dumps(c, sort_keys=True), nontrivial=False)
    if tab["sgpg_bad"]:
        ck.broken.append(("correspondence", f"oracle's space-group table differs from get_point_group for {tab['sgpg_bad'][:10]}"))
    correspond(ck, cases + extra_cases)
    for f in out["fails"]:
        ck.failure(f["sig"], f["what"], f["replay"])
    ck.cov["rule"] = (
        "random abstract files per vendor variant (ang: TSL 10/14 columns, EMsoft, ASTAR, orix with extra columns; "
        "ctf: Oxford, Bruker decimal comma, EMsoft, ASTAR, MTEX; h5ebsd: Bruker with/without ROI index datasets and "
        "file order = grid / shuffled within rows / rows shuffled, EMsoft top-match and refined): grids 1..5 x 1..7 "
        "incl. single row/column, 1-3 phases with id order/gaps, subsets of phases used, not-indexed points, random "
        "header whitespace and free lines, unexpected column counts, all 11 Laue classes, centrosymmetric and "
        "non-centrosymmetric space groups, TSL code 62; every case is loaded by orix.io.load, compared with the Coq model (on the Coq "
        "rendering and on the shim's tokens) and checked field by field by the oracle; distinct = distinct "
        "abstract file; the 230 space groups and 43 reader-selection inputs are counted as trivial table cases")
    return ck.finish()


def replay(path):
    d = json.load(open(path))
    print(json.dumps(d, indent=1)[:4000])
    rep = d.get("replay") or {}
    f = rep.get("file") or rep.get("abstract")
    if f:
        return run("quick", d.get("seed", 0), only=[f])
    return run("quick", d.get("seed", 0))
