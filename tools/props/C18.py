"""C18 -- results do not depend on evaluation strategy (DESIGN.md section 4, C18;
as-built notes in design.d/C18.md)."""
import glob
import json
import os

from vlib import VERIF, Check, fhex, run_cases, run_impl

PROP = "C18"


def q4(q):
    return "(" + ", ".join(fhex(x) for x in q) + ")"


def v3(v):
    return "(" + ", ".join(fhex(x) for x in v) + ")"


def qs(l):
    return "[" + "; ".join(q4(q) for q in l) + "]"


def vs(l):
    return "[" + "; ".join(v3(v) for v in l) + "]"


def fl(l):
    return "[" + "; ".join(fhex(x) for x in l) + "]"


def rots(r):
    return "[" + "; ".join(f"({q4(q)}, {'true' if i else 'false'})" for q, i in zip(r["q"], r["imp"])) + "]"


def nl(s):
    return "[" + "; ".join(f"{int(x)}%nat" for x in s) + "]"


HEADER = """From Verif Require Import NdIndex Quat RotArr C18Nd C18Model.
Open Scope float_scope.
Notation fq := (quat (T:=float)).
Notation fv := (vec3 (T:=float)).
Notation fr := (rot (T:=float)).
Inductive case :=
| Celem (p q : fq) (v : fv) (lqq : fq) (lqv m_npq m_bi e_bi e_npq : fv)
| Cqq (k : nat) (sA sB : list nat) (A B : list fq) (sE : list nat) (E : list fq) (sL : list nat) (L : list fq)
| Cqv (k : nat) (sA sB : list nat) (A : list fq) (V : list fv) (sE : list nat) (E : list fv) (sL : list nat) (L : list fv)
| Crr (k : nat) (sA sB : list nat) (A B : list fr) (sE : list nat) (E : list fr) (sL : list nat) (L : list fr)
| Crv (k : nat) (sA sB : list nat) (A : list fr) (V : list fv) (sE : list nat) (E : list fv) (sL : list nat) (L : list fv)
| Cvv (k : nat) (sA sB : list nat) (U V : list fv) (sE : list nat) (E : list float) (sL : list nat) (L : list float)
| Codot (k : nat) (ss so : list nat) (X Y G : list fr) (sE : list nat) (E : list float) (sL : list nat) (L : list float)
        (sAE : list nat) (AE : list float) (sAL : list nat) (AL : list float)
| Cmis (k : nat) (s : list nat) (X G : list fr) (sD : list nat) (D : list float).
Definition lclose := fclose_list_tol f_loose.
(* which comparisons hold; all must *)
Definition diag (c : case) : list bool :=
  match c with
  | Celem p q v lqq lqv m_npq m_bi e_bi e_npq =>
      [ q_close (dq_mul FOps p q) lqq;
        v_close (dq_rot FOps (qunit FOps p) v) lqv;
        v_close (qv_mul_npq FOps p v) m_npq; v_close (qv_mul_builtin FOps p v) m_bi;
        v_close (qv_mul_builtin FOps p v) e_bi; v_close (qv_mul_builtin FOps p v) e_npq ]
  | Cqq k sA sB A B sE E sL L =>
      [ shape_eqb (sA ++ sB) sE; all2 q_close (qq_outer_eager FOps A B) E;
        shape_eqb (sA ++ sB) sL; all2 q_close (qq_outer_lazy FOps k sA sB A B) L ]
  | Cqv k sA sB A V sE E sL L =>
      [ shape_eqb (sA ++ sB) sE; all2 v_close (qv_outer_eager FOps A V) E;
        shape_eqb (sA ++ sB) sL; all2 v_close (qv_outer_lazy FOps k sA sB A V) L ]
  | Crr k sA sB A B sE E sL L =>
      [ shape_eqb (sA ++ sB) sE; all2 r_close (rot_outer_eager FOps A B) E;
        shape_eqb (sA ++ sB) sL; all2 r_close (rot_outer_lazy FOps k sA sB A B) L ]
  | Crv k sA sB A V sE E sL L =>
      [ shape_eqb (sA ++ sB) sE; all2 v_close (rot_vouter_eager FOps A V) E;
        shape_eqb (sA ++ sB) sL; all2 v_close (rot_vouter_lazy FOps k sA sB A V) L ]
  | Cvv k sA sB U V sE E sL L =>
      [ shape_eqb (sA ++ sB) sE; fclose_list (vec_dot_outer_eager FOps U V) E;
        shape_eqb (sA ++ sB) sL; fclose_list (vec_dot_outer_lazy FOps k sA sB U V) L ]
  | Codot k ss so X Y G sE E sL L sAE AE sAL AL =>
      let e := ori_dot_outer_eager FOps ss so X Y G in
      let l := ori_dot_outer_lazy FOps k ss so X Y G in
      let ae := awo_eager_with FOps (cang FOps) ss so X Y G in
      let al := awo_lazy_with FOps (cang FOps) k ss so X Y G in
      [ shape_eqb (fst e) sE; lclose (snd e) E;
        shape_eqb (fst l) sL && lclose (snd l) L;
        shape_eqb (fst ae) sAE; lclose (snd ae) AE;
        shape_eqb (fst al) sAL && lclose (snd al) AL ]
  | Cmis k s X G sD D =>
      let r := mis_dm_lazy_with FOps (cang FOps) k s X G in
      [ shape_eqb (fst r) sD; lclose (snd r) D ]
  end.
Definition ok (c : case) : bool := forallb (fun b => b) (diag c).
"""

FIELDS = {
    "elem": ["lazy q*q formula", "lazy q*v (formula on the unit quaternion)", "q*v numpy-quaternion", "q*v built-in", "outer(q,v) built-in",
             "outer(q,v) numpy-quaternion"],
    "qq": ["eager shape", "eager values", "lazy shape", "lazy values"],
    "odot": ["dot_outer shape", "dot_outer values", "_dot_outer_dask", "angle_with_outer eager shape",
             "angle_with_outer eager values", "angle_with_outer lazy"],
    "mis": ["shape", "values"],
}
for _k in ("qv", "rr", "rv", "vv"):
    FIELDS[_k] = FIELDS["qq"]


def case_coq(c):
    k = c["k"]
    if k == "elem":
        return (f"Celem {q4(c['p'])} {q4(c['q'])} {v3(c['v'])} {q4(c['lqq'])} {v3(c['lqv'])} {v3(c['m_npq'])} "
                f"{v3(c['m_bi'])} {v3(c['e_bi'])} {v3(c['e_npq'])}")
    ck = f"{int(c['ck'])}%nat"
    if k == "qq":
        return (f"Cqq {ck} {nl(c['sA'])} {nl(c['sB'])} {qs(c['A'])} {qs(c['B'])} {nl(c['sE'])} {qs(c['E'])} "
                f"{nl(c['sL'])} {qs(c['L'])}")
    if k == "qv":
        return (f"Cqv {ck} {nl(c['sA'])} {nl(c['sB'])} {qs(c['A'])} {vs(c['V'])} {nl(c['sE'])} {vs(c['E'])} "
                f"{nl(c['sL'])} {vs(c['L'])}")
    if k == "rr":
        return (f"Crr {ck} {nl(c['A']['shape'])} {nl(c['B']['shape'])} {rots(c['A'])} {rots(c['B'])} "
                f"{nl(c['E']['shape'])} {rots(c['E'])} {nl(c['L']['shape'])} {rots(c['L'])}")
    if k == "rv":
        return (f"Crv {ck} {nl(c['A']['shape'])} {nl(c['sB'])} {rots(c['A'])} {vs(c['V'])} {nl(c['sE'])} {vs(c['E'])} "
                f"{nl(c['sL'])} {vs(c['L'])}")
    if k == "vv":
        return (f"Cvv {ck} {nl(c['sA'])} {nl(c['sB'])} {vs(c['U'])} {vs(c['V'])} {nl(c['sE'])} {fl(c['E'])} "
                f"{nl(c['sL'])} {fl(c['L'])}")
    if k == "odot":
        return (f"Codot {ck} {nl(c['X']['shape'])} {nl(c['Y']['shape'])} {rots(c['X'])} {rots(c['Y'])} {rots(c['S'])} "
                f"{nl(c['sE'])} {fl(c['E'])} {nl(c['sL'])} {fl(c['L'])} {nl(c['sAE'])} {fl(c['AE'])} "
                f"{nl(c['sAL'])} {fl(c['AL'])}")
    if k == "mis":
        return f"Cmis {ck} {nl(c['X']['shape'])} {rots(c['X'])} {rots(c['S'])} {nl(c['sD'])} {fl(c['D'])}"
    raise ValueError(k)


def correspond(ck, cases, chunk=60):
    import re
    from vlib import coq_eval
    chunks = []
    for i in range(0, len(cases), chunk):
        body = "Definition cases : list case := [\n" + ";\n".join(case_coq(c) for c in cases[i:i + chunk]) + "].\n"
        chunks.append((f"c{i // chunk}", body))
    res = run_cases(PROP, chunks, header_extra=HEADER)
    for (name, n, bad, err), i in zip(res, range(0, len(cases), chunk)):
        if err:
            ck.broken.append(("correspondence", f"cases file {name} did not evaluate: {err[-300:]}"))
            continue
        rows = []
        if bad:
            txt = HEADER + "Definition cases : list case := [\n" + ";\n".join(case_coq(cases[i + b]) for b in bad[:20]) + \
                "].\nEval vm_compute in (map diag cases).\n"
            _, outc = coq_eval(PROP, "diag_" + name, txt)
            rows = re.findall(r"\[((?:true|false)(?:; (?:true|false))*)\]", outc.replace("\n", " "))
        for j, b in enumerate(bad):
            c = cases[i + b]
            which = ""
            if j < len(rows):
                flags = rows[j].split("; ")
                which = ", ".join(f for f, v in zip(FIELDS[c["k"]], flags) if v == "false")
            ck.disagreement(f"model and implementation differ on a {c['k']} case (chunk size {c.get('ck')}): {which}", c)


def run(tier, seed, only=None):
    ck = Check(PROP, tier, seed)
    ck.trusted += ["translator tools/translate (python ast -> Gallina over Ops), unit c18: the two da.einsum formula "
                   "blocks of Quaternion._outer_dask, their subscripts/stack order, Vector3d._dot_outer_dask",
                   "dask modelled as: evaluate the same expression per block, store every block into the region it "
                   "covers (Model/C18Nd.assemble); max-reductions over chunked axes as max of per-chunk maxima",
                   "numpy-quaternion (*, ~, rotate_vectors, np.outer) is an external library: assumed equal to the "
                   "built-in kernels, differentially tested on every run by toggling orix.constants.installed",
                   "hand-written list-level models of the lazy wrappers (Model/C18Model.v) tied to /repo by the "
                   "Coq-evaluated correspondence only",
                   "FInst float evaluator (correspondence sensitivity only)",
                   "structural check of tools/translate/gen.py (unit conversions): every *_2d/_3d wrapper in "
                   "_conversions.py is a plain map of its *_single kernel"]
    ck.assumptions += ["theorems are over exact reals; float rounding (incl. float32 arithmetic on float32 inputs, "
                       "da.round to 12/15 decimals) is not modelled -- the dtype clause is carried by the oracle",
                       "rotations/orientations hold unit quaternions (Rotation.__init__ normalises)",
                       "at most 13 axes per operand (einsum alphabets)"]
    if not ck.step_sanity():
        return ck.finish()
    ck.step_prove(["quatkernels", "conversions", "c18"], "Props/C18.v", extra=["Model/C18Model.vo", "Model/RotArr.vo"])
    n = 100 if tier == "quick" else 1200
    cases, fails, strata = [], [], {}
    # regression corpus first
    for f in sorted(glob.glob(os.path.join(VERIF, "corpus", PROP, "*.json"))):
        d = json.load(open(f))
        cases += d.get("cases", [])
    payload = {"seed": seed, "n": n}
    if only:
        payload["only"] = only
    out = run_impl("c18.py", payload, timeout=3000)
    cases += out["cases"]
    for c in out["cases"]:
        ck.count(c["k"], json.dumps(c, sort_keys=True)[:3000])
    for s, v in out["strata"].items():
        ck.cov["strata"][s] = v
    ck.cov["evaluations"] += sum(v for s, v in out["strata"].items()
                                 if s.startswith(("strategy", "from", "elementwise", "odm")))
    for c in out["cases"][:3]:
        ck.sample({k: c[k] for k in list(c)[:4]})
    correspond(ck, cases)
    if any(b[0] == "correspondence" and "inconsistent assumptions" in b[1] for b in ck.broken):
        # a concurrent build of another property recompiled a shared library while the cases were
        # being evaluated: rebuild under the lock and evaluate the cases once more
        from vlib import Lock, make
        ck.broken = [b for b in ck.broken if not (b[0] == "correspondence" and "did not evaluate" in b[1])]
        ck._corr_replays = []
        with Lock():
            make(["Props/C18.vo", "Model/C18Model.vo", "Model/RotArr.vo"])
            correspond(ck, cases)
    for f in out["fails"]:
        ck.failure(f["sig"], f["what"], f["replay"])
    ck.cov["rule"] = ("element level: unit / non-unit quaternion pairs and vectors through the lazy formulas and both "
                      "backends of q*v; array level: 10 shapes (1-3 axes, length-1 axes) x 10 shapes, chunk sizes 1, 2, 3, "
                      "= largest axis, beyond it, 20, both backends, bare quaternions (non-unit allowed), rotations with "
                      "mixed improper flags, vectors; orientations over 13 point groups (proper, centrosymmetric, "
                      "improper without inversion), equal / different groups, equal / different ndim, flags none/mixed; "
                      "misorientation distance matrices over 6 groups and chunk sizes below/at/above the symmetry "
                      "order; oracle strata: backend on/off x float32/int/float64 x ~40 operations, constructors "
                      "from_*, whole-array vs element-by-element.  distinct = distinct case payload")
    ck.cov["exhaustive"] = False
    return ck.finish()


def replay(path):
    d = json.load(open(path))
    print(json.dumps(d, indent=1)[:4000])
    sig = d.get("signature", "")
    only = None
    if sig.startswith(("dtype:", "backend:", "elementwise:")) and "Quaternion*Vector3d" not in sig \
            and "outer(Vector3d)" not in sig:
        only = ["strategy"]
    elif sig.startswith("Orientation"):
        only = ["ori"]
    elif sig.startswith("Misorientation"):
        only = ["mis"]
    elif sig:
        only = ["elem", "outer"]
    return run("quick", d.get("seed", 0), only=only)
