"""C07 -- fundamental sector is a fundamental domain; projection into it is exact."""
import json
import os

from vlib import BUILD, Check, fhex, run_cases, run_impl

PROP = "C07"


def v3(v):
    return "(" + ", ".join(fhex(x) for x in v) + ")"


def q4(q):
    return "(" + ", ".join(fhex(x) for x in q) + ")"


def rots(r):
    return "[" + "; ".join(f"({q4(q)}, {'true' if i else 'false'})" for q, i in zip(r["q"], r["imp"])) + "]"


def vecs(vs):
    return "[" + "; ".join(v3(v) for v in vs) + "]"


HEADER = """From Verif Require Import NdIndex Quat RotArr SectorModel KField GroupK KFloat CoverCheck SectorCertsAll.
Open Scope float_scope.
Record case := mk { nm : String.string; la : bool; kind : nat; S : list (rot (T:=float)); N : list (vec3 (T:=float));
  center : option (vec3 (T:=float)); vs : list (vec3 (T:=float)); outs : list (vec3 (T:=float)) }.
Definition tol9 : float := 1e-9.
Definition vnorm (v : vec3 (T:=float)) : float := sqrt (vdot FOps v v).
Definition v_close_rel (u v : vec3 (T:=float)) : bool :=
  let '(a, b, c) := u in let '(x, y, z) := v in
  let t := 0x1p-30 * (if 1 <? vnorm v then vnorm v else 1) in
  (abs (a - x) <=? t) && (abs (b - y) <=? t) && (abs (c - z) <=? t).
(* a decision within float noise of a tolerance / of a tie is not compared *)
Definition fragile (c : case) (v : vec3 (T:=float)) : bool :=
  let n := vnorm v in
  existsb (fun nn => abs (abs (vdot FOps nn v) - tol9) <? 1e-12 * (1 + n)) (N c)
  || (abs (vz v) <? 1e-300)
  || match center c with
     | None => false
     | Some ce =>
         let cl := map (fun s => f_round12 (vdot FOps v (ract FOps s ce))) (S c) in
         let m := fold_right (fun x y => if y <? x then x else y) neg_infinity cl in
         Nat.ltb 1 (List.length (filter (fun x => abs (x - m) <=? 2e-12 * (1 + n)) cl))
     end.
Definition ok1 (c : case) (v out : vec3 (T:=float)) : bool :=
  v_close_rel (project FOps f_round12 (kind c) tol9 (S c) (N c) (center c) v) out || fragile c v.
(* the exact (K) sector normals the fundamental-domain certificates are about, normalised and evaluated in binary64,
   are the normals of Symmetry.fundamental_sector at run time (certified and defective subjects alike) *)
Definition kv2f (v : vec3 (T:=K)) : vec3 (T:=float) := let '(a, b, c) := v in (K2f a, K2f b, K2f c).
Definition vnormalizef (v : vec3 (T:=float)) : vec3 (T:=float) :=
  let '(a, b, c) := v in let n := sqrt (a*a + b*b + c*c) in (a / n, b / n, c / n).
Definition v_close9 (u v : vec3 (T:=float)) : bool :=
  let '(a, b, c) := u in let '(x, y, z) := v in (abs (a - x) <=? 1e-9) && (abs (b - y) <=? 1e-9) && (abs (c - z) <=? 1e-9).
Definition exact_normals (c : case) : option (list (vec3 (T:=K))) :=
  match find (fun sc => String.eqb (sc_name sc) (nm c) && Bool.eqb (sc_laue sc) (la c)) (List.concat all_sector_certs) with
  | Some sc => Some (sc_N sc)
  | None => match find (fun sd => String.eqb (sd_name sd) (nm c) && Bool.eqb (sd_laue sd) (la c)) sector_defects with
            | Some sd => Some (sd_N sd) | None => None end
  end.
Definition ok_normals (c : case) : bool :=
  match exact_normals c with
  | None => false
  | Some NK => let M := map (fun v => vnormalizef (kv2f v)) NK in
               let Nn := map vnormalizef (N c) in
               forallb (fun m => existsb (v_close9 m) Nn) M && forallb (fun n => existsb (v_close9 n) M) Nn
  end.
Definition ok (c : case) : bool :=
  all2 (fun v o => ok1 c v o) (vs c) (outs c) && Nat.eqb (List.length (vs c)) (List.length (outs c)) && ok_normals c.
"""


def case_coq(c):
    ce = "None" if c["center"] is None else f"(Some {v3(c['center'])})"
    lab = c["label"]
    la = lab.startswith("laue(")
    nm = lab[5:-1] if la else lab
    return f"mk \"{nm}\" {'true' if la else 'false'} {c['kind']}%nat {rots(c['S'])} {vecs(c['N'])} {ce} {vecs(c['v'])} {vecs(c['out'])}"


def run(tier, seed):
    ck = Check(PROP, tier, seed)
    ck.trusted += ["tools/impl/c07cert.py + tools/translate/units_c07.py: sector normals and group operations obtained by RUNNING orix from /repo, recognised exactly in K (fail-closed); the LP search for cover trees / Gordan certificates is untrusted (every certificate is checked by vm_compute, Model/CoverCheck.v, and is sound over R by Proofs/CoverSound.v)",
                   "hand model Model/SectorModel.v of Vector3d.in_fundamental_sector (tied by correspondence)",
                   "translator for the vector-rotation kernel",
                   "sector normals, centre (mesh mean / MTEX constants) and group elements are taken from the implementation at run time; fundamental_sector / FundamentalSector.center are NOT modelled"]
    ck.assumptions += ["theorems are for exact arithmetic with rounding of closeness values as identity",
                       "the fundamental-domain clauses (no gaps, no overlaps) are theorems for the exact closed / open sector; the clauses about the PROJECTION landing inside the sector and orbit-consistency are decided by the brute-force oracle only (see Props/C07.v)"]
    if not ck.step_sanity():
        return ck.finish()
    ck.step_prove(["quatkernels", "conversions", "groups", "sectors"], "Props/C07.v", extra=["Model/SectorModel.vo", "Model/RotArr.vo"])
    # the sector certificate search (translator unit `sectors`) leaves, for every sector that is NOT a fundamental
    # domain, an exact rational witness direction; replay each on the implementation (known ones are listed findings,
    # a new one is a violation with that direction as the failing input)
    witnesses = []
    try:
        summ = json.load(open(os.path.join(BUILD, "c07_sector_summary.json")))
        witnesses = summ.get("defects", [])
        ck.cov["sector_certificates"] = {"subjects": summ["subjects"], "certified": len(summ["ok"]), "leaves": summ["leaves"],
                                         "defective": [f"{d['group']}/{d['kind']}" for d in witnesses]}
    except (OSError, ValueError, KeyError):
        pass
    out = run_impl("c07.py", {"seed": seed, "n": 40 if tier == "quick" else 150, "thorough": tier != "quick",
                              "witnesses": witnesses}, timeout=3000)
    cases = out["cases"]
    for c in cases:
        for v in c["v"]:
            ck.count(c["label"], (c["label"], tuple(v)))
    ck.cov["strata"] = out["strata"]
    for c in cases[:2]:
        ck.sample({"group": c["label"], "normals": c["N"], "center": c["center"], "v": c["v"][:2], "out": c["out"][:2]})
    chunks = []
    for i, c in enumerate(cases):
        chunks.append((f"c{i}", "Definition cases : list case := [\n" + case_coq(c) + "].\n"))
    res = run_cases(PROP, chunks, header_extra=HEADER)
    for (name, n, bad, err), c in zip(res, cases):
        if err:
            ck.broken.append(("correspondence", f"cases file {name} did not evaluate: {err[-300:]}"))
        elif bad:
            ck.disagreement(f"model of in_fundamental_sector and implementation differ for group {c['label']}",
                            {"group": c["label"], "n_directions": len(c["v"])})
    for f in out["fails"]:
        ck.failure(f["sig"], f["what"], f["replay"])
    ck.cov["rule"] = ("named groups and their Laue groups (quick: 27 fixed + 8 random of 76; thorough: all 76) x directions: random on both "
                      "hemispheres with lengths 0.01/1/37, on and within 1e-9/1e-7 of every bounding plane, sector vertices, rotation axes, "
                      "centre, poles; distinct = distinct (group, direction)")
    return ck.finish()


def replay(path):
    d = json.load(open(path))
    print(json.dumps(d, indent=1)[:3000])
    return run("quick", d.get("seed", 0))
