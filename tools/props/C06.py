"""C06 -- all symmetry-aware operations agree on one equivalence relation."""
import json

from vlib import Check, fhex, run_cases, run_impl

PROP = "C06"


def q4(q):
    return "(" + ", ".join(fhex(x) for x in q) + ")"


def rots(qs, imps):
    return "[" + "; ".join(f"({q4(q)}, {'true' if i else 'false'})" for q, i in zip(qs, imps)) + "]"


HEADER = """From Verif Require Import NdIndex Quat RotArr.
Open Scope float_scope.
(* Misorientation.equivalent() for an orientation (symmetry (C1, G)):  Gr.outer(M.outer(Gl)).flatten()
   = [ g * o | g in G ] in group order *)
Record case := mk { G : list (rot (T:=float)); o : quat (T:=float); eq : list (rot (T:=float)) }.
Definition ok (c : case) : bool :=
  all2 r_close (map (fun g => rmul FOps g (o c, false)) (G c)) (eq c).
"""


def run(tier, seed):
    ck = Check(PROP, tier, seed)
    ck.trusted += ["hand models of C04 (reduced dot), C05 (zone loop) reused; Orientation.equivalent modelled as [g*O | g in G] (correspondence-checked here)",
                   "in_euler_fundamental_region, in_fundamental_sector and IPFColorKeyTSL are exercised by the cross-method oracle only"]
    ck.assumptions += ["the equivalence relation of reference is left multiplication by proper group operations (what angle_with / IPF implement)"]
    if not ck.step_sanity():
        return ck.finish()
    ck.step_prove(["quatkernels", "conversions", "groups", "sectors"], "Props/C06.v", extra=["Model/RotArr.vo"])
    out = run_impl("c06.py", {"seed": seed, "n": 60 if tier == "quick" else 400, "nv": 3 if tier == "quick" else 6, "thorough": tier != "quick"}, timeout=3000)
    cases = out["cases"]
    for c in cases:
        ck.count(c["G"]["name"], (c["G"]["name"], tuple(c["o"])))
    for s, v in out["strata"].items():
        ck.cov["strata"][s] = v
        ck.cov["evaluations"] += v
    for c in cases[:2]:
        ck.sample({"group": c["G"]["name"], "o": c["o"], "n_equivalents": len(c["eq"])})
    chunks = [(f"c{i}", "Definition cases : list case := [\nmk %s %s %s].\n" % (
        rots(c["G"]["q"], c["G"]["imp"]), q4(c["o"]), rots(c["eq"], c["eq_imp"]))) for i, c in enumerate(cases)]
    res = run_cases(PROP, chunks, header_extra=HEADER)
    for (name, n, bad, err), c in zip(res, cases):
        if err:
            ck.broken.append(("correspondence", f"cases file {name} did not evaluate: {err[-300:]}"))
        elif bad:
            ck.disagreement(f"Orientation.equivalent() is not [g*O for g in G] in group order for {c['G']['name']}", {"group": c["G"]["name"], "o": c["o"]})
    for f in out["fails"]:
        ck.failure(f["sig"], f["what"], f["replay"])
    ck.cov["rule"] = ("for each group (quick: 26 fixed; thorough: all 38) random orientations x three representatives (reduced zone, Euler "
                      "fundamental region, random proper member of equivalent()) x four observables (reduced angle to itself, to a third "
                      "orientation, sector direction, IPF colour); distinct = (group, orientation)")
    return ck.finish()


def replay(path):
    d = json.load(open(path))
    print(json.dumps(d, indent=1)[:3000])
    return run("quick", d.get("seed", 0))
