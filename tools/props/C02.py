"""C02 -- products form a faithful group action (DESIGN.md section 4, C02)."""
import json

from vlib import Check, fhex, run_cases, run_impl, zlist

PROP = "C02"


def q4(q):
    return "(" + ", ".join(fhex(x) for x in q) + ")"


def v3(v):
    return "(" + ", ".join(fhex(x) for x in v) + ")"


def rots(r):
    return "[" + "; ".join(f"({q4(q)}, {'true' if i else 'false'})" for q, i in zip(r["q"], r["imp"])) + "]"


def vecs(vs):
    return "[" + "; ".join(v3(v) for v in vs) + "]"


def nlist(s):
    return "[" + "; ".join(f"{int(x)}%nat" for x in s) + "]"


HEADER = """From Verif Require Import NdIndex Quat RotArr.
Open Scope float_scope.
Inductive case :=
| Cqmul (p q out conj : quat (T:=float))
| Cqrot (q : quat (T:=float)) (v out : vec3 (T:=float))
| Crouter (sA sB sC : list nat) (A B C : list (rot (T:=float)))
| Cvouter (sA sV sW : list nat) (A : list (rot (T:=float))) (V W : list (vec3 (T:=float)))
| Crbcast (sA sB sC : list nat) (A B C : list (rot (T:=float)))
| Cvbcast (sA sV sW : list nat) (A : list (rot (T:=float))) (V W : list (vec3 (T:=float))).
Definition ok (c : case) : bool :=
  match c with
  | Cqmul p q out cj => q_close (qmul FOps p q) out && q_close (qconj FOps p) cj
  | Cqrot q v out => v_close (qrot FOps q v) out
  | Crouter sA sB sC A B C => shape_eqb (sA ++ sB) sC && all2 r_close (router FOps A B) C
  | Cvouter sA sV sW A V W => shape_eqb (sA ++ sV) sW && all2 v_close (vouter FOps A V) W
  | Crbcast sA sB sC A B C =>
      match rbcast FOps sA sB A B with
      | Some (s, l) => shape_eqb s sC && all2 r_close l C | None => false end
  | Cvbcast sA sV sW A V W =>
      match vbcast FOps sA sV A V with
      | Some (s, l) => shape_eqb s sW && all2 v_close l W | None => false end
  end.
"""


def case_coq(c):
    k = c["k"]
    if k == "qmul":
        return f"Cqmul {q4(c['p'])} {q4(c['q'])} {q4(c['out'])} {q4(c['conj'])}"
    if k == "qrot":
        return f"Cqrot {q4(c['q'])} {v3(c['v'])} {v3(c['out'])}"
    if k in ("router", "rbcast"):
        con = "Crouter" if k == "router" else "Crbcast"
        return (f"{con} {nlist(c['A']['shape'])} {nlist(c['B']['shape'])} {nlist(c['C']['shape'])} "
                f"{rots(c['A'])} {rots(c['B'])} {rots(c['C'])}")
    if k in ("vouter", "vbcast"):
        con = "Cvouter" if k == "vouter" else "Cvbcast"
        return (f"{con} {nlist(c['A']['shape'])} {nlist(c['sV'])} {nlist(c['sW'])} "
                f"{rots(c['A'])} {vecs(c['V'])} {vecs(c['W'])}")
    raise ValueError(k)


def correspond(ck, cases, chunk=150):
    chunks = []
    for i in range(0, len(cases), chunk):
        body = "Definition cases : list case := [\n" + ";\n".join(case_coq(c) for c in cases[i:i + chunk]) + "].\n"
        chunks.append((f"c{i // chunk}", body))
    res = run_cases(PROP, chunks, header_extra=HEADER)
    for (name, n, bad, err), i in zip(res, range(0, len(cases), chunk)):
        if err:
            ck.broken.append(("correspondence", f"cases file {name} did not evaluate: {err[-300:]}"))
            continue
        for b in bad:
            c = cases[i + b]
            ck.disagreement(f"model and implementation differ on a {c['k']} case", c)


def run(tier, seed):
    ck = Check(PROP, tier, seed)
    ck.trusted += ["translator tools/translate (python ast -> Gallina over Ops)",
                   "numpy-quaternion assumed equal to the fallback kernels (tested both backends each run)",
                   "scipy Rotation.align_vectors (from_align_vectors clause is oracle-only)",
                   "FInst float evaluator (correspondence sensitivity only)"]
    ck.assumptions += ["theorems are over exact reals; float rounding is not modelled",
                       "NumPy broadcasting modelled by Base/NdIndex.bcast2 (correspondence-checked)"]
    if not ck.step_sanity():
        return ck.finish()
    ck.step_prove(["quatkernels", "conversions"], "Props/C02.v", extra=["Model/RotArr.vo"])
    n = 240 if tier == "quick" else 3000
    out = run_impl("c02.py", {"seed": seed, "n": n})
    cases = out["cases"]
    for c in cases:
        ck.count(c["k"], json.dumps(c, sort_keys=True)[:2000])
    for s, v in out["strata"].items():
        ck.cov["strata"][s] = v
    for c in cases[:3]:
        ck.sample({k: c[k] for k in list(c)[:4]})
    correspond(ck, cases)
    for f in out["fails"]:
        ck.failure(f["sig"], f["what"], f["replay"])
    ck.cov["rule"] = ("random unit/non-unit quaternion pairs on both backends; rotation arrays with mixed "
                      "improper flags over 9 shapes (outer) and 15 broadcastable shape pairs (element-wise); "
                      "distinct = distinct case payload; every case is compared Coq-model vs implementation "
                      "and checked by the property oracle")
    return ck.finish()


def replay(path):
    d = json.load(open(path))
    print(json.dumps(d, indent=1)[:3000])
    return run("quick", d.get("seed", 0))
