"""C10 -- Miller symmetry operations enumerate true orbits
(DESIGN.md section 4, C10; as-built notes in design.d/C10.md)."""
import json

from vlib import Check, fhex, run_cases, run_impl, zlist

PROP = "C10"


def frow(r):
    return "[" + "; ".join(fhex(x) for x in r) + "]"


def frows(rs):
    return "[" + "; ".join(frow(r) for r in rs) + "]"


def frows3(rss):
    return "[" + "; ".join(frows(rs) for rs in rss) + "]"


def nats(xs):
    return "[" + "; ".join(f"{int(x)}%nat" for x in xs) + "]"


def rots(o):
    return "[" + "; ".join("((" + ", ".join(fhex(x) for x in q) + f"), {'true' if i else 'false'})"
                           for q, i in zip(o["q"], o["imp"])) + "]"


HEADER = """From Verif Require Import NdIndex Quat RotArr C17Unique C10Model.
Open Scope float_scope.
Inductive case :=
| Csym (ops : list (rot (T:=float))) (shape : list nat) (data flat : list (list float))
       (v2 : list (list (list float))) (all uniq : list (list float)) (mult : list nat) (idx : list Z)
       (mprop : list nat)
| Cang (ops : list (rot (T:=float))) (sS sO : list nat) (self other : list (list float))
       (raised : bool) (rshape : list nat) (out : list float)
| Crnd (idx : list float) (M : nat) (out : list Z)
| Cuniq (ops : list (rot (T:=float))) (flat base : list (list float)) (orbits : list (list (list float)))
        (out : list (list float)).
Definition ang_close (xs ys : list float) : bool := fclose_list_tol 0x1p-17 xs ys.
Definition ok (c : case) : bool :=
  match c with
  | Csym ops shape data flat v2 all uniq mult idx mprop =>
      let n := List.length flat in
      let '(u, m, i) := fsym_unique_cols (List.length ops) (columns [] n v2) in
      frows_eqb (flattenF [] shape data) flat
      && all2 rows_close (outer_rows (ract_row FOps) ops flat) v2
      && frows_eqb (flattenF2 [] n v2) all
      && frows_eqb u uniq && nats_eqb m mult && zs_eqb i idx
      && nats_eqb mprop (unflattenF 0%nat shape m)
  | Cang ops sS sO self other raised rshape out =>
      match angle_with_sym_num FOps f_round12c ops sS sO self other with
      | Some (s, a) => negb raised && nats_eqb s rshape && ang_close a out
      | None => raised
      end
  | Crnd idx M out => zs_eqb (fround_indices M idx) out
  | Cuniq ops flat base orbits out =>
      frows_eqb (fst (fst (base_unique FOps f_round10 flat))) base
      && all2 rows_close (map (fun r => map (fun g => ract_row FOps g r) ops) base) orbits
      && frows_eqb (unique_sym_from_orbits FOps f_round10 base orbits) out
  end.
"""


def case_coq(c):
    k = c["k"]
    if k == "sym":
        return (f"Csym {rots(c['ops'])} {nats(c['shape'])} {frows(c['data'])} {frows(c['flat'])} {frows3(c['v2'])} "
                f"{frows(c['all'])} {frows(c['uniq'])} {nats(c['mult'])} ({zlist(c['idx'])})%Z {nats(c['mprop'])}")
    if k == "ang":
        return (f"Cang {rots(c['ops'])} {nats(c['sshape'])} {nats(c['oshape'])} {frows(c['self'])} {frows(c['other'])} "
                f"{'true' if c['raised'] else 'false'} {nats(c['rshape'])} {frow(c['out'])}")
    if k == "rnd":
        return f"Crnd {frow(c['idx'])} {int(c['max_index'])}%nat ({zlist(c['out'])})%Z"
    if k == "uniq":
        return f"Cuniq {rots(c['ops'])} {frows(c['flat'])} {frows(c['base'])} {frows3(c['orbits'])} {frows(c['out'])}"
    raise ValueError(k)


def correspond(ck, cases, chunk=40):
    chunks = []
    for i in range(0, len(cases), chunk):
        body = "Definition cases : list case := [\n" + ";\n".join(case_coq(c) for c in cases[i:i + chunk]) + "].\n"
        chunks.append((f"c{i // chunk}", body))
    res = run_cases(PROP, chunks, header_extra=HEADER)
    for (name, n, bad, err), i in zip(res, range(0, len(cases), chunk)):
        if err:
            ck.broken.append(("correspondence", f"cases file {name} did not evaluate: {err[-300:]}"))
            continue
        if n != len(cases[i:i + chunk]):
            ck.broken.append(("correspondence", f"cases file {name}: {n} cases evaluated, {len(cases[i:i + chunk])} written"))
        for b in bad:
            c = cases[i + b]
            what = {"sym": f"Miller.symmetrise / multiplicity (group {c.get('group')}, shape {c.get('shape')})",
                    "ang": f"Miller.angle_with(use_symmetry=True) (group {c.get('group')}, shapes {c.get('sshape')} / {c.get('oshape')})",
                    "rnd": "_round_indices", "uniq": f"Miller.unique(use_symmetry=True) (group {c.get('group')})"}[c["k"]]
            small = {k: v for k, v in c.items() if k not in ("v2", "ops", "all", "orbits")}
            ck.disagreement(f"model and implementation differ on {what}", small)


# the inputs of the two repaired defects (Proofs/C10Inst.v: multiplicity_nd_example,
# angle_elementwise_example) as they must come out of the repaired implementation
REPAIRED = {
    "mult_2x3": [6, 12, 8, 48, 6, 24],     # C10_multiplicity_nd_nonvacuous (was [6, 48, 12, 6, 8, 24])
    "mult_each": [6, 12, 8, 48, 6, 24],
}


def run(tier, seed):
    ck = Check(PROP, tier, seed)
    ck.trusted += ["C17's model of Object3d.unique / Miller.unique (Model/C17Unique.v, Proofs/C17UniqueSpec.v) and its "
                   "assumption np.unique(axis=0) = sorted distinct rows / first occurrence",
                   "np.round half-to-even; numpy slice assignment clamps; boolean-mask indexing is C-order",
                   "FInst float evaluator (correspondence only)"]
    ck.assumptions += ["theorems take exact equality as the de-duplication relation: rounding to 10 decimals is assumed "
                       "not to merge or split images (hypothesis rnd x = x on the orbit); the 1e-10 threshold stratum "
                       "is correspondence/oracle only and is a known finding",
                       "the action of the point group on vectors is a group action (C02) -- hypothesis group_action, "
                       "checked by vm_compute for the exact integer-matrix instance of m-3m and 4",
                       "round: theorem over exact reals for max_index <= 42 (6*M^4 < 2*10^7)"]
    if not ck.step_sanity():
        return ck.finish()
    ck.step_prove([], "Props/C10.v", extra=["Model/C10Model.vo"])
    n = 152 if tier == "quick" else 1900
    out = run_impl("c10.py", {"seed": seed, "n": n})
    cases = out["cases"]
    for c in cases:
        key = {k: v for k, v in c.items() if k not in ("v2", "ops", "all", "orbits")}
        ck.count("case/" + c["k"], json.dumps(key, sort_keys=True)[:3000])
    for s, v in out["strata"].items():
        ck.cov["strata"][s] = v
    for c in cases[5:8]:
        ck.sample({k: c[k] for k in ("k", "group", "shape", "data", "mult", "idx") if k in c})
    correspond(ck, cases)
    for f in out["fails"]:
        ck.failure(f["sig"], f["what"], f["replay"])
    w = out["witness"]
    # repaired defects: the former witnesses now show the correct values (a
    # regression is also reported by the oracle as a VIOLATION)
    bad = [k for k, want in REPAIRED.items() if w.get(k) != want]
    ap, ae = w.get("angle_pair", [0, 0]), w.get("angle_each", [0, 1])
    if not (len(ap) == 2 and abs(ap[1] - ae[1]) < 1e-9 and abs(ap[1] - 0.6154797086703874) < 1e-6):
        bad.append("angle_pair")
    ck.cov["repaired_witnesses_hold"] = not bad
    if bad:
        ck.notes.append("repaired defect reproduces again for witness(es): " + ", ".join(bad))
    # remaining findings: the witnesses of the _refuted theorem / known findings still reproduce
    rep = []
    if all(v in (3, 6, 12) for v in w.get("threshold_mult", {}).values()):
        rep.append("threshold_mult")
    if w.get("unique_equiv_pair") != 2:
        rep.append("unique_equiv_pair")
    ck.cov["refuted_witnesses_reproduce"] = not rep
    if rep:
        ck.notes.append("finding no longer reproduces for witness(es): " + ", ".join(rep))
        ck.cov["refuted_witnesses_not_reproduced"] = rep
    ck.cov["partial_or_refuted"] = [t for t in ck.obligations if t.endswith(("_refuted", "_partial"))]
    ck.cov["rule"] = ("for each of the 38 point groups (lattice of the group's crystal system, random parameters): vector "
                      "sets of 1..8 vectors in 1-3 dimensional shapes drawn from the strata general position / on "
                      "rotation axes / in mirror planes / mixed / parallel-antiparallel-duplicate pairs / images at a "
                      "half-unit of the 10th decimal (threshold) / integer lattice indices (uvw, hkl); angle_with with "
                      "one, equally many and more other vectors, n-d operands that broadcast and shapes that do not; round on scaled coprime indices in uvw/hkl/UVTW/hkil "
                      "with max_index 12..40; every case is compared Coq-model vs implementation (flatten order, outer "
                      "product to 1e-9, de-duplication/assembly bit-exact on the implementation's own outer product, "
                      "angles to 8e-6, rounded indices exact) and judged by a brute-force oracle using the group's "
                      "matrices and tolerance clustering; distinct = distinct case payload")
    return ck.finish()


def replay(path):
    d = json.load(open(path))
    print(json.dumps(d, indent=1)[:3000])
    return run("quick", d.get("seed", 0))
