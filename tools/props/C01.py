"""C01 -- rotation representations convert consistently and round-trip."""
import json

from vlib import Check, fhex, run_cases, run_impl

PROP = "C01"


def tup(xs):
    return "(" + ", ".join(fhex(x) for x in xs) + ")"


def mat(m):
    return "(" + ", ".join(tup(m[3 * i:3 * i + 3]) for i in range(3)) + ")"


HEADER = """From Verif Require Import NdIndex Quat RotArr Rodrigues3.
Open Scope float_scope.
Record case := mk { q0 : quat (T:=float); q : quat (T:=float); om : mat3 (T:=float); eu : vec3 (T:=float);
  ax3 : vec3 (T:=float); rof : quat (T:=float); ho : vec3 (T:=float);
  q_om : quat (T:=float); q_eu : quat (T:=float); q_ho : quat (T:=float);
  ro3 : vec3 (T:=float); q_r3 : quat (T:=float) }.
Definition m_close (m n : mat3 (T:=float)) : bool :=
  let '(a, b, c) := m in let '(x, y, z) := n in v_close a x && v_close b y && v_close c z.
Definition ang_close (u v : vec3 (T:=float)) : bool :=
  let '(a, b, c) := u in let '(x, y, z) := v in fclose_ang a x && fclose_ang b y && fclose_ang c z.
Definition scale3 (n : quat (T:=float)) : vec3 (T:=float) :=
  let '(x, y, z, w) := n in (x * w, y * w, z * w).
Definition qnormalize (p : quat (T:=float)) : quat (T:=float) :=
  let '(a, b, c, d) := p in let n := sqrt (a*a + b*b + c*c + d*d) in (a / n, b / n, c / n, d / n).
(* three-component Rodrigues vectors are ~1e16 long at a rotation by pi, where tan(w/2) changes sign within one
   ulp of w: compare them as the rotations they denote, (1, r) / sqrt(1 + |r|^2) up to overall sign *)
Definition ro2q (r : vec3 (T:=float)) : quat (T:=float) :=
  let '(x, y, z) := r in let m := sqrt (1 + (x * x + y * y + z * z)) in (1 / m, x / m, y / m, z / m).
Definition ro3_close (u v : vec3 (T:=float)) : bool := q_close_pm (ro2q u) (ro2q v).
(* which of the comparisons fail *)
Definition diag (c : case) : list bool :=
  [ m_close (qu2om FOps (q c)) (om c);
    ang_close (qu2eu FOps (q c)) (eu c);
    v_close (scale3 (qu2ax FOps (qpos FOps (q c)))) (ax3 c);
    q_close (ax2ro FOps (qu2ax FOps (qpos FOps (q c)))) (rof c);
    v_close (qu2ho FOps (q c)) (ho c);
    q_close (om2qu FOps (om c)) (q_om c);
    q_close (eu2qu FOps (eu c)) (q_eu c);
    q_close (qnormalize (ax2qu FOps (ho2ax FOps (ho c)))) (q_ho c);
    ro3_close (to_ro3 FOps (q0 c) (q c)) (ro3 c);
    q_close (from_ro3 FOps (ro3 c)) (q_r3 c) ].
Definition ok (c : case) : bool := forallb (fun b => b) (diag c).
"""

FIELDS = ["to_matrix", "to_euler", "to_axes_angles", "to_rodrigues(frank)", "to_homochoric",
          "from_matrix", "from_euler", "from_homochoric", "to_rodrigues()", "from_rodrigues(ro)"]


def case_coq(c):
    return (f"mk {tup(c['q'])} {tup(c['qn'])} {mat(c['om'])} {tup(c['eu'])} {tup(c['ax3'])} {tup(c['rof'])} "
            f"{tup(c['ho'])} {tup(c['q_om'])} {tup(c['q_eu'])} {tup(c['q_ho'])} {tup(c['ro3'])} {tup(c['q_r3'])}")


def correspond(ck, cases, chunk=200):
    chunks = []
    for i in range(0, len(cases), chunk):
        body = "Definition cases : list case := [\n" + ";\n".join(case_coq(c) for c in cases[i:i + chunk]) + "].\n"
        chunks.append((f"c{i // chunk}", body))
    res = run_cases(PROP, chunks, header_extra=HEADER)
    for (name, n, bad, err), i in zip(res, range(0, len(cases), chunk)):
        if err:
            ck.broken.append(("correspondence", f"cases file {name} did not evaluate: {err[-300:]}"))
            continue
        if bad:
            from vlib import coq_eval
            txt = HEADER + "Definition cases : list case := [\n" + ";\n".join(case_coq(cases[i + b]) for b in bad[:40]) + \
                "].\nEval vm_compute in (map diag cases).\n"
            okc, outc = coq_eval(PROP, "diag", txt)
            rows = [r for r in __import__("re").findall(r"\[((?:true|false)(?:; (?:true|false))*)\]", outc.replace("\n", " "))]
        for k, b in enumerate(bad):
            c = cases[i + b]
            which = ""
            if k < len(rows):
                flags = rows[k].split("; ")
                which = ",".join(f for f, v in zip(FIELDS, flags) if v == "false")
            ck.disagreement(f"generated kernels and implementation differ on a {c['stratum']} quaternion: {which}", c)


def run(tier, seed):
    ck = Check(PROP, tier, seed)
    ck.trusted += ["translator tools/translate (python ast -> Gallina over Ops)",
                   "FInst float evaluator (correspondence sensitivity only)",
                   "public wrappers to_*/from_* are thin (unit-normalise then kernel): covered by correspondence, not by theorems; to_rodrigues()/from_rodrigues(ro) (no kernel) are modelled by hand in Model/Rodrigues3.v"]
    ck.assumptions += ["theorems are over exact reals with the kernels' thresholds modelled exactly; inputs inside the "
                       "threshold bands (1e-9 .. 1e-8) are excluded by explicit hypotheses",
                       "ho2ax (degree-20 fitted polynomial) has no exact-inverse theorem; correspondence + oracle only"]
    if not ck.step_sanity():
        return ck.finish()
    ck.step_prove(["quatkernels", "conversions"], "Props/C01.v", extra=["Model/RotArr.vo", "Model/Rodrigues3.vo"])
    n = 500 if tier == "quick" else 8000
    out = run_impl("c01.py", {"seed": seed, "n": n})
    cases = out["cases"]
    for c in cases:
        ck.count(c["stratum"], json.dumps(c["q"]))
    for s, v in out["strata"].items():
        ck.cov["strata"][s] = v
    for c in cases[:3]:
        ck.sample({"stratum": c["stratum"], "q": c["q"], "eu": c["eu"]})
    correspond(ck, cases)
    for f in out["fails"]:
        ck.failure(f["sig"], f["what"], f["replay"])
    ck.cov["rule"] = ("unit quaternions from strata: generic (both hemispheres), angle 0/pi exactly, within "
                      "1e-3..1e-12 of 0/pi, axes on/near coordinate axes, Euler gimbal Phi=0/pi and near; "
                      "plus Euler/matrix starting points, degrees/direction flags and shapes incl. empty; "
                      "distinct = distinct quaternion")
    return ck.finish()


def replay(path):
    d = json.load(open(path))
    print(json.dumps(d, indent=1)[:3000])
    return run("quick", d.get("seed", 0))
