"""C05 -- fundamental-zone reduction returns a minimal-angle member of the orbit."""
import json

from vlib import Check, fhex, run_cases, run_impl

PROP = "C05"


def q4(q):
    return "(" + ", ".join(fhex(x) for x in q) + ")"


def qs(l):
    return "[" + "; ".join(q4(q) for q in l) + "]"


def rots(r):
    return "[" + "; ".join(f"({q4(q)}, {'true' if i else 'false'})" for q, i in zip(r["q"], r["imp"])) + "]"


HEADER = """From Verif Require Import NdIndex Quat RotArr ZoneModel KField GroupK KFloat CertCheck RegionCertsAll.
Open Scope float_scope.
Record case := mk { nl : String.string; nr : String.string; Gl : list (rot (T:=float)); Gr : list (rot (T:=float)); N : list (quat (T:=float));
  ms : list (quat (T:=float)); outs : list (quat (T:=float)); ins : list bool }.
Definition eps9f : float := 1e-9.
(* inside tests whose decisive dot product is within 1e-12 of the +-1e-9 tolerance are not compared *)
Definition near_tol (N : list (quat (T:=float))) (x : quat (T:=float)) : bool :=
  existsb (fun n => let d := abs (qdot FOps n x) in abs (d - eps9f) <? 1e-12) N.
Definition ok (c : case) : bool :=
  all2 q_close (map (reduce_sym FOps eps9f (N c) (Gl c) (Gr c)) (ms c)) (outs c)
  || existsb (fun m => existsb (fun glr => near_tol (N c) (transform FOps (fst glr) (snd glr) m)) (code_pairs (Gl c) (Gr c))) (ms c).
Definition ok_inside (c : case) : bool :=
  all2 Bool.eqb (map (fun m => inside_region FOps eps9f (N c) m) (ms c)) (ins c)
  || existsb (near_tol (N c)) (ms c).
"""


def case_coq(c):
    head = 'mk "%s" "%s" ' % (c["pnames"][0], c["pnames"][1])    # the groups get_proper_groups selected at run time
    return (head + f"{rots(c['Gl'])} {rots(c['Gr'])} {qs(c['N'])} {qs(c['m'])} {qs(c['out'])} "
            "[" + "; ".join("true" if b else "false" for b in c["inside_in"]) + "]")


def run(tier, seed):
    ck = Check(PROP, tier, seed)
    ck.trusted += ["hand model Model/ZoneModel.v of map_into_symmetry_reduced_zone / OrientationRegion.__gt__ (tied by correspondence)",
                   "translator for the Hamilton product kernel and for get_proper_groups (tools/translate/units_c05b.py; compared with the running function on all 38 x 38 ordered pairs on every run)",
                   "region construction (pruning of normals, axis fundamental zone, vertex filter) is not modelled as code: the exact directions of the normals it produces for all 225 ordered pairs of proper groups are regenerated from /repo on every run (tools/translate/units_c05.py), recognised in K (fail-closed), compared with the run-time normals in the correspondence, and their adequacy (inside => minimal angle in the whole orbit) is PROVED via exact Farkas certificates checked in Coq", "the LP that finds the certificates (scipy) is untrusted: certificates are checked by vm_compute"]
    ck.assumptions += ["eps = 1e-9 tolerance of the inside test is part of the model; the minimal-angle theorem is for the exact test (eps = 0)",
                       "orbit = { gl*M*gr : gl, gr both proper or both improper operations of the two groups } -- the symmetry-equivalent (proper) misorientations; it equals the proper x proper orbit of the property statement whenever one of the groups is proper or both contain the inversion, and the orbit of the groups chosen by get_proper_groups (for which the region is built) otherwise (DESIGN.md section 9.4, repair 91fe48e)"]
    if not ck.step_sanity():
        return ck.finish()
    ck.step_prove(["groups", "regions", "gpg", "quatkernels", "conversions"], "Props/C05.v", extra=["Model/ZoneModel.vo", "Model/RotArr.vo", "Model/KFloat.vo"])
    out = run_impl("c05.py", {"seed": seed, "n": 30, "thorough": tier != "quick"}, timeout=3000)
    cases = out["cases"]
    for c in cases:
        ck.count("/".join(c["pair"]), json.dumps(c["m"])[:2000])
    for s, v in out["strata"].items():
        ck.cov["strata"][s] = v
    for c in cases[:2]:
        ck.sample({"pair": c["pair"], "m": c["m"][:2], "out": c["out"][:2], "n_normals": len(c["N"])})
    # correspondence
    chunk = 25
    chunks = []
    hdr = HEADER.replace("Definition ok (c : case)", "Definition ok_red (c : case)").replace(
        "Definition ok_inside (c : case)", "Definition ok_ins (c : case)")
    hdr += """(* the exact (K) normals that the certificates are about, normalised and evaluated in binary64, are the
   normals of the region the implementation built at run time; nl, nr = names of the proper groups get_proper_groups
   selected at run time, so this also covers improper groups *)
Definition qnormalizef (p : quat (T:=float)) : quat (T:=float) :=
  let '(a, b, c, d) := p in let n := sqrt (a*a + b*b + c*c + d*d) in (a / n, b / n, c / n, d / n).
Definition ok_normals (c : case) : bool :=
  match find (fun rc => String.eqb (rc_l rc) (nl c) && String.eqb (rc_r rc) (nr c)) (List.concat all_region_certs) with
  | None => true
  | Some rc => let M := map (fun q => qnormalizef (kq2f q)) (rc_N rc) in
               forallb (fun m => existsb (q_close m) (N c)) M && forallb (fun n => existsb (q_close n) M) (N c)
  end.
Definition ok (c : case) : bool := ok_red c && ok_ins c && ok_normals c.
"""
    for i in range(0, len(cases), chunk):
        body = "Definition cases : list case := [\n" + ";\n".join(case_coq(c) for c in cases[i:i + chunk]) + "].\n"
        chunks.append((f"c{i // chunk}", body))
    res = run_cases(PROP, chunks, header_extra=hdr)
    # get_proper_groups: translated definition against the running function, all 38 x 38 ordered pairs
    gh = """From Verif Require Import Groups ProperGroups CertCheck CoverCheck ExistCheck AllPairsCheck.
Definition case := (String.string * String.string * option (String.string * String.string))%type.
Definition ok (c : case) : bool :=
  let '(a, b, e) := c in
  match group_named a, group_named b with
  | Some g1, Some g2 =>
      match gpg_names g1 g2, e with
      | Some (x, y), Some (x', y') => String.eqb x x' && String.eqb y y'
      | None, None => true
      | _, _ => false
      end
  | _, _ => false
  end.
"""
    gbody = "Definition cases : list case := [\n" + ";\n".join(
        '("%s", "%s", %s)' % (a, b, "None" if x is None else 'Some ("%s", "%s")' % (x, y)) for a, b, x, y in out["gpg"]) + "].\n"
    gres = run_cases(PROP + "_gpg", [("gpg", gbody)], header_extra=gh)
    for name, n, bad, err in gres:
        if err:
            ck.broken.append(("correspondence", f"get_proper_groups cases did not evaluate: {err[-300:]}"))
        for b in bad:
            a, bb, x, y = out["gpg"][b]
            ck.disagreement(f"translated get_proper_groups and the running function differ for ({a}, {bb})", {"pair": [a, bb], "runtime": [x, y]})
        ck.count("get_proper_groups:all-pairs", "gpg")
    for (name, n, bad, err), i in zip(res, range(0, len(cases), chunk)):
        if err:
            ck.broken.append(("correspondence", f"cases file {name} did not evaluate: {err[-300:]}"))
            continue
        for b in bad:
            c = cases[i + b]
            ck.disagreement(f"model of the reduction loop / inside test and implementation differ for {c['pair']}",
                            {"pair": c["pair"], "m": c["m"], "out": c["out"]})
    for f in out["fails"]:
        ck.failure(f["sig"], f["what"], f["replay"])
    ck.cov["rule"] = ("orientations (C1, G) for a random subset (quick) / all 38 groups (thorough); misorientations for random (quick) / "
                      "all 225 (thorough) ordered pairs of proper groups; every combination of group classes (proper / inversion / improper without inversion) with cubic x hexagonal-or-trigonal pairs in both orders (80 inputs each; thorough: all such pairs with 200 inputs and all 1300 ordered pairs with a region); "
                      "40 inputs for cubic x hexagonal proper pairs; points on and within 1e-9 of region vertices; shapes; every result is compared with the brute-force orbit")
    return ck.finish()


def replay(path):
    d = json.load(open(path))
    print(json.dumps(d, indent=1)[:3000])
    return run("quick", d.get("seed", 0))
