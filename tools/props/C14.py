"""C14 -- .ang export/import preserves the map up to the format's precision
(DESIGN.md section 4, C14; as-built notes in design.d/C14.md)."""
import json
import os

from vlib import BUILD, Check, fhex, run_cases, run_impl, zlit

PROP = "C14"

HEADER = """From Verif Require Import C14Ang C14Float.
Open Scope Z_scope.
"""


# ------------------------------------------------------------------ Coq text
def cstr(s):
    assert all(32 <= ord(c) < 127 for c in s), s
    return '"' + s.replace('"', '""') + '"%string'


def clist(xs):
    return "[" + "; ".join(xs) + "]"


def cbool(b):
    return "true" if b else "false"


def copt(x, f):
    return "None" if x is None else f"(Some {f(x)})"


def cnat(n):
    return f"{int(n)}%nat"


def cmap_coq(m):
    rots = clist(clist("(" + ", ".join(fhex(a) for a in e) + ")%float" for e in pt) for pt in m["rots"])
    phases = clist(
        "(%s, {| ph_name := %s; ph_pg := %s; ph_lat := %s |})" % (
            zlit(p["id"]), cstr(p["name"]), copt(p["pg"], cstr), clist(fhex(v) + "%float" for v in p["lat"]))
        for p in m["phases"])
    props = clist(
        "{| pr_name := %s; pr_multi := %s; pr_vals := %s |}" % (
            cstr(p["name"]), cbool(p["multi"]), clist(clist(fhex(v) + "%float" for v in pt) for pt in p["vals"]))
        for p in m["props"])
    return ("{| m_rows := %s; m_cols := %s; m_dx := %s%%float; m_dy := %s%%float; m_in := %s; m_pid := %s; "
            "m_rmulti := %s; m_rots := %s; m_phases := %s; m_props := %s |}" % (
                cnat(m["rows"]), cnat(m["cols"]), fhex(m["dx"]), fhex(m["dy"]), clist(cbool(b) for b in m["in"]),
                clist(zlit(i) for i in m["pid"]), cbool(m["rmulti"]), rots, phases, props))


def kw_coq(kw):
    return ("{| k_index := %s; k_iq := %s; k_ci := %s; k_ds := %s; k_fit := %s; k_extra := %s |}" % (
        copt(kw["index"], zlit), copt(kw["iq"], cstr), copt(kw["ci"], cstr), copt(kw["ds"], cstr),
        copt(kw["fit"], cstr), clist(cstr(e) for e in kw["extra"])))


def hline_coq(t):
    k = t[0]
    if k == "P":
        return f"LPhase {zlit(t[1])}"
    if k == "M":
        return f"LMaterial {cstr(t[1])}"
    if k == "F":
        return f"LFormula {cstr(t[1])}"
    if k == "S":
        return f"LSymmetry {cstr(t[1])}"
    if k == "L":
        return f"LLattice {clist(zlit(v) for v in t[1])}"
    if k == "G":
        g = t[1]
        return f"LGrid {zlit(g['x'])} {zlit(g['y'])} {cnat(g['nc'])} {cnat(g['nr'])}"
    if k == "C":
        return f"LColumns {clist(cstr(s) for s in t[1])}"
    return f"LOther {cstr(t[1])}"


def file_coq(f):
    rows = clist(clist(("CI " if c[0] == "I" else "CF ") + zlit(c[1]) for c in r) for r in f["rows"])
    return "{| f_header := %s; f_rows := %s |}" % (clist(hline_coq(t) for t in f["header"]), rows)


def rmap_coq(r):
    phases = clist("(%s, {| rp_name := %s; rp_pg := %s; rp_lat := %s |})" % (
        zlit(p["id"]), cstr(p["name"]), copt(p["pg"], cstr), clist(zlit(v) for v in p["lat"])) for p in r["phases"])
    props = clist("(%s, %s)" % (cstr(n), clist(zlit(v) for v in vs)) for n, vs in r["props"])
    return ("{| r_shape := %s; r_dx := %s; r_dy := %s; r_pid := %s; r_eul := %s; r_props := %s; "
            "r_phases := %s; r_unit := %s |}" % (
                clist(cnat(s) for s in r["shape"]), zlit(r["dx"]), zlit(r["dy"]), clist(zlit(i) for i in r["pid"]),
                clist("(%s, %s, %s)" % tuple(zlit(v) for v in e) for e in r["eul"]), props, phases, cstr(r["unit"])))


def case_coq(c):
    return "Cmap %s %s %s %s" % (cmap_coq(c["m"]), kw_coq(c["kw"]), copt(c["wr"], file_coq), copt(c["rd"], rmap_coq))


def tables_coq(t):
    g = clist("(%s, %s)" % (cstr(a), cstr(b)) for a, b in t["groups"])
    a = clist("(%s, %s)" % (cstr(k), clist(cstr(x) for x in v)) for k, v in t["aliases"])
    return f"Ctables {g} {a}"


def correspond(ck, cases, tables, chunk=40):
    chunks = []
    items = [("tables", tables_coq(tables), None)] + [("case", case_coq(c), c) for c in cases]
    for i in range(0, len(items), chunk):
        body = "Definition cases : list case := [\n" + ";\n".join(t for _, t, _ in items[i:i + chunk]) + "].\n"
        chunks.append((f"c{i // chunk}", body))
    res = run_cases(PROP, chunks, header_extra=HEADER)
    for (name, n, bad, err), i in zip(res, range(0, len(items), chunk)):
        if err:
            ck.broken.append(("correspondence", f"cases file {name} did not evaluate: {err[-300:]}"))
            continue
        for b in bad:
            kind, _, c = items[i + b]
            if kind == "tables":
                ck.disagreement("point-group / alias tables of orix differ from the model's tables", tables)
            else:
                what = ("model and implementation differ on the written file" if True else "")
                ck.disagreement(f"model and implementation differ (stratum {c['stratum']}, "
                                f"saved={c['wr'] is not None}, loaded={c['rd'] is not None})",
                                {"spec": c["spec"]})


def run(tier, seed, only=None):
    ck = Check(PROP, tier, seed)
    ck.trusted += [
        "np.savetxt / np.loadtxt as decimal printing / parsing of the stated precision (tokeniser in tools/impl/c14.py)",
        "quantisers (np.round, float32 cast, '%.5f', '%.3f', k*dx) are abstract in the theorems; their binary64 "
        "instance Model/C14Float.v is compared bit-exactly with numpy on every case",
        "Rotation.to_euler / from_euler (property C01); the harness checks that loaded rotations equal "
        "from_euler of the written decimals",
        "diffpy.structure Lattice(a,b,c,alpha,beta,gamma).abcABG() round trip",
        "regular expressions of the header parser modelled at token level (names without '#', ':', ',' and newlines)",
    ]
    ck.assumptions += [
        "theorems are about the record/token-level model; floats enter through abstract quantisers",
        "grid axes are resolvable at 5 decimals (hypotheses c_axis_x / c_axis_y of C14_roundtrip_outside_finding); the "
        "faithful model refutes the clause outside (C14_roundtrip_coarse_step_refuted)",
        "phase names are non-empty with words separated by single blanks (name_ok); runs of blanks are refuted "
        "(C14_roundtrip_blank_run_name_refuted)",
    ]
    if not ck.step_sanity():
        return ck.finish()
    ck.step_prove([], "Props/C14.v", extra=["Model/C14Ang.vo", "Model/C14Float.vo"])
    n = 160 if tier == "quick" else 2500
    tmp = os.path.join(BUILD, "tmp", "c14")
    payload = {"seed": seed, "n": n, "tmp": tmp}
    if only is not None:
        payload["only"] = only
    out = run_impl("c14.py", payload)
    cases = out["cases"]
    for c in cases:
        ck.count(c["stratum"], json.dumps(c["spec"], sort_keys=True)[:4000])
    for s, v in out["strata"].items():
        ck.cov["strata"][s] = v
    for c in cases[:3]:
        ck.sample({"stratum": c["stratum"], "kw": c["kw"], "shape": [c["m"]["rows"], c["m"]["cols"]],
                   "saved": c["wr"] is not None, "loaded": c["rd"] is not None})
    correspond(ck, cases, out["tables"])
    for f in out["fails"]:
        ck.failure(f["sig"], f["what"], f["replay"])
    ck.cov["rule"] = (
        "structured random crystal maps: 2-D / 1-D / single column / tiny grids (every grid of 1-3 points, single row, "
        "single column, single point in every run), exact and inexact and coarse "
        "steps, large coordinates, random / rectangular / row / column masks (incl. exactly 3 and exactly 1 point "
        "in data), 1-3 phases with arbitrary ids over all 38 named point groups and None, names plain / blank / "
        "empty, not-indexed points, 0-6 properties (float, int, large, near-tie, special values, several layers), "
        "1-3 rotations per point and layer index in {None, 0, 1, -1, -k, out of range}, all writer keywords "
        "(given / empty / missing property names, extra columns as str or list); every named point group once "
        "through the alias table.  Each case is written with orix, the file tokens and the re-loaded map are "
        "compared with the Coq model (write and read) and the property oracle checks every clause on the "
        "implementation; distinct = distinct generated spec")
    return ck.finish()


def replay(path):
    d = json.load(open(path))
    print(json.dumps(d, indent=1)[:3000])
    rep = d.get("replay") or {}
    specs = []
    if "spec" in rep:
        specs.append(rep["spec"])
    for c in d.get("correspondence_cases", []):
        if isinstance(c.get("replay"), dict) and "spec" in c["replay"]:
            specs.append(c["replay"]["spec"])
    specs = [s for s in specs if "kind" in s]
    return run("quick", d.get("seed", 0), only=specs or None)
