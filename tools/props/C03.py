"""C03 -- point groups are the crystallographic groups of their names and space groups."""
import json
import os
import re

from vlib import BUILD, Check, coq_eval, run_impl

PROP = "C03"

EVAL = """From Verif Require Import KField Quat GroupK ITARef Groups GroupChecks.
Open Scope string_scope.
Eval vm_compute in ("@@group_ok", failing_groups group_ok).
Eval vm_compute in ("@@ita", failing_groups ita_ok).
Eval vm_compute in ("@@laue", failing_groups laue_ok).
Eval vm_compute in ("@@proper_subgroup", failing_groups (fun g => proper_ok g && laue_proper_ok g)).
Eval vm_compute in ("@@contains_inversion", failing_groups inversion_ok).
Eval vm_compute in ("@@is_proper", failing_groups is_proper_ok).
Eval vm_compute in ("@@subgroups", failing_groups subgroups_ok).
Eval vm_compute in ("@@sg", failing_sgs sg_ok).
Eval vm_compute in ("@@phase", failing_sgs sg_phase_pg_same).
Eval vm_compute in ("@@counts", List.length groups, List.length spacegroups).
"""

WHAT = {
    "group_ok": "named point group {x} is not a finite group of its reported order (identity/closure/inverse/duplicates)",
    "ita": "operations of named point group {x} differ from those its Hermann-Mauguin name denotes (ITA reference)",
    "laue": "Laue group of {x} is not the group extended by inversion",
    "proper_subgroup": "proper subgroup (or Laue proper subgroup) of {x} is not exactly its proper operations",
    "contains_inversion": "contains_inversion of {x} disagrees with membership of the inversion",
    "is_proper": "is_proper of {x} disagrees with its operations",
    "subgroups": "subgroups/proper_subgroups of {x} disagree with set inclusion over the 38 named groups",
    "sg": "point group assigned to space group {x} is not the set of rotational parts of its symmetry operations in the Cartesian crystal frame",
    "phase": "Phase(space_group={x}).point_group (of a fresh Phase, or after assigning space_group={x} to a Phase whose point group had been read) differs from get_point_group({x})",
}


def run(tier, seed):
    ck = Check(PROP, tier, seed)
    ck.trusted += ["tools/translate/units_c03.py: group data obtained by RUNNING orix from /repo; components recognised in K within 1e-12 (fail-closed)",
                   "exact arithmetic of K = Q(sqrt2,sqrt3) in coq/Base/KField.v (Kmul etc. are definitions, evaluated by vm_compute)",
                   "diffpy.structure space-group table (external datum: rotational parts W of the 230 groups)",
                   "hand-written ITA reference generators coq/Model/ITARef.v; representative lattice per crystal family"]
    ck.assumptions += ["the Cartesian matrix of a lattice isometry does not depend on cell lengths: one representative lattice per family (hexagonal family exact in K, others orthogonal)",
                       "equality of rotations is equality of quaternions up to overall sign with equal improper flag"]
    if not ck.step_sanity():
        return ck.finish()
    ck.step_prove(["groups", "quatkernels", "conversions"], "Props/C03.v", extra=["Model/GroupChecks.vo"])
    ok, out = coq_eval(PROP, "failing", EVAL, timeout=900)
    flat = out.replace("\n", " ")
    if not ok:
        ck.broken.append(("correspondence", "could not evaluate the group checks: " + out[-400:]))
    for key, what in WHAT.items():
        m = re.search(r'\("@@%s",\s*\[([^\]]*)\]' % key, flat)
        if not m:
            if ok:
                ck.broken.append(("correspondence", f"no result for check {key}"))
            continue
        items = [x.strip().strip('"') for x in re.split(r";", m.group(1)) if x.strip()]
        items = [re.sub(r"%Z$", "", x) for x in items]
        for x in items:
            ck.failure(f"{key}:{x}", what.format(x=x),
                       {"check": key, "subject": x,
                        "how": "python: import orix.quaternion.symmetry as S; compare the dumped group (build/c03_dump.json) with the reference"})
    # property oracle on the implementation (numpy brute force; run on every check, not cached with the Coq data):
    # derived-group query chains in both orders, aliases 2 / m, point groups by name, real lattices (constructor,
    # structure setter, rotated base, CIF), PhaseList / CrystalMap routes, module-level groups unchanged afterwards
    try:
        orc = run_impl("c03.py", {"mode": "oracle", "seed": seed, "tier": tier})
        for f in orc["fails"]:
            ck.failure(f["sig"], f["what"], f["replay"])
        for s_, v in orc["strata"].items():
            ck.cov["strata"]["oracle:" + s_] = v
            ck.cov["evaluations"] += v
    except Exception as e:  # noqa
        ck.broken.append(("oracle", "the property oracle (tools/impl/c03.py, mode oracle) could not be run: " + str(e)[-400:]))
    m = re.search(r'\("@@counts",\s*(\d+)(?:%nat)?,\s*(\d+)', flat)
    ng, ns = (int(m.group(1)), int(m.group(2))) if m else (0, 0)
    dump = os.path.join(BUILD, "c03_dump.json")
    if os.path.exists(dump):
        d = json.load(open(dump))
        for g in d["groups"]:
            ck.count("group", g["name"])
            for h in d["groups"]:
                ck.count("group-pair", (g["name"], h["name"]), nontrivial=g["name"] != h["name"])
        for s in d["sgs"]:
            ck.count("spacegroup", s["n"])
        ck.sample({"group": d["groups"][10]["name"], "q": d["groups"][10]["q"], "improper": d["groups"][10]["imp"]})
        ck.sample({"space_group": 149, "pgn": d["sgs"][148]["pgn"], "W": d["sgs"][148]["W"][:3]})
    else:
        ck.cov["evaluations"] = ng + ns
    ck.cov["exhaustive"] = True
    ck.cov["rule"] = ("exhaustive: all 38 named groups (all ordered pairs of operations, all 38x38 group pairs) and all 230 "
                      "space-group numbers; every case is distinct; data regenerated from /repo on every run")
    return ck.finish()


def replay(path):
    d = json.load(open(path))
    print(json.dumps(d, indent=1)[:3000])
    return run("quick", d.get("seed", 0))
