#!/bin/bash
# usage: tools/suite.sh <tree> <outfile>  -- run the orix test suite in <tree>, write sorted failing test ids
cd "$1" || exit 9
timeout 3000 /venv/bin/python -m pytest -q -p no:cacheprovider -n ${NPROC:-8} --timeout=900 -rf 2>&1 | grep -E "^(FAILED|ERROR) " | sed 's/ - .*//' | sort > "$2"
wc -l < "$2"
