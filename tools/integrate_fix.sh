#!/bin/bash
# usage: tools/integrate_fix.sh Cxx   -- commit /tmp/fix_Cxx/repo_patches/*.patch to /repo (one fix: commit each),
# apply /tmp/fix_Cxx/verif.patch to /verif, fill in the commit hashes, run the check.
set -u
P=$1; D=/tmp/fix_$P
git -C /repo status --porcelain | grep -q . && { echo "/repo not clean"; exit 9; }
declare -A HASH
for patch in $(ls $D/repo_patches/*.patch | sort); do
  slug=$(basename "$patch" .patch)
  if ! git -C /repo apply --check "$patch" 2>/tmp/apply_err.txt; then echo "PATCH DOES NOT APPLY: $patch"; cat /tmp/apply_err.txt; exit 8; fi
  git -C /repo apply "$patch"
  git -C /repo add -A
  git -C /repo commit -q -F "$D/repo_patches/$slug.msg"
  HASH[$slug]=$(git -C /repo rev-parse --short HEAD)
  echo "committed $slug -> ${HASH[$slug]}: $(head -1 $D/repo_patches/$slug.msg)"
done
cd /verif
if ! git apply --check "$D/verif.patch" 2>/tmp/apply_err.txt; then echo "VERIF PATCH DOES NOT APPLY"; head -20 /tmp/apply_err.txt; exit 7; fi
git apply "$D/verif.patch"
for slug in "${!HASH[@]}"; do
  grep -rl "PENDING:$slug" known_findings.d design.d tools 2>/dev/null | xargs -r sed -i "s/PENDING:$slug/${HASH[$slug]}/g"
done
grep -rn "PENDING:" known_findings.d/$P.json && echo "WARNING: unresolved PENDING"
./check $P 2>&1 | grep -v "^KNOWN" | tail -5
