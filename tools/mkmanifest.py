#!/usr/bin/env python3
"""Regenerate MANIFEST.json from tools/manifest_data.py"""
import json, os, sys
HERE = os.path.dirname(os.path.abspath(__file__))
sys.path.insert(0, HERE)
from manifest_data import CHECKS, NOT_APPLICABLE, NOTES  # noqa

props = [json.loads(l)["id"] for l in open(os.path.join(HERE, "..", "properties.jsonl"))]
checks = []
for pid in props:
    if pid in CHECKS:
        c = CHECKS[pid]
        checks.append({
            "property_id": pid,
            "quick_cmd": f"./check {pid} --tier quick",
            "thorough_cmd": f"./check {pid} --tier thorough",
            "evidence_file": f"/verif/evidence/{pid}.json",
            "replay_cmd_template": f"./check {pid} --replay {{path}}",
            "engine": "coq-proof+correspondence",
            "level_claimed": {"category": "proof", "text": c["text"], "design_ref": c.get("ref", f"DESIGN.md section 4, {pid}")},
            "level_note": c["note"],
            "technique": c["technique"],
        })
na = [{"property_id": p, "reason": NOT_APPLICABLE.get(p, "machinery for this property is not built yet; no claim is made")}
      for p in props if p not in CHECKS]
m = {
    "version": 1,
    "setup_cmd": "./setup.sh",
    "hooks": {"guard": "ORIX_VERIF", "enable": "no source hooks are needed: checks run /repo's working tree directly (PYTHONPATH=/repo) and toggle orix.constants.installed at run time",
              "baseline_off_cmd": "cd /repo && /venv/bin/python -m pytest -ra -q -p no:cacheprovider --timeout=900 --continue-on-collection-errors",
              "source_commits": [], "add_only": True},
    "engines": [{"name": "coq-proof+correspondence", "path": "/verif/check",
                 "serves_properties": sorted(CHECKS),
                 "kind_free_text": "Coq 8.16.1 theorems over a model regenerated from /repo by tools/translate (python ast -> Gallina) and/or hand-written models tied by a differential correspondence check evaluated inside Coq (vm_compute), plus a property oracle on the implementation used only to find replays"}],
    "checks": checks,
    "notes": NOTES,
    "not_applicable": na,
}
json.dump(m, open(os.path.join(HERE, "..", "MANIFEST.json"), "w"), indent=1)
print("claimed:", sorted(CHECKS), "unclaimed:", [x["property_id"] for x in na])
