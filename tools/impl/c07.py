"""C07 implementation harness: projection into the fundamental sector."""
import numpy as np
from common import emit, payload, rand_vec, rng

from orix.quaternion import symmetry as S
from orix.vector import Vector3d

P = payload()
R = rng(P.get("seed", 0))
THOROUGH = P.get("thorough", False)
NRAND = P.get("n", 40)
cases, fails, strata = [], [], {}
GROUPS = list(S._groups)


def st(k):
    strata[k] = strata.get(k, 0) + 1


def fail(sig, what, rep):
    fails.append({"sig": sig, "what": what, "replay": rep})


def kind_of(name):
    if name in ("321", "312", "32"):
        return 1
    if name == "-3":
        return 2
    if name == "-4":
        return 3          # since the repair 5e95612: flip with the last element, then the proper elements
    return 0


def matrices(G):
    M = G.to_matrix().reshape(-1, 3, 3)
    sgn = np.where(G.improper.reshape(-1), -1.0, 1.0)
    return M * sgn[:, None, None]


def unit(v):
    return v / np.linalg.norm(v)


subjects = []
for g in GROUPS:
    subjects.append((g.name, g))
for g in GROUPS:
    L = g.laue
    subjects.append((f"laue({g.name})", L))
if not THOROUGH:
    keep = {"m-3m", "432", "m-3", "23", "-4", "-3", "321", "312", "32", "6/mmm", "mm2", "m11", "1m1", "-6m2", "1", "-1",
            "4/mmm", "222", "3m", "-43m", "laue(3)", "laue(432)", "laue(211)", "laue(312)", "laue(mm2)", "laue(4)", "laue(6)"}
    extra = R.sample([s for s in subjects if s[0] not in keep], 8)
    subjects = [s for s in subjects if s[0] in keep] + extra

for label, G in subjects:
    fs = G.fundamental_sector
    N = fs.data.reshape(-1, 3)
    center = fs.center
    c = center.data.reshape(-1, 3)
    Ms = matrices(G)
    # ---------------- directions
    vs = []
    for _ in range(NRAND):
        vs.append(("random", np.array(rand_vec(R)) * R.choice([1.0, 0.01, 37.0, 1e-10, 3e-7])))
    for n in N:
        nn = unit(n)
        for _ in range(3):
            w = np.array(rand_vec(R))
            w = unit(w - np.dot(w, nn) * nn)
            for off in (0.0, 1e-9, -1e-9, 1e-7, -1e-7):
                vs.append(("on-plane" if off == 0 else "near-plane", w + off * nn))
    try:
        for vert in fs.vertices.data.reshape(-1, 3)[:4]:
            vs.append(("vertex", vert.copy()))
            vs.append(("near-vertex", vert + 1e-9 * np.array(rand_vec(R))))
    except Exception:  # noqa
        pass
    ax = G.axis.data.reshape(-1, 3)
    for a in ax[:: max(1, len(ax) // 4)][:4]:
        if np.linalg.norm(a) > 0.5:
            vs.append(("axis", a.copy()))
            vs.append(("axis", -a))
    if len(c):
        vs.append(("center", c[0].copy()))
    vs.append(("pole", np.array([0.0, 0.0, 1.0])))
    vs.append(("pole", np.array([0.0, 0.0, -1.0])))
    V = np.array([v for _, v in vs])
    out = Vector3d(V.copy()).in_fundamental_sector(G).data.reshape(-1, 3)
    cases.append({"label": label, "kind": kind_of(G.name), "S": {"q": G.data.reshape(-1, 4).tolist(), "imp": G.improper.reshape(-1).astype(int).tolist()},
                  "N": N.tolist(), "center": c[0].tolist() if len(c) else None, "v": V.tolist(), "out": out.tolist()})
    # integer-typed input must give what the same numbers give as floats (the special cases assign in place)
    Vi = np.array([[1, 0, -1], [2, -1, -3], [0, -1, 0], [-1, -2, 1], [3, 1, -2], [0, 0, -1]])
    oi = Vector3d(Vi.copy()).in_fundamental_sector(G).data.reshape(-1, 3)
    of = Vector3d(Vi.astype(float)).in_fundamental_sector(G).data.reshape(-1, 3)
    st("int-dtype")
    if not np.allclose(oi, of, atol=1e-12):
        k = int(np.argmax(np.abs(oi - of).max(axis=1)))
        fail(f"project:int-dtype:{label}", f"integer-typed {Vi[k].tolist()} is projected to {oi[k].tolist()} but the same "
             f"vector given as floats to {of[k].tolist()} ({label})", {"group": label, "v": Vi[k].tolist(), "dtype": "int64"})
    again = Vector3d(out.copy()).in_fundamental_sector(G).data.reshape(-1, 3)
    inside = np.asarray(Vector3d(out.copy()) <= fs).reshape(-1)
    for k, (stn, v) in enumerate(vs):
        st(stn)
        nv = np.linalg.norm(v)
        r = out[k]
        rep = {"group": label, "v": v.tolist(), "stratum": stn}
        orb = Ms @ v                                        # (n, 3) all equivalents
        if np.min(np.linalg.norm(orb - r, axis=1)) > 1e-9 * nv:
            fail(f"project:not-group-image:{label}", f"projection is not s*v for an operation s of {label}", rep)
        if not inside[k]:
            fail(f"project:outside-sector:{label}", f"projection lies outside the closed fundamental sector of {label}", rep)
        if np.linalg.norm(again[k] - r) > 1e-9 * nv:
            fail(f"project:not-idempotent:{label}", f"projecting twice changes the direction for {label}", rep)
        # general position: distance of every equivalent to every sector plane
        if len(N):
            d = (orb @ np.array([unit(n) for n in N]).T) / nv         # (n_ops, n_normals)
            generic = np.min(np.abs(d)) > 1e-6
            strictly_in = np.all(d > 1e-6, axis=1)
            closed_in = np.all(d > -1e-9, axis=1)
            distinct_in = {tuple(np.round(o / nv, 7)) for o in orb[strictly_in]}
            if not closed_in.any():
                fail(f"domain:no-equivalent-inside:{label}", f"no symmetry-equivalent direction lies inside the closed sector of {label}", rep)
            if generic and len(distinct_in) != 1:
                fail(f"domain:not-exactly-one:{label}", f"a direction in general position has {len(distinct_in)} equivalents inside the sector of {label} (sector is not a fundamental domain)", rep)
            if generic:
                g = Ms[R.randrange(len(Ms))]
                r2 = Vector3d((g @ v)[None, :]).in_fundamental_sector(G).data.reshape(-1, 3)[0]
                if np.linalg.norm(r2 - r) > 1e-7 * nv:
                    fail(f"project:orbit-inconsistent:{label}", f"two symmetry-equivalent directions (off the boundary) project to different directions for {label}", rep)

# ---------------- exact witnesses from the sector certificate generator (tools/impl/c07cert.py): a rational
# direction for which the sector is not a fundamental domain; replayed here on the implementation
BYNAME = {g.name: g for g in GROUPS}
for w in P.get("witnesses", []):
    G0 = BYNAME.get(w["group"])
    if G0 is None:
        continue
    G = G0.laue if w["kind"] == "laue" else G0
    label = f"laue({w['group']})" if w["kind"] == "laue" else w["group"]
    fs = G.fundamental_sector
    v = np.array(w["witness"], float)
    orb = matrices(G) @ v
    closed_in = np.asarray(Vector3d(orb.copy()) <= fs).reshape(-1)
    st("certificate-witness")
    rep = {"group": label, "v": v.tolist(), "stratum": "certificate-witness", "op": w.get("op", 0)}
    if w.get("op", 0) == 0:
        if not closed_in.any():
            fail(f"domain:no-equivalent-inside:{label}", f"no symmetry-equivalent of {v.tolist()} lies inside the closed sector of {label} "
                 "(exact witness from the certificate search, confirmed on the implementation)", rep)
    else:
        N = fs.data.reshape(-1, 3)
        d = orb @ N.T
        strictly = np.all(d > 1e-9, axis=1)
        if len({tuple(np.round(o, 9)) for o in orb[strictly]}) > 1:
            fail(f"domain:not-exactly-one:{label}", f"{v.tolist()} has several equivalents strictly inside the sector of {label} "
                 "(exact witness from the certificate search, confirmed on the implementation)", rep)

emit({"cases": cases, "fails": fails, "strata": strata})
