"""C11 implementation harness: runs selection histories on real CrystalMaps
(/repo working tree), records every observable after every step (for the Coq
correspondence) and checks the property against an independent numpy
reference that tracks the selected original ids (the oracle)."""
import itertools
from fractions import Fraction

import numpy as np
from common import emit, payload, rng

from orix.crystal_map import CrystalMap, PhaseList, create_coordinate_arrays
from orix.quaternion import Rotation

P = payload()
R = rng(P.get("seed", 0))
N = P.get("n", 200)
EXH = P.get("exhaustive", False)
ONLY = P.get("only")          # replay: list of case specs

cases = []
fails = []
strata = {}
witness_status = {}


def st(k):
    strata[k] = strata.get(k, 0) + 1


def fail(sig, what, rep):
    fails.append({"sig": sig, "what": what, "replay": rep})


# ------------------------------------------------------------------ map specs
STEPS_DYADIC = [1.0, 0.5, 1.5, 2.0, 0.25]
STEPS_OTHER = [0.1, 0.7, 0.35, 1.3, 0.03, 0.15, 0.2]
PHASES = [[-1, "not_indexed"], [0, "alpha"], [1, "beta"], [2, "gamma"]]


PG = {0: "m-3m", 1: "6/mmm", 2: "mmm"}


def _cast(a, spec):
    """optional coordinate dtype (audit strata): int64 / float32 instead of float64"""
    if a is None or spec.get("cdtype") is None:
        return a
    if spec["cdtype"] == "int":
        assert np.all(a == np.round(a))
        return np.round(a).astype(np.int64)
    return a.astype(np.float32)


def coords(spec):
    """full-size coordinate arrays (x, y) exactly as a user would build them"""
    x, y = _coords(spec)
    return _cast(x, spec), _cast(y, spec)


def _coords(spec):
    kind, nr, nc = spec["kind"], spec["nr"], spec["nc"]
    ox, oy, dx, dy = spec["ox"], spec["oy"], spec["dx"], spec["dy"]
    if spec.get("via") == "cca":       # the library's own helper (what CrystalMap.empty() uses): origin zero
        if spec.get("cdtype") == "int":
            dx, dy = int(dx), int(dy)
        d, _ = create_coordinate_arrays((nr, nc), (dy, dx)) if kind == "2d" else create_coordinate_arrays((nc,), (dx,))
        return d["x"], d.get("y")
    if kind == "1dx" and spec.get("consty"):   # row map given with a constant y
        return ox + np.arange(nc) * dx, np.full(nc, oy)
    if kind == "2d":
        r, c = np.indices((nr, nc))
        return ox + c.ravel() * dx, oy + r.ravel() * dy
    if kind == "1dx":
        return ox + np.arange(nc) * dx, None
    if kind == "1dy":          # column map given with a constant x
        return np.full(nr, ox), oy + np.arange(nr) * dy
    if kind == "1dy_nox":      # column map, x = None is not accepted by itself: y only
        return None, oy + np.arange(nr) * dy
    raise ValueError(kind)


def build(spec):
    x, y = coords(spec)
    n = len(x) if x is not None else len(y)
    pid = np.array(spec["pid"], dtype=int)
    rpp = spec["rpp"]
    q = np.array(spec["rot"], dtype=float).reshape((n, 4) if rpp == 1 else (n, rpp, 4))
    ids_present = sorted(set(int(i) for i in pid if i >= 0))
    names = {i: nm for i, nm in PHASES}
    if spec.get("pg"):
        pl = PhaseList(names=[names[i] for i in ids_present], point_groups=[PG[i] for i in ids_present],
                       ids=ids_present) if ids_present else None
    else:
        pl = PhaseList(names=[names[i] for i in ids_present], ids=ids_present) if ids_present else None
    if spec.get("bare"):               # CrystalMap(rotations) alone: default coordinates, phase ids, phase list
        xm = CrystalMap(Rotation(q.copy()))
        return xm, x, y, Rotation(q.copy()).data.reshape(n, -1)
    prop = {}
    if spec.get("xprops"):
        for k, v in xprops(spec).items():
            prop[k] = v.copy()
    if "p" in spec["props"]:
        prop["p"] = np.array(spec["p"], dtype=float)
    if "q" in spec["props"]:
        prop["q"] = np.array(spec["q"], dtype=np.int64)
    kw = {}
    if spec.get("ind") is not None:
        kw["is_in_data"] = np.array(spec["ind"], dtype=bool)
    xm = CrystalMap(rotations=Rotation(q.copy()), phase_id=pid.copy(), x=None if x is None else x.copy(),
                    y=None if y is None else y.copy(), phase_list=pl, prop=prop, **kw)
    return xm, x, y, Rotation(q.copy()).data.reshape(n, -1)


def xprops(spec):
    """extra properties of other dtypes / a trailing axis (audit strata), derived from the spec"""
    n = spec["nr"] * spec["nc"]
    p = np.array(spec["p"], dtype=float)
    return {"b": (np.array(spec["q"]) % 3 == 0), "v": np.column_stack([p * 2 + 1, -p]),
            "f": (p / 4).astype(np.float32)}


def rand_spec(kind=None, origin=None, step=None, small=False, single=False):
    kind = kind or R.choice(["2d"] * 6 + ["1dx"] * 2 + ["1dy", "1dy_nox"])
    hi = 4 if small else 7
    nr = R.randint(2, hi) if kind != "1dx" else 1
    nc = R.randint(2, hi + 1) if kind in ("2d", "1dx") else 1
    if kind == "1dx" and not small:
        nc = R.randint(2, 12)
    if single:                         # a map with one point (0-dimensional, shape ())
        kind, nr, nc = "1dx", 1, 1
    step = step or R.choice(["dyadic"] * 2 + ["other"])
    pool = STEPS_DYADIC if step == "dyadic" else STEPS_OTHER
    dx, dy = R.choice(pool), R.choice(pool)
    origin = origin or R.choice(["zero"] * 6 + ["within-half", "offset", "half-step"])
    if origin == "half-step":          # exact ties only with exactly representable arithmetic
        dx, dy = R.choice(STEPS_DYADIC), R.choice(STEPS_DYADIC)

    def orig(d):
        if origin == "zero":
            return 0.0
        if origin == "within-half":
            return R.choice([0.25, -0.25, 0.3, -0.4, 0.125]) * d
        if origin == "half-step":
            return R.choice([0.5, -0.5, 0.5, 1.5]) * d
        return R.choice([1, 2, 3, -1, -2, 5]) * d
    ox, oy = orig(dx), orig(dy)
    if origin in ("offset", "half-step") and kind == "2d" and R.random() < 0.4:
        if R.random() < 0.5:
            ox = 0.0
        else:
            oy = 0.0
    n = nr * nc
    pool_ids = R.choice([[-1, 0, 1], [0, 1], [0], [-1, 0], [-1, 0, 1, 2], [1, 2], [-1]])
    pid = [R.choice(pool_ids) for _ in range(n)]
    rpp = R.choice([1, 1, 3])
    rot = np.round(np.array([[R.gauss(0, 1) for _ in range(4)] for _ in range(n * rpp)]), 3)
    rot = rot / np.linalg.norm(rot, axis=1)[:, None]
    props = R.choice([["p", "q"], ["p", "q"], ["p"], []])
    spec = {"kind": kind, "nr": nr, "nc": nc, "ox": ox, "oy": oy, "dx": dx, "dy": dy,
            "origin": origin, "step": step, "pid": pid, "rpp": rpp, "rot": rot.reshape(-1).tolist(),
            "props": props, "p": [round(R.uniform(-50, 50), 2) + 0.001 * i for i in range(n)],
            "q": [R.randint(0, 900) for _ in range(n)],
            "ind": None}
    if R.random() < 0.12:
        ind = [R.random() < 0.75 for _ in range(n)]
        if not any(ind):
            ind[0] = True
        spec["ind"] = ind
    return spec


# ------------------------------------------------------------------- keys
def rand_key1(n):
    t = R.random()
    if t < 0.22:
        return {"int": R.randint(-n, n - 1)}
    if t < 0.27:
        return {"int": R.choice([n, n + 1, -n - 1])}           # out of bounds
    a = R.choice([None, None] + list(range(-n - 1, n + 2)))
    b = R.choice([None, None] + list(range(-n - 1, n + 2)))
    s = R.choice([None] * 6 + [1, 2, 2, 3, -1, -2])
    if t < 0.6 and n > 0:                                      # plain contiguous non-empty range
        a = R.randint(0, n - 1)
        b = R.randint(a + 1, n)
        s = None
    return {"sl": [a, b, s]}


def rand_op(size, shape):
    t = R.random()
    if t < 0.45 and shape is not None:
        nd = len(shape)
        k = R.choice([nd] * 6 + [max(nd - 1, 1)] * 2 + [nd + 1])
        return {"sel": [rand_key1(shape[i] if i < nd else 3) for i in range(k)]}
    if t < 0.75:
        t2 = R.random()
        if t2 < 0.06:
            return {"mask": [R.random() < 0.5]}                # length-1 broadcast
        if t2 < 0.1:
            return {"mask": [True] * (size + 1)}               # wrong length
        dens = R.choice([0.3, 0.7, 0.7, 0.9])
        m = [R.random() < dens for _ in range(size)]
        if size and not any(m) and R.random() < 0.8:
            m[R.randrange(size)] = True
        return {"mask": m}
    names = R.choice([["alpha"], ["beta"], ["indexed"], ["Indexed"], ["not_indexed"], ["alpha", "beta"],
                      ["gamma"], ["nosuch"], ["not_indexed", "alpha"], ["INDEXED", "not_indexed"]])
    return {"phase": names}


def _npi(v, np_kind):
    return v if (v is None or np_kind is None) else getattr(np, np_kind)(v)


def to_key(op):
    if "sel" in op:
        npk = op.get("np")             # None | "int64" | "intp" | "int32": integers given as NumPy scalars
        ks = []
        for k in op["sel"]:
            ks.append(_npi(k["int"], npk) if "int" in k else slice(*[_npi(v, npk) for v in k["sl"]]))
        if "form" in op:               # audit strata: bare / tuple form chosen by the stratum, not drawn
            return ks[0] if op["form"] == "bare" else tuple(ks)
        return ks[0] if len(ks) == 1 and R.random() < 0.5 else tuple(ks)
    if "mask" in op:
        return np.array(op["mask"], dtype=bool)
    names = op["phase"]
    return names[0] if len(names) == 1 else tuple(names)


# ------------------------------------------------------------- observation
ERR = {ValueError: "ValueError", IndexError: "IndexError", TypeError: "TypeError"}


def guard(f):
    try:
        return {"ok": f()}
    except Exception as e:  # noqa
        return {"err": ERR.get(type(e), "Other:" + type(e).__name__)}


def frac(a):
    return None if a is None else [[Fraction(float(v)).numerator, Fraction(float(v)).denominator] for v in a]


def grid_obs(arr, isfill):
    a = np.asarray(arr)
    return {"shape": list(a.shape), "cells": [None if isfill(v) else (float(v) if a.dtype.kind == "f" else int(v))
                                              for v in a.reshape(-1)], "dtype": a.dtype.kind}


def observe(xm, spec, arr_item=False):
    o = {"ids": xm.id.tolist(), "size": int(xm.size)}
    o["shape"] = guard(lambda: list(xm.shape))
    o["x"] = frac(xm.x)
    o["y"] = frac(xm.y)
    o["pid"] = xm.phase_id.tolist()
    o["rot"] = xm.rotations.data.reshape(len(o["ids"]), -1).tolist() if o["ids"] else []
    o["p"] = xm.prop["p"].tolist() if "p" in spec["props"] else None
    o["q"] = xm.prop["q"].tolist() if "q" in spec["props"] else None
    o["row"] = guard(lambda: xm.row.tolist())
    o["col"] = guard(lambda: xm.col.tolist())
    if "p" in spec["props"]:
        o["gp"] = guard(lambda: grid_obs(xm.get_map_data("p"), lambda v: v != v))
    else:
        o["gp"] = None
    if "q" in spec["props"]:
        o["gq"] = guard(lambda: grid_obs(xm.get_map_data("q", fill_value=-7), lambda v: v == -7))
    else:
        o["gq"] = None
    o["ga"] = None
    if arr_item:
        item = np.array([1000.5 + 2 * i for i in range(len(o["ids"]))])
        o["ga"] = {"item": item.tolist(), "res": guard(lambda: grid_obs(xm.get_map_data(item), lambda v: v != v))}
    return o


# --------------------------------------------------------------- reference
class Ref:
    """independent model: the original grid + the ascending list of selected ids"""

    def __init__(self, spec, x, y, rot=None):
        self.spec = spec
        k = spec["kind"]
        self.nr, self.nc = spec["nr"], spec["nc"]
        n = self.nr * self.nc
        self.n = n
        self.R, self.C = np.divmod(np.arange(n), self.nc)
        # which grid axes exist as map axes
        self.axes = [a for a, ln in (("r", self.nr), ("c", self.nc)) if ln > 1]
        self.x, self.y = x, y
        self.pid = np.array(spec["pid"])
        self.rot = np.array(spec["rot"]).reshape(n, -1) if rot is None else rot
        self.p = np.array(spec["p"])
        self.q = np.array(spec["q"])
        self.ids = np.arange(n) if spec["ind"] is None else np.flatnonzero(np.array(spec["ind"]))
        present = sorted(set(int(i) for i in self.pid))
        self.names = {i: nm for i, nm in PHASES if i in present}
        if spec.get("bare"):           # default phase list: one phase with an empty name
            self.names = {}

    def axis_vals(self, a):
        return (self.R if a == "r" else self.C)[self.ids]

    def bbox(self):
        return [(int(self.axis_vals(a).min()), int(self.axis_vals(a).max()) + 1) for a in self.axes]

    def grid(self, vals, fill=np.nan, dtype=float):
        """per-point values (k,) or (k, m) of the selected points placed at their bounding-box relative
        (row, col), the fill value elsewhere"""
        bb = self.bbox()
        vals = np.asarray(vals)
        out = np.full(tuple(hi - lo for lo, hi in bb) + vals.shape[1:], fill, dtype=dtype)
        rel = tuple(self.axis_vals(a) - lo for a, (lo, hi) in zip(self.axes, bb))
        if rel:
            out[rel] = vals
        else:
            out[...] = vals[0]
        return out

    def is_rect(self):
        return self.ids.size == int(np.prod([hi - lo for lo, hi in self.bbox()])) if self.ids.size else True

    def apply(self, op):
        """-> new ids, or an exception class name the reference itself demands"""
        ids = self.ids
        if "mask" in op:
            m = np.array(op["mask"], dtype=bool)
            if m.size != ids.size:
                return "reject"
            return ids[m]
        if "phase" in op:
            keep = np.zeros(ids.size, bool)
            for k in op["phase"]:
                for i, nm in self.names.items():
                    if nm == k:
                        keep |= self.pid[ids] == i
                if k.lower() == "indexed":
                    keep |= self.pid[ids] != -1
            return ids[keep]
        ks = op["sel"]
        if ids.size == 0 or len(ks) > len(self.axes):
            return "reject"
        keep = np.ones(ids.size, bool)
        for a, (lo, hi), k in zip(self.axes, self.bbox(), ks):
            ln = hi - lo
            if "int" in k:
                if not -ln <= k["int"] < ln:
                    return "reject"
                sel = np.array([np.arange(ln)[k["int"]]])
            else:
                if k["sl"][2] == 0:
                    return "reject"
                sel = np.arange(ln)[slice(*k["sl"])]
            keep &= np.isin(self.axis_vals(a) - lo, sel)
        return ids[keep]


def stratum(spec, ref):
    n = spec["nr"] * spec["nc"]
    if n == 1:
        return "single-point"
    offs = []
    if spec["nc"] > 1:
        offs.append(spec["ox"] / spec["dx"])
    if spec["nr"] > 1:
        offs.append(spec["oy"] / spec["dy"])
    if any(abs(o) % 1.0 == 0.5 for o in offs):
        return "origin-half-step"
    if any(abs(o) > 0.5 for o in offs):
        return "origin-offset"
    return "plain"


def check_extra(xm, ref, spec, strat, rep):
    """secondary per-point accessors, get_map_data items other than properties and its keyword paths on one
    non-empty state (audit strata: signatures <site>:<stratum> with the sites below)"""
    ids = ref.ids
    k = ids.size
    pid = ref.pid[ids]
    rpp = spec["rpp"]
    shape = tuple(hi - lo for lo, hi in ref.bbox())

    def bad(site, what):
        fail(f"{site}:{strat}", what, rep)

    def attempt(site, f):
        try:
            return f()
        except Exception as e:  # noqa
            bad(site, f"raises {type(e).__name__}: {e}")
            return None

    def same(got, exp):
        got = np.asarray(got)
        return got.shape == exp.shape and np.array_equal(got.astype(float), exp.astype(float), equal_nan=True)

    # ---- per-point accessors derived from the masked arrays
    got = attempt("is_indexed", lambda: xm.is_indexed)
    if got is not None and not np.array_equal(got, pid != -1):
        bad("is_indexed", "is_indexed not aligned with ids")
    got = attempt("is_indexed", lambda: bool(xm.all_indexed))
    if got is not None and got != bool(np.all(pid != -1)):
        bad("is_indexed", "all_indexed differs from all(phase_id != -1) of the selected points")
    # the other access path of each property (check_state reads prop['p'] and the attribute q)
    if "p" in spec["props"]:
        got = attempt("prop-path", lambda: xm.p)
        if got is not None and not np.array_equal(got, ref.p[ids]):
            bad("prop-path", "float property (attribute access) not aligned with ids")
    if "q" in spec["props"]:
        got = attempt("prop-path", lambda: xm.prop["q"])
        if got is not None and not np.array_equal(got, ref.q[ids]):
            bad("prop-path", "int property (item access) not aligned with ids")
    if spec.get("xprops"):
        for name, full in xprops(spec).items():
            got = attempt("prop-dtype", lambda: xm.prop[name] if name != "f" else getattr(xm, name))
            if got is not None and not (got.dtype == full.dtype and np.array_equal(got, full[ids])):
                bad("prop-dtype", f"property '{name}' (dtype {full.dtype}, shape {full.shape[1:]} per point) not "
                                  f"aligned with ids")
    got = attempt("rotations_shape", lambda: (int(xm.rotations_per_point), tuple(xm.rotations_shape)))
    if got is not None and got != (rpp, tuple(i for i in shape + (rpp,) if i != 1)):
        bad("rotations_shape", f"(rotations_per_point, rotations_shape) = {got}, expected {rpp} and the bounding "
                               f"box {shape} + ({rpp},) without 1-dimensions")
    got = attempt("phases_in_data", lambda: [int(i) for i in xm.phases_in_data.ids])
    if got is not None and got != sorted(set(int(i) for i in pid)):
        bad("phases_in_data", f"phases_in_data has ids {got}, the selected points have {sorted(set(pid.tolist()))}")
    # ---- 2-D output arrays of attributes that are not properties
    items = [("phase_id", pid), ("id", ids), ("is_indexed", pid != -1)]
    if ref.x is not None and spec["nc"] > 1:
        items.append(("x", ref.x[ids]))
    if ref.y is not None and spec["nr"] > 1:
        items.append(("y", ref.y[ids]))
    for name, vals in items:
        got = attempt("get_map_data-attr", lambda: xm.get_map_data(name))
        if got is not None and not same(got, ref.grid(vals)):
            bad("get_map_data-attr", f"get_map_data('{name}') does not place the values of the selected points at "
                                     f"(row, col) with nan elsewhere")
    first = ref.rot[ids].reshape(k, rpp, 4)[:, 0]
    eul = Rotation(first).to_euler()
    got = attempt("get_map_data-rotations", lambda: xm.get_map_data("rotations"))
    if got is not None:
        exp = ref.grid(eul)
        if got.shape != exp.shape or not np.allclose(got, exp, rtol=0, atol=1e-9, equal_nan=True):
            bad("get_map_data-rotations", f"get_map_data('rotations') shape {got.shape}: the Euler angles of the first "
                                          f"rotation of each point are not at (row, col) in shape {exp.shape}")
    # ---- keyword paths: decimals=, fill_value=None, default fill value for an integer property
    if "p" in spec["props"]:
        got = attempt("get_map_data-kw", lambda: xm.get_map_data("p", decimals=1, fill_value=None))
        if got is not None and not same(got, np.round(ref.grid(ref.p[ids]), 1)):
            bad("get_map_data-kw", "get_map_data('p', decimals=1, fill_value=None) is not the rounded placement")
    if "q" in spec["props"]:
        got = attempt("get_map_data-kw", lambda: xm.get_map_data("q"))
        if got is not None and not same(got, ref.grid(ref.q[ids])):
            bad("get_map_data-kw", "get_map_data('q') with the default fill value is not the placement with nan")
        got = attempt("get_map_data-kw", lambda: xm.get_map_data("q", fill_value=None, decimals=0))
        if got is not None and not same(got, ref.grid(ref.q[ids])):
            bad("get_map_data-kw", "get_map_data('q', fill_value=None, decimals=0) is not the placement with nan")
    # ---- orientations (phases with point groups)
    if spec.get("pg"):
        present = sorted(set(int(i) for i in pid))
        if len(present) > 1:
            try:
                xm.orientations
                bad("orientations", f"orientations of a selection with phases {present} does not raise")
            except ValueError:
                pass
            except Exception as e:  # noqa
                bad("orientations", f"orientations of a selection with phases {present} raises {type(e).__name__}")
        elif present[0] >= 0:
            got = attempt("orientations", lambda: xm.orientations)
            if got is not None:
                if got.symmetry.name != PG[present[0]]:
                    bad("orientations", f"orientations carry the symmetry {got.symmetry.name}, the selected points "
                                        f"have phase {present[0]} with point group {PG[present[0]]}")
                if got.shape != (k,) or not np.allclose(got.data, first, rtol=0, atol=1e-12):
                    bad("orientations", "orientations are not the (first) rotations of the selected points")
        if -1 not in present:
            got = attempt("get_map_data-orientations", lambda: xm.get_map_data("orientations"))
            if got is not None:
                exp = ref.grid(eul)
                if got.shape != exp.shape or not np.allclose(got, exp, rtol=0, atol=1e-9, equal_nan=True):
                    bad("get_map_data-orientations", "get_map_data('orientations') does not place the Euler angles "
                                                     "of each point at (row, col)")


def check_state(xm, ref, spec, strat, site_prefix, rep):
    """the property clauses on one state; returns False only when the ids differ
    (then the rest of the history cannot be compared)"""
    ids = ref.ids
    ok = True

    def bad(site, what):
        nonlocal ok
        ok = False
        fail(f"{site}:{strat}", what, rep)

    if not np.array_equal(xm.id, ids):
        bad(site_prefix, f"selected ids {xm.id.tolist()} != reference {ids.tolist()}")
        return False
    if xm.size != ids.size:
        bad("size", "size differs from the number of ids")
    if ids.size == 0:
        return True
    if not np.array_equal(xm.phase_id, ref.pid[ids]):
        bad("phase_id", "phase_id not aligned with ids")
    # (Rotation.__getitem__ re-normalises, so the last bit may differ)
    if not np.allclose(xm.rotations.data.reshape(ids.size, -1), ref.rot[ids].reshape(ids.size, -1), rtol=0, atol=1e-12):
        bad("rotations", "rotations not aligned with ids")
    if ref.x is not None and spec["nc"] > 1 and not np.array_equal(xm.x, ref.x[ids]):
        bad("x", "x not aligned with ids")
    if ref.y is not None and spec["nr"] > 1 and not np.array_equal(xm.y, ref.y[ids]):
        bad("y", "y not aligned with ids")
    if "p" in spec["props"] and not np.array_equal(xm.prop["p"], ref.p[ids]):
        bad("prop", "float property not aligned with ids")
    if "q" in spec["props"] and not np.array_equal(xm.q, ref.q[ids]):
        bad("prop", "int property (attribute access) not aligned with ids")
    bb = ref.bbox()
    exp_shape = tuple(hi - lo for lo, hi in bb)
    try:
        shp = tuple(xm.shape)
    except Exception as e:  # noqa
        shp = type(e).__name__
    if shp != exp_shape:
        bad("shape", f"shape {shp} != bounding box {exp_shape}")
    # row / col
    r0 = ref.R[ids].min()
    c0 = ref.C[ids].min()
    try:
        row, col = xm.row, xm.col
        if not (np.array_equal(row, ref.R[ids] - r0) and np.array_equal(col, ref.C[ids] - c0)):
            bad("row-col", "row/col are not the bounding-box relative grid indices")
    except Exception as e:  # noqa
        bad("row-col", f"row/col raise {type(e).__name__}")
    # 2-D output arrays
    rel = tuple((ref.R if a == "r" else ref.C)[ids] - lo for a, (lo, hi) in zip(ref.axes, bb))
    for name, arr, fill, isfill in (("p", ref.p, np.nan, lambda v: v != v), ("q", ref.q, -7, lambda v: v == -7)):
        if name not in spec["props"]:
            continue
        exp = np.full(exp_shape, fill, dtype=float if name == "p" else np.int64)
        if rel:
            exp[rel] = arr[ids]
        else:
            exp[...] = arr[ids][0]
        try:
            got = xm.get_map_data(name, fill_value=fill)
            if got.shape != exp.shape or not np.array_equal(got, exp, equal_nan=True):
                bad("get_map_data", f"get_map_data('{name}') shape {got.shape} does not place values at (row, col) "
                                    f"with the fill value elsewhere (expected shape {exp.shape})")
        except Exception as e:  # noqa
            bad("get_map_data", f"get_map_data('{name}') raises {type(e).__name__}")
    # array item
    item = np.array([1000.5 + 2 * i for i in range(ids.size)])
    exp = np.full(exp_shape, np.nan)
    if rel:
        exp[rel] = item
    else:
        exp[...] = item[0]
    s2 = "three-points" if (ids.size == 3 and ref.n > 3 and strat == "plain") else strat
    try:
        got = xm.get_map_data(item)
        if got.shape != exp.shape or not np.array_equal(got, exp, equal_nan=True):
            ok = False
            fail(f"get_map_data-array:{s2}", f"get_map_data(ndarray of {ids.size} values) returns shape {got.shape}, "
                                             f"expected the values at (row, col) in shape {exp.shape}", rep)
    except Exception as e:  # noqa
        ok = False
        fail(f"get_map_data-array:{s2}", f"get_map_data(ndarray) raises {type(e).__name__}", rep)
    # 2-D item with one RGB triple per point (maps of more than 3 points): a trailing axis of length 3
    if ref.n > 3:
        rgb = np.array([[0.25 * i, 1.0 + i, 7.0 - i] for i in range(ids.size)])
        exp = np.full(exp_shape + (3,), np.nan)
        exp[rel] = rgb
        try:
            got = xm.get_map_data(rgb)
            if got.shape != exp.shape or not np.array_equal(got, exp, equal_nan=True):
                ok = False
                fail(f"get_map_data-rgb:{strat}", f"get_map_data(ndarray of shape {rgb.shape}) returns shape "
                                                  f"{got.shape}, expected one RGB triple per (row, col) in shape "
                                                  f"{exp.shape}", rep)
        except Exception as e:  # noqa
            ok = False
            fail(f"get_map_data-rgb:{strat}", f"get_map_data(ndarray of shape {rgb.shape}) raises "
                                              f"{type(e).__name__}", rep)
    check_extra(xm, ref, spec, strat, rep)
    return True


def run_case(spec, ops, tag, record=True, full_obs=True):
    """one history on one map: observations for Coq + oracle"""
    xm, x, y, rotdata = build(spec)
    ref = Ref(spec, x, y, rotdata)
    strat = stratum(spec, ref)
    rep = {"spec": spec, "ops": ops, "tag": tag}
    case = {"spec": spec, "tag": tag, "x": frac(x), "y": frac(y), "oshape": list(xm._original_shape),
            "phases": [[int(i), p.name] for i, p in xm.phases], "rot": rotdata.tolist(),
            "init": observe(xm, spec, arr_item=full_obs),
            "steps": [], "strat": strat}
    st(f"map/{spec['kind']}/{strat}")
    st(f"rpp={spec['rpp']}/props={'+'.join(spec['props']) or 'none'}")
    src_before = observe(xm, spec)
    oracle_alive = check_state(xm, ref, spec, strat, "init", rep)
    cur = xm
    for i, op in enumerate(ops):
        kind = "sel" if "sel" in op else ("mask" if "mask" in op else "phase")
        key = to_key(op)
        before = cur.id.copy()
        try:
            new = cur[key]
            exc = None
        except Exception as e:  # noqa
            new, exc = None, ERR.get(type(e), "Other:" + type(e).__name__)
        rect = ref.is_rect()
        st(f"op/{kind}/{'rect' if rect else 'nonrect'}")
        # ---------------- oracle
        if oracle_alive:
            want = ref.apply(op)
            site = {"sel": "getitem-slice", "mask": "getitem-mask", "phase": "getitem-phase"}[kind]
            s2 = strat
            if kind == "sel" and strat == "plain" and not rect:
                s2 = "nonrect"
            if kind == "sel" and op.get("np"):     # integers given as NumPy scalars: own site, stratum = key form
                site, s2 = "getitem-npint", op["npform"]
            if isinstance(want, str):          # reference rejects the key: implementation may do anything but corrupt
                oracle_alive = False
            elif exc is not None:
                fail(f"{site}:{s2}", f"{kind} selection raises {exc} although the reference selects "
                                     f"{want.tolist()} from ids {ref.ids.tolist()}", dict(rep, at=i))
                oracle_alive = False
            else:
                if not set(new.id.tolist()) <= set(before.tolist()):
                    extra = sorted(set(new.id.tolist()) - set(before.tolist()))
                    fail(f"{site}:{s2}", f"selection contains points {extra} that are absent from the map being "
                                         f"indexed (ids {before.tolist()})", dict(rep, at=i))
                    oracle_alive = False
                ref.ids = want
                if oracle_alive:
                    if site == "getitem-npint":
                        if not np.array_equal(new.id, ref.ids):
                            fail(f"{site}:{s2}", f"key {key!r} selects ids {new.id.tolist()}, the same key with "
                                                 f"Python integers selects {ref.ids.tolist()}", dict(rep, at=i))
                            oracle_alive = False
                        else:
                            oracle_alive = check_state(new, ref, spec, strat, "getitem-slice", dict(rep, at=i))
                    elif s2 == "nonrect":
                        oracle_alive = _check_nonrect(new, ref, spec, site, dict(rep, at=i))
                    else:
                        oracle_alive = check_state(new, ref, spec, strat, site, dict(rep, at=i))
                if not np.array_equal(cur.id, before):
                    fail(f"source-changed:{strat}", "the map being indexed changed", dict(rep, at=i))
        # ---------------- record
        if exc is not None:
            case["steps"].append({"op": op, "err": exc})
            break
        case["steps"].append({"op": op, "obs": observe(new, spec, arr_item=full_obs)})
        cur = new
        if cur.size == 0 and R.random() < 0.5:
            break
    after = observe(xm, spec)
    if after != src_before:
        fail(f"source-changed:{strat}", "accessors of the source map differ after the history", rep)
    if record:
        cases.append(case)
    return case


def _check_nonrect(new, ref, spec, site, rep):
    """a slice applied to a non-rectangular selection (the stratum of the repaired
    mask-then-slice defect, signature kept): ids first, remaining clauses are only
    meaningful when ids agree"""
    if not np.array_equal(new.id, ref.ids):
        fail(f"{site}:nonrect", f"slice of a non-rectangular selection gives ids {new.id.tolist()}, reference "
                                f"{ref.ids.tolist()} (masked-out points are re-included)", rep)
        return False
    return check_state(new, ref, spec, "plain", site, rep)


# --------------------------------------------------------------- regressions
# The concrete histories on which the unrepaired code violated the property (the
# former _refuted theorems; now the _nonvacuous regression instances of
# Props/C11.v).  They are run first on every check; `sig` is the signature the
# oracle emits if the defect comes back (it is then a VIOLATION: the entries
# of known_findings.d/C11.json with these signatures are of kind "fixed").
def base_spec(kind, nr, nc, ox, oy, dx, dy):
    n = nr * nc
    return {"kind": kind, "nr": nr, "nc": nc, "ox": ox, "oy": oy, "dx": dx, "dy": dy, "origin": "w", "step": "w",
            "pid": [(p % 3) - 1 for p in range(n)], "rpp": 1,
            "rot": np.tile([1.0, 0, 0, 0], n).tolist(), "props": ["p", "q"],
            "p": [3.0 * p for p in range(n)], "q": list(range(n)), "ind": None}


FULL = {"sl": [None, None, None]}
WITNESSES = [
    ("mask_then_slice", base_spec("2d", 3, 4, 0.0, 0.0, 0.7, 1.5),
     [{"mask": [p != 5 for p in range(12)]}, {"sel": [FULL, FULL]}], "getitem-slice:nonrect"),
    ("stride_then_slice", base_spec("2d", 3, 4, 0.0, 0.0, 0.7, 1.5),
     [{"sel": [{"sl": [None, None, 2]}]}, {"sel": [FULL]}], "getitem-slice:nonrect"),
    ("origin_raises", base_spec("2d", 3, 4, 1.4, 0.0, 0.7, 1.5),
     [{"sel": [{"sl": [0, 2, None]}, {"sl": [0, 2, None]}]}], "getitem-slice:origin-offset"),
    ("origin_silent", base_spec("1dx", 1, 10, 3.0, 0.0, 1.0, 1.0),
     [{"mask": [p == 0 for p in range(10)]}, {"sel": [FULL]}], "getitem-slice:origin-offset"),
    ("origin_map_data", base_spec("1dx", 1, 10, 3.0, 0.0, 1.0, 1.0), [], "get_map_data:origin-offset"),
    ("half_step", base_spec("1dx", 1, 10, 0.5, 0.0, 1.0, 1.0),
     [{"sel": [{"sl": [1, 2, None]}]}], "shape:origin-half-step"),
    ("array3", base_spec("2d", 3, 4, 0.0, 0.0, 0.7, 1.5),
     [{"mask": [p in (1, 5, 6) for p in range(12)]}], "get_map_data-array:three-points"),
    ("single_point", base_spec("1dx", 1, 1, 0.0, 0.0, 1.0, 1.0), [{"sel": [{"int": 0}]}],
     "get_map_data:single-point"),
    ("single_point_mask", base_spec("1dx", 1, 1, 2.0, 0.0, 1.0, 1.0),
     [{"mask": [True]}, {"phase": ["not_indexed"]}, {"mask": [False]}], "row-col:single-point"),
    ("nonrect_offset_history", base_spec("2d", 3, 4, 1.4, 0.0, 0.7, 1.5),
     [{"mask": [p != 5 for p in range(12)]}, {"sel": [FULL, FULL]}, {"sel": [{"sl": [None, None, 2]}]},
      {"sel": [FULL, {"sl": [1, 4, None]}]}, {"phase": ["indexed"]}], "getitem-slice:origin-offset"),
]


# ------------------------------------------------------------ history generator
def gen_ops(spec, nops=None, valid=False):
    """ops generated adaptively from the reference state (sizes / shapes of the current selection);
    valid=True: drop a key the reference rejects and stop before an empty selection.
    -> (ops, reference after the ops that the reference accepts)"""
    if nops is None:
        nops = R.choice([1, 2, 2, 3, 3, 4, 5, 6])
    ops = []
    ref = Ref(spec, *coords(spec))
    for _ in range(nops):
        size = ref.ids.size
        shape = [hi - lo for lo, hi in ref.bbox()] if size else None
        op = rand_op(size, shape)
        if shape == []:                          # single point: no axis to index
            op = {"sel": [rand_key1(1)]} if R.random() < 0.25 else rand_op(size, None)
        want = ref.apply(op)
        if valid and (isinstance(want, str) or want.size == 0):
            continue
        ops.append(op)
        if isinstance(want, str):
            break
        ref.ids = want
        if want.size == 0:
            if R.random() < 0.6:
                break
    return ops, ref


# ---------------------------------------------------------------- audit strata
# Entry points / input classes / histories the random histories above never reach.  Every stratum calls the real
# implementation and compares with the reference `Ref`; the variant is carried by the spec (cdtype, via, consty,
# bare, pg, xprops), by the op (np, form) or by rep["extra"] (a history shape of its own, replayed by EXTRA[...]).
def _apply_ops(spec, ops, strat, rep, site="prefix"):
    """build the map and apply `ops` (all accepted by the reference) -> (root, cur, ref) or None"""
    xm, x, y, rotdata = build(spec)
    ref = Ref(spec, x, y, rotdata)
    cur = xm
    for i, op in enumerate(ops):
        want = ref.apply(op)
        if isinstance(want, str):
            return None
        try:
            cur = cur[to_key(dict(op, form="tuple") if "sel" in op else op)]
        except Exception as e:  # noqa
            fail(f"{site}:{strat}", f"selection {op} raises {type(e).__name__}", dict(rep, at=i))
            return None
        ref.ids = want
        if not np.array_equal(cur.id, ref.ids):
            fail(f"{site}:{strat}", f"selected ids {cur.id.tolist()} != reference {ref.ids.tolist()}", dict(rep, at=i))
            return None
    return xm, cur, ref


def _fork(ref, op):
    r2 = Ref(ref.spec, ref.x, ref.y, ref.rot)
    r2.ids = ref.ids.copy()
    want = r2.apply(op)
    if isinstance(want, str):
        return None
    r2.ids = want
    return r2


def extra_branch(spec, ops, tag):
    """two selections a = parent[k1], b = parent[k2] of the same parent (the last two ops), observed
    interleaved: the shared property dictionary must be re-synchronised whichever map was read last"""
    rep = {"spec": spec, "ops": ops, "tag": tag, "extra": "branch"}
    st("x/branch")
    got = _apply_ops(spec, ops[:-2], "branch", rep)
    if got is None:
        return
    root, parent, rp = got
    ra, rb = _fork(rp, ops[-2]), _fork(rp, ops[-1])
    if ra is None or rb is None:
        return
    rroot = Ref(spec, rp.x, rp.y, rp.rot)
    try:
        a = parent[to_key(dict(ops[-2], form="tuple") if "sel" in ops[-2] else ops[-2])]
        pa = a.prop                                # a held reference, then the sibling is created and read
        b = parent[to_key(dict(ops[-1], form="tuple") if "sel" in ops[-1] else ops[-1])]
        pb = b.prop
    except Exception as e:  # noqa
        fail("getitem:branch", f"sibling selection raises {type(e).__name__}", rep)
        return
    for nm, m, r in (("b", b, rb), ("a", a, ra), ("parent", parent, rp), ("b", b, rb), ("root", root, rroot),
                     ("a", a, ra)):
        # a property is read through another map first; the next read of m -- by attribute, by get_map_data
        # and (in check_state) by item -- must see the points of m whatever was read last
        other = b if m is a else a
        for name, full in (("p", r.p), ("q", r.q)):
            if name not in spec["props"]:
                continue
            other.prop[name]
            try:
                got = getattr(m, name)
                if not np.array_equal(got, full[r.ids]):
                    fail("prop-path:branch", f"attribute '{name}' of map {nm} read after the same property of a "
                                             f"sibling selection is not aligned with the ids of {nm}", rep)
                    return
                other.prop[name]
                if r.ids.size:
                    got = m.get_map_data(name, fill_value=-7)
                    if not np.array_equal(got, r.grid(full[r.ids], fill=-7, dtype=full.dtype)):
                        fail("get_map_data:branch", f"get_map_data('{name}') of map {nm} called after the same "
                                                    f"property of a sibling selection was read is misplaced", rep)
                        return
            except Exception as e:  # noqa
                fail("prop-path:branch", f"reading '{name}' of map {nm} after a sibling's raises {type(e).__name__}", rep)
                return
        if not check_state(m, r, spec, "branch", f"getitem-{nm}", rep):
            return
    del pa, pb


def extra_deepcopy(spec, ops, tag):
    """deepcopy() in the history: after every selection (and a property read through it) the selection and the
    source are deep-copied; the copies must be equal to the reference state and the history continues on the
    copy; writing into the copy must not reach the source"""
    rep = {"spec": spec, "ops": ops, "tag": tag, "extra": "deepcopy"}
    st("x/deepcopy")
    xm, x, y, rotdata = build(spec)
    ref = Ref(spec, x, y, rotdata)
    rroot = Ref(spec, x, y, rotdata)
    cur = xm
    for i, op in enumerate(ops):
        want = ref.apply(op)
        if isinstance(want, str):
            return
        try:
            cur = cur[to_key(dict(op, form="tuple") if "sel" in op else op)]
        except Exception as e:  # noqa
            fail("getitem:deepcopy", f"selection {op} on a deep copy raises {type(e).__name__}", dict(rep, at=i))
            return
        ref.ids = want
        if not check_state(cur, ref, spec, "deepcopy", "getitem", dict(rep, at=i)):
            return
        if "p" in spec["props"]:
            cur.prop["p"]                          # the shared property dictionary now carries the selection's mask
        d = dsrc = None
        try:
            d = cur.deepcopy()
        except Exception as e:  # noqa
            fail("deepcopy:selection", f"deepcopy() of a selection (ids {ref.ids.tolist()}) raises "
                                       f"{type(e).__name__}: {e}", dict(rep, at=i))
        if "p" in spec["props"]:
            cur.prop["p"]
        try:
            dsrc = xm.deepcopy()
        except Exception as e:  # noqa
            fail("deepcopy:source", f"deepcopy() of the source map raises {type(e).__name__} after a property of "
                                    f"its selection (ids {ref.ids.tolist()}) was read: {e}", dict(rep, at=i))
        if d is None or dsrc is None:
            return
        if not (check_state(d, ref, spec, "deepcopy", "copy", dict(rep, at=i))
                and check_state(dsrc, rroot, spec, "deepcopy", "copy-source", dict(rep, at=i))):
            return
        if ref.ids.size and "p" in spec["props"]:
            d.prop["p"] = np.full(ref.ids.size, -1234.5)     # write into the copy ...
            if not np.array_equal(xm.prop["p"], rroot.p[rroot.ids]) or not np.array_equal(cur.prop["p"],
                                                                                          rroot.p[ref.ids]):
                fail("deepcopy:shared", "writing a property of a deep copy changed the source", dict(rep, at=i))
                return
            d.prop["p"] = rroot.p[ref.ids]
        if ref.ids.size:                                     # ... and in place (the phase_id setter)
            d.phase_id = ref.pid[ref.ids][::-1]
            if not np.array_equal(xm.phase_id, rroot.pid[rroot.ids]) or not np.array_equal(cur.phase_id,
                                                                                           ref.pid[ref.ids]):
                fail("deepcopy:shared", "writing phase ids of a deep copy changed the source", dict(rep, at=i))
                return
            d.phase_id = ref.pid[ref.ids]
        cur = d
        if ref.ids.size == 0:
            return


PROPSET_MODES = ["existing-item", "existing-attr", "new-item", "scalar", "float-into-int", "then-select"]


def extra_propset(spec, ops, tag, mode):
    """writing a property through a selection (CrystalMapProperties.__setitem__ applies the same mask): the
    values land at the selected original points, everything else is unchanged, later selections stay aligned"""
    rep = {"spec": spec, "ops": ops, "tag": tag, "extra": "propset:" + mode}
    st("x/propset/" + mode)
    got = _apply_ops(spec, ops, "propset", rep)
    if got is None:
        return
    root, cur, ref = got
    ids = ref.ids
    k, n = ids.size, ref.n
    if k == 0:
        return
    rroot = Ref(spec, ref.x, ref.y, ref.rot)
    rroot.p, rroot.q = ref.p, ref.q                # the two references share the (updated) property arrays
    newf = np.array([-500.25 - 3 * i for i in range(k)])
    newi = np.array([7000 + 11 * i for i in range(k)])
    extra = None
    try:
        if mode in ("existing-item", "then-select"):
            cur.prop["p"] = newf
            ref.p = rroot.p = ref.p.copy(); ref.p[ids] = newf
        elif mode == "existing-attr":
            cur.q = newi
            ref.q = rroot.q = ref.q.copy(); ref.q[ids] = newi
        elif mode == "new-item":
            cur.prop["w"] = newi
            extra = np.zeros(n, dtype=newi.dtype); extra[ids] = newi
        elif mode == "scalar":
            cur.prop["p"] = 7.5
            ref.p = rroot.p = ref.p.copy(); ref.p[ids] = 7.5
        elif mode == "float-into-int":
            cur.prop["q"] = newf
            ref.q = rroot.q = ref.q.astype(float); ref.q[ids] = newf
    except Exception as e:  # noqa
        fail(f"prop-set:{mode}", f"setting a property through a selection (ids {ids.tolist()}) raises "
                                 f"{type(e).__name__}: {e}", rep)
        return
    spec2 = spec
    if mode == "float-into-int":                   # q is a float property now: check_state builds an int grid
        spec2 = dict(spec, props=["p"])
        for m, r in ((cur, ref), (root, rroot)):
            if not np.array_equal(m.q, r.q[r.ids]):
                fail(f"prop-set:{mode}", "float values written into an int property through a selection are not at "
                                         "the selected points / other points changed", rep)
                return
    if extra is not None:
        for m, r in ((cur, ref), (root, rroot)):
            try:
                if not np.array_equal(m.prop["w"], extra[r.ids]) or not np.array_equal(m.w, extra[r.ids]):
                    fail(f"prop-set:{mode}", "a property added through a selection is not zero outside / the given "
                                             "values at the selected points", rep)
                    return
            except Exception as e:  # noqa
                fail(f"prop-set:{mode}", f"reading the added property raises {type(e).__name__}", rep)
                return
    if not (check_state(cur, ref, spec2, "propset", "after-set", rep)
            and check_state(root, rroot, spec2, "propset", "after-set-source", rep)):
        return
    if mode == "then-select":                      # one more selection after the write
        m = np.array([(i % 3) != 1 for i in range(k)])
        sub = cur[m]
        ref.ids = ids[m]
        check_state(sub, ref, spec2, "propset", "select-after-set", rep)


def extra_plot(spec, ops, tag):
    """the plotting wrapper: CrystalMap.plot() / CrystalMapPlot.plot_map() of a selection; the image array is
    the 2-D output array (property: placement at (row, col); phase map: colour of each point's phase, white fill)"""
    rep = {"spec": spec, "ops": ops, "tag": tag, "extra": "plot"}
    st("x/plot")
    import matplotlib
    matplotlib.use("Agg")
    import matplotlib.pyplot as plt
    got = _apply_ops(spec, ops, "plot", rep)
    if got is None:
        return
    root, cur, ref = got
    ids = ref.ids
    shape = tuple(hi - lo for lo, hi in ref.bbox())
    if len(shape) != 2 or min(shape) < 2:          # imshow needs a 2-D image (thin selections are squeezed to 1-D)
        return
    fig = None
    try:
        fig = cur.plot("p", return_figure=True, scalebar=False)
        img = np.asarray(fig.axes[0].images[0].get_array(), dtype=float)
        plt.close(fig)
        exp = ref.grid(ref.p[ids])
        if img.shape != exp.shape or not np.array_equal(img, exp, equal_nan=True):
            fail("plot:value", f"plot('p') of a selection shows an image of shape {img.shape} that is not the "
                               f"placement of the property at (row, col) in shape {exp.shape}", rep)
        fig = cur.plot(return_figure=True, scalebar=False, legend=False)
        img = np.asarray(fig.axes[0].images[0].get_array(), dtype=float)
        plt.close(fig)
        col = np.array([cur.phases[int(i)].color_rgb for i in ref.pid[ids]])
        exp = ref.grid(col, fill=1.0)
        if img.shape != exp.shape or not np.allclose(img, exp, rtol=0, atol=1e-12):
            fail("plot:phase", "the phase map of a selection does not show the colour of each point's phase at "
                               "(row, col) and white elsewhere", rep)
        fig = cur.plot(ref.p[ids] * 2, overlay="p", return_figure=True, scalebar=False)
        img = np.asarray(fig.axes[0].images[0].get_array().data, dtype=float)
        plt.close(fig)
        if img.shape != shape + (3,) and img.shape != shape + (4,):
            fail("plot:overlay", f"plot(array, overlay='p') of a selection shows an image of shape {img.shape}, map "
                                 f"shape {shape}", rep)
    except Exception as e:  # noqa
        if fig is not None:
            plt.close(fig)
        fail("plot:raises", f"plotting a selection of shape {shape} raises {type(e).__name__}: {e}", rep)


EXTRA = {"branch": extra_branch, "deepcopy": extra_deepcopy, "plot": extra_plot}
for _m in PROPSET_MODES:
    EXTRA["propset:" + _m] = (lambda spec, ops, tag, _m=_m: extra_propset(spec, ops, tag, _m))


def np_variant(ops, npk, form):
    """the last slice/int op of `ops` with its integers as NumPy scalars, in the given key form"""
    ops = [dict(o) for o in ops]
    op = ops[-1]
    ints = ["int" in k for k in op["sel"]]
    if form == "bare" and not (len(ints) == 1 and ints[0]):
        return None
    if form == "tuple-ints" and not all(ints):
        return None
    if form == "tuple-mixed" and not (any(ints) and not all(ints)):
        return None
    if form == "slice-bounds" and (any(ints) or all(v is None for k in op["sel"] for v in k["sl"])):
        return None
    op.update(np=npk, npform=form, form="bare" if form == "bare" else "tuple")
    return ops


def run_extras():
    origins = ["zero", "within-half", "offset", "half-step"]
    # (1) coordinate / constructor variants run through the full oracle of run_case
    for k in range(36):
        var = ["int", "int-cca", "float-cca", "f32", "consty", "bare"][k % 6]
        kind = ["2d", "1dx", "2d", "1dy", "2d", "1dx"][(k // 6) % 6]
        if var == "consty" or var == "bare":
            kind = "1dx"
        if var.endswith("cca") and kind == "1dy":
            kind = "2d"
        spec = rand_spec(kind=kind, origin="zero" if var.endswith("cca") or var == "bare" else
                         R.choice(["offset", "offset", "zero", "within-half"]))
        if var in ("int", "int-cca"):
            spec["dx"], spec["dy"] = float(R.choice([1, 2, 3, 5])), float(R.choice([1, 2, 3, 5]))
            spec["ox"] = 0.0 if var == "int-cca" else float(R.choice([0, 3, -2, 7]) * spec["dx"] + R.choice([0, 1]))
            spec["oy"] = 0.0 if var == "int-cca" else float(R.choice([0, 3, -2, 7]) * spec["dy"])
            spec["cdtype"] = "int"
        if var.endswith("cca"):
            spec["via"] = "cca"
        if var == "f32":
            spec["cdtype"] = "f32"
        if var == "consty":
            spec["consty"] = True
            spec["oy"] = R.choice([0.0, 2.5, -1.0])
        if var == "bare":
            spec.update(bare=True, cdtype="int", ox=0.0, dx=1.0, pid=[0] * (spec["nr"] * spec["nc"]), props=[],
                        ind=None)
        if spec.get("via") == "cca":               # the helper against the grid it documents: x = col*dx, y = row*dy
            xh, yh = coords(spec)
            xe, ye = coords(dict(spec, via=None))
            if not (np.array_equal(xh, xe) and xh.dtype.kind == xe.dtype.kind and (
                    (yh is None and ye is None) or (yh is not None and ye is not None and np.array_equal(yh, ye)
                                                    and yh.dtype.kind == ye.dtype.kind))):
                fail("coords:cca", f"create_coordinate_arrays gives x={xh.tolist()}, y={None if yh is None else yh.tolist()}"
                                   f" for shape ({spec['nr']}, {spec['nc']}) and steps (dy, dx) = ({spec['dy']}, "
                                   f"{spec['dx']})", {"spec": spec, "ops": [], "tag": f"xcoords{k}:{var}"})
        ops, _ = gen_ops(spec)
        st("x/coords/" + var)
        run_case(spec, ops, f"xcoords{k}:{var}", record=False)
    # (2) x and y origins of DIFFERENT modes (the random maps draw one mode for both axes)
    pairs = [(a, b) for a in origins for b in origins if a != b]
    for k, (mx, my) in enumerate(pairs + pairs):
        spec = rand_spec(kind="2d", origin=mx)
        s2 = rand_spec(kind="2d", origin=my)
        if mx != "zero" and spec["ox"] == 0.0:
            spec["ox"] = {"within-half": 0.25, "offset": 2.0, "half-step": 0.5}[mx] * spec["dx"]
        oy = s2["oy"] if (my == "zero" or s2["oy"] != 0.0) else {"within-half": -0.4, "offset": -3.0,
                                                                  "half-step": 1.5}[my] * s2["dy"]
        spec["oy"], spec["dy"], spec["origin"] = oy, s2["dy"], mx + "/" + my
        ops, _ = gen_ops(spec)
        st(f"x/mixed-origin/{mx}/{my}")
        run_case(spec, ops, f"xmixed{k}", record=False)
    # (3) larger maps (indices up to 40: float rounding of (c - c0)/step further from the origin)
    for k in range(6):
        spec = rand_spec(kind="2d", origin=["offset", "within-half", "half-step"][k % 3], step=["other", "dyadic"][k % 2])
        big = rand_spec(kind="2d", origin="zero")
        nr, nc = R.randint(15, 40), R.randint(15, 40)
        n = nr * nc
        spec.update(nr=nr, nc=nc, pid=[R.choice([-1, 0, 1]) for _ in range(n)], rpp=1,
                    p=[round(R.uniform(-50, 50), 2) + 0.001 * i for i in range(n)], q=[R.randint(0, 900) for _ in range(n)],
                    ind=None, props=["p", "q"])
        rot = np.array([[R.gauss(0, 1) for _ in range(4)] for _ in range(n)])
        spec["rot"] = (rot / np.linalg.norm(rot, axis=1)[:, None]).reshape(-1).tolist()
        del big
        ops, _ = gen_ops(spec, nops=3)
        st("x/large")
        run_case(spec, ops, f"xlarge{k}", record=False)
    # (4) phases with point groups (orientations) and properties of other dtypes / with a trailing axis
    for k in range(40):
        spec = rand_spec()
        spec["pg"] = True
        spec["xprops"] = k % 2 == 0
        if k % 4 == 1:                             # a single indexed phase: orientations of every state
            spec["pid"] = [k % 3] * len(spec["pid"])
        ops, _ = gen_ops(spec)
        st("x/pg" + ("+xprops" if spec["xprops"] else ""))
        run_case(spec, ops, f"xpg{k}", record=False)
    # (5) integers given as NumPy scalars: bare key, tuple of integers, tuple with a slice, slice bounds
    forms = [("int64", "bare"), ("int64", "tuple-ints"), ("int64", "tuple-mixed"), ("int64", "slice-bounds"),
             ("intp", "bare"), ("int32", "tuple-ints"), ("int32", "tuple-mixed"), ("int32", "slice-bounds")]
    done = {f: 0 for f in forms}
    tries = 0
    while min(done.values()) < 4 and tries < 800:
        tries += 1
        npk, form = min(forms, key=lambda f: (done[f], forms.index(f)))
        spec = rand_spec(kind="2d" if form == "tuple-mixed" else R.choice(["2d", "2d", "1dx", "1dy"]))
        ops, ref = gen_ops(spec, nops=R.choice([0, 1, 2]), valid=True)
        if ref.ids.size == 0:
            continue
        shape = [hi - lo for lo, hi in ref.bbox()]
        nd = len(shape)
        if nd == 0 or (form == "tuple-mixed" and nd < 2):
            continue

        def one(i, want_int):
            if want_int:
                return {"int": R.randint(-shape[i], shape[i] - 1)}
            a = R.randint(0, shape[i] - 1)
            return {"sl": [a, R.randint(a + 1, shape[i]), R.choice([None, None, 2])]}
        if form == "bare":
            sel = [one(0, True)]
        elif form == "tuple-ints":
            sel = [one(i, True) for i in range(R.choice([nd, 1]))]
        elif form == "tuple-mixed":
            w = R.randrange(2)
            sel = [one(i, i == w) for i in range(2)]
        else:
            sel = [one(i, False) for i in range(R.choice([nd, 1]))]
        last = {"sel": sel}
        if isinstance(ref.apply(last), str):
            continue
        v = np_variant(ops + [last], npk, form)
        if v is None:
            continue
        done[(npk, form)] += 1
        st(f"x/npint/{form}/{npk}")
        run_case(spec, v, f"xnpint:{form}:{npk}:{done[(npk, form)]}", record=False)
    # (6) histories of another shape: siblings, deepcopy, property writes, the plotting wrapper
    for k in range(24):
        spec = rand_spec()
        ops, ref = gen_ops(spec, nops=R.choice([0, 1, 2]), valid=True)
        sib = []
        for _ in range(2):
            for _try in range(20):
                size = ref.ids.size
                op = rand_op(size, [hi - lo for lo, hi in ref.bbox()] or None)
                w = _fork(ref, op)
                if w is not None and w.ids.size:
                    sib.append(op)
                    break
        if len(sib) == 2:
            extra_branch(spec, ops + sib, f"xbranch{k}")
    for k in range(24):
        spec = rand_spec()
        if k % 3 != 2:
            spec["props"] = ["p", "q"]
        if k % 4 == 0:
            spec["ind"] = None
        ops, _ = gen_ops(spec, nops=R.choice([1, 2, 3]), valid=True)
        if ops:
            extra_deepcopy(spec, ops, f"xdeepcopy{k}")
    for k in range(36):
        spec = rand_spec()
        spec["props"] = ["p", "q"]
        ops, _ = gen_ops(spec, nops=R.choice([1, 1, 2, 3]), valid=True)
        extra_propset(spec, ops, f"xpropset{k}", PROPSET_MODES[k % len(PROPSET_MODES)])
    nplot = 0
    for k in range(80):
        if nplot >= 12:
            break
        spec = rand_spec(kind="2d")
        spec["props"] = ["p", "q"]
        ops, ref = gen_ops(spec, nops=R.choice([1, 2]), valid=True)
        if k % 2 == 0 and ref.ids.size:            # a selection from which the lowest phase id is absent
            present = sorted(set(int(i) for i in ref.pid[ref.ids]))
            if len(present) >= 2:
                op = {"phase": [dict((i, nm) for i, nm in PHASES)[i] for i in present[1:]]}
                w = _fork(ref, op)
                if w is not None and w.ids.size:
                    ops, ref = ops + [op], w
        if ref.ids.size == 0:
            continue
        shape = [hi - lo for lo, hi in ref.bbox()]
        if min(shape) < 2:
            continue
        nplot += 1
        extra_plot(spec, ops, f"xplot{k}")


# --------------------------------------------------------------------- main
if ONLY is not None:
    for c in ONLY:
        if c.get("extra"):
            EXTRA[c["extra"]](c["spec"], c["ops"], c.get("tag", "replay"))
        else:
            run_case(c["spec"], c["ops"], c.get("tag", "replay"))
else:
    for name, spec, ops, sig in WITNESSES:
        n0 = len(fails)
        run_case(spec, ops, "regression:" + name)
        witness_status[name] = {"sig": sig, "passes": len(fails) == n0}
    for k in range(N):
        spec = rand_spec(single=R.random() < 0.04)
        ops, _ = gen_ops(spec)
        run_case(spec, ops, f"rand{k}")
    run_extras()
    if EXH:
        # bounded-exhaustive: small maps x all op sequences up to length 3 over a small alphabet
        for (kind, nr, nc) in [("2d", 2, 2), ("2d", 2, 3), ("2d", 3, 2), ("2d", 3, 3), ("1dx", 1, 3), ("1dx", 1, 4)]:
            spec = base_spec(kind, nr, nc, 0.0, 0.0, 0.7, 1.5)
            n = nr * nc
            spec["pid"] = [(p % 3) - 1 for p in range(n)]
            nd = 2 if kind == "2d" else 1
            alpha = [
                {"sel": [{"sl": [0, 2, None]}] + ([FULL] if nd == 2 else [])},
                {"sel": ([{"sl": [1, None, None]}] * nd)},
                {"sel": ([FULL] if nd == 2 else []) + [{"sl": [None, None, 2]}]},
                {"sel": [{"int": 1}]},
                {"maskpat": "drop2nd"},
                {"phase": ["alpha"]},
                {"phase": ["indexed"]},
            ]
            for L in (1, 2, 3):
                for seq in itertools.product(range(len(alpha)), repeat=L):
                    # resolve mask patterns against the reference size
                    ref = Ref(spec, *coords(spec))
                    ops = []
                    for a in seq:
                        op = alpha[a]
                        if "maskpat" in op:
                            op = {"mask": [i != 1 for i in range(ref.ids.size)]}
                        ops.append(op)
                        want = ref.apply(op)
                        if isinstance(want, str):
                            break
                        ref.ids = want
                    run_case(spec, ops, f"exh:{kind}{nr}x{nc}:{'-'.join(map(str, seq))}", full_obs=False)
                    st("exhaustive")

emit({"cases": cases, "fails": fails, "strata": strata, "witnesses": witness_status})
