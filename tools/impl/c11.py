"""C11 implementation harness: runs selection histories on real CrystalMaps
(/repo working tree), records every observable after every step (for the Coq
correspondence) and checks the property against an independent numpy
reference that tracks the selected original ids (the oracle)."""
import itertools
from fractions import Fraction

import numpy as np
from common import emit, payload, rng

from orix.crystal_map import CrystalMap, PhaseList
from orix.quaternion import Rotation

P = payload()
R = rng(P.get("seed", 0))
N = P.get("n", 200)
EXH = P.get("exhaustive", False)
ONLY = P.get("only")          # replay: list of case specs

cases = []
fails = []
strata = {}
witness_status = {}


def st(k):
    strata[k] = strata.get(k, 0) + 1


def fail(sig, what, rep):
    fails.append({"sig": sig, "what": what, "replay": rep})


# ------------------------------------------------------------------ map specs
STEPS_DYADIC = [1.0, 0.5, 1.5, 2.0, 0.25]
STEPS_OTHER = [0.1, 0.7, 0.35, 1.3, 0.03, 0.15, 0.2]
PHASES = [[-1, "not_indexed"], [0, "alpha"], [1, "beta"], [2, "gamma"]]


def coords(spec):
    """full-size float coordinate arrays (x, y) exactly as a user would build them"""
    kind, nr, nc = spec["kind"], spec["nr"], spec["nc"]
    ox, oy, dx, dy = spec["ox"], spec["oy"], spec["dx"], spec["dy"]
    if kind == "2d":
        r, c = np.indices((nr, nc))
        return ox + c.ravel() * dx, oy + r.ravel() * dy
    if kind == "1dx":
        return ox + np.arange(nc) * dx, None
    if kind == "1dy":          # column map given with a constant x
        return np.full(nr, ox), oy + np.arange(nr) * dy
    if kind == "1dy_nox":      # column map, x = None is not accepted by itself: y only
        return None, oy + np.arange(nr) * dy
    raise ValueError(kind)


def build(spec):
    x, y = coords(spec)
    n = len(x) if x is not None else len(y)
    pid = np.array(spec["pid"], dtype=int)
    rpp = spec["rpp"]
    q = np.array(spec["rot"], dtype=float).reshape((n, 4) if rpp == 1 else (n, rpp, 4))
    ids_present = sorted(set(int(i) for i in pid if i >= 0))
    names = {i: nm for i, nm in PHASES}
    pl = PhaseList(names=[names[i] for i in ids_present], ids=ids_present) if ids_present else None
    prop = {}
    if "p" in spec["props"]:
        prop["p"] = np.array(spec["p"], dtype=float)
    if "q" in spec["props"]:
        prop["q"] = np.array(spec["q"], dtype=np.int64)
    kw = {}
    if spec.get("ind") is not None:
        kw["is_in_data"] = np.array(spec["ind"], dtype=bool)
    xm = CrystalMap(rotations=Rotation(q.copy()), phase_id=pid.copy(), x=None if x is None else x.copy(),
                    y=None if y is None else y.copy(), phase_list=pl, prop=prop, **kw)
    return xm, x, y, Rotation(q.copy()).data.reshape(n, -1)


def rand_spec(kind=None, origin=None, step=None, small=False, single=False):
    kind = kind or R.choice(["2d"] * 6 + ["1dx"] * 2 + ["1dy", "1dy_nox"])
    hi = 4 if small else 7
    nr = R.randint(2, hi) if kind != "1dx" else 1
    nc = R.randint(2, hi + 1) if kind in ("2d", "1dx") else 1
    if kind == "1dx" and not small:
        nc = R.randint(2, 12)
    if single:                         # a map with one point (0-dimensional, shape ())
        kind, nr, nc = "1dx", 1, 1
    step = step or R.choice(["dyadic"] * 2 + ["other"])
    pool = STEPS_DYADIC if step == "dyadic" else STEPS_OTHER
    dx, dy = R.choice(pool), R.choice(pool)
    origin = origin or R.choice(["zero"] * 6 + ["within-half", "offset", "half-step"])
    if origin == "half-step":          # exact ties only with exactly representable arithmetic
        dx, dy = R.choice(STEPS_DYADIC), R.choice(STEPS_DYADIC)

    def orig(d):
        if origin == "zero":
            return 0.0
        if origin == "within-half":
            return R.choice([0.25, -0.25, 0.3, -0.4, 0.125]) * d
        if origin == "half-step":
            return R.choice([0.5, -0.5, 0.5, 1.5]) * d
        return R.choice([1, 2, 3, -1, -2, 5]) * d
    ox, oy = orig(dx), orig(dy)
    if origin in ("offset", "half-step") and kind == "2d" and R.random() < 0.4:
        if R.random() < 0.5:
            ox = 0.0
        else:
            oy = 0.0
    n = nr * nc
    pool_ids = R.choice([[-1, 0, 1], [0, 1], [0], [-1, 0], [-1, 0, 1, 2], [1, 2], [-1]])
    pid = [R.choice(pool_ids) for _ in range(n)]
    rpp = R.choice([1, 1, 3])
    rot = np.round(np.array([[R.gauss(0, 1) for _ in range(4)] for _ in range(n * rpp)]), 3)
    rot = rot / np.linalg.norm(rot, axis=1)[:, None]
    props = R.choice([["p", "q"], ["p", "q"], ["p"], []])
    spec = {"kind": kind, "nr": nr, "nc": nc, "ox": ox, "oy": oy, "dx": dx, "dy": dy,
            "origin": origin, "step": step, "pid": pid, "rpp": rpp, "rot": rot.reshape(-1).tolist(),
            "props": props, "p": [round(R.uniform(-50, 50), 2) + 0.001 * i for i in range(n)],
            "q": [R.randint(0, 900) for _ in range(n)],
            "ind": None}
    if R.random() < 0.12:
        ind = [R.random() < 0.75 for _ in range(n)]
        if not any(ind):
            ind[0] = True
        spec["ind"] = ind
    return spec


# ------------------------------------------------------------------- keys
def rand_key1(n):
    t = R.random()
    if t < 0.22:
        return {"int": R.randint(-n, n - 1)}
    if t < 0.27:
        return {"int": R.choice([n, n + 1, -n - 1])}           # out of bounds
    a = R.choice([None, None] + list(range(-n - 1, n + 2)))
    b = R.choice([None, None] + list(range(-n - 1, n + 2)))
    s = R.choice([None] * 6 + [1, 2, 2, 3, -1, -2])
    if t < 0.6 and n > 0:                                      # plain contiguous non-empty range
        a = R.randint(0, n - 1)
        b = R.randint(a + 1, n)
        s = None
    return {"sl": [a, b, s]}


def rand_op(size, shape):
    t = R.random()
    if t < 0.45 and shape is not None:
        nd = len(shape)
        k = R.choice([nd] * 6 + [max(nd - 1, 1)] * 2 + [nd + 1])
        return {"sel": [rand_key1(shape[i] if i < nd else 3) for i in range(k)]}
    if t < 0.75:
        t2 = R.random()
        if t2 < 0.06:
            return {"mask": [R.random() < 0.5]}                # length-1 broadcast
        if t2 < 0.1:
            return {"mask": [True] * (size + 1)}               # wrong length
        dens = R.choice([0.3, 0.7, 0.7, 0.9])
        m = [R.random() < dens for _ in range(size)]
        if size and not any(m) and R.random() < 0.8:
            m[R.randrange(size)] = True
        return {"mask": m}
    names = R.choice([["alpha"], ["beta"], ["indexed"], ["Indexed"], ["not_indexed"], ["alpha", "beta"],
                      ["gamma"], ["nosuch"], ["not_indexed", "alpha"], ["INDEXED", "not_indexed"]])
    return {"phase": names}


def to_key(op):
    if "sel" in op:
        ks = []
        for k in op["sel"]:
            ks.append(k["int"] if "int" in k else slice(*k["sl"]))
        return ks[0] if len(ks) == 1 and R.random() < 0.5 else tuple(ks)
    if "mask" in op:
        return np.array(op["mask"], dtype=bool)
    names = op["phase"]
    return names[0] if len(names) == 1 else tuple(names)


# ------------------------------------------------------------- observation
ERR = {ValueError: "ValueError", IndexError: "IndexError", TypeError: "TypeError"}


def guard(f):
    try:
        return {"ok": f()}
    except Exception as e:  # noqa
        return {"err": ERR.get(type(e), "Other:" + type(e).__name__)}


def frac(a):
    return None if a is None else [[Fraction(float(v)).numerator, Fraction(float(v)).denominator] for v in a]


def grid_obs(arr, isfill):
    a = np.asarray(arr)
    return {"shape": list(a.shape), "cells": [None if isfill(v) else (float(v) if a.dtype.kind == "f" else int(v))
                                              for v in a.reshape(-1)], "dtype": a.dtype.kind}


def observe(xm, spec, arr_item=False):
    o = {"ids": xm.id.tolist(), "size": int(xm.size)}
    o["shape"] = guard(lambda: list(xm.shape))
    o["x"] = frac(xm.x)
    o["y"] = frac(xm.y)
    o["pid"] = xm.phase_id.tolist()
    o["rot"] = xm.rotations.data.reshape(len(o["ids"]), -1).tolist() if o["ids"] else []
    o["p"] = xm.prop["p"].tolist() if "p" in spec["props"] else None
    o["q"] = xm.prop["q"].tolist() if "q" in spec["props"] else None
    o["row"] = guard(lambda: xm.row.tolist())
    o["col"] = guard(lambda: xm.col.tolist())
    if "p" in spec["props"]:
        o["gp"] = guard(lambda: grid_obs(xm.get_map_data("p"), lambda v: v != v))
    else:
        o["gp"] = None
    if "q" in spec["props"]:
        o["gq"] = guard(lambda: grid_obs(xm.get_map_data("q", fill_value=-7), lambda v: v == -7))
    else:
        o["gq"] = None
    o["ga"] = None
    if arr_item:
        item = np.array([1000.5 + 2 * i for i in range(len(o["ids"]))])
        o["ga"] = {"item": item.tolist(), "res": guard(lambda: grid_obs(xm.get_map_data(item), lambda v: v != v))}
    return o


# --------------------------------------------------------------- reference
class Ref:
    """independent model: the original grid + the ascending list of selected ids"""

    def __init__(self, spec, x, y, rot=None):
        self.spec = spec
        k = spec["kind"]
        self.nr, self.nc = spec["nr"], spec["nc"]
        n = self.nr * self.nc
        self.n = n
        self.R, self.C = np.divmod(np.arange(n), self.nc)
        # which grid axes exist as map axes
        self.axes = [a for a, ln in (("r", self.nr), ("c", self.nc)) if ln > 1]
        self.x, self.y = x, y
        self.pid = np.array(spec["pid"])
        self.rot = np.array(spec["rot"]).reshape(n, -1) if rot is None else rot
        self.p = np.array(spec["p"])
        self.q = np.array(spec["q"])
        self.ids = np.arange(n) if spec["ind"] is None else np.flatnonzero(np.array(spec["ind"]))
        present = sorted(set(int(i) for i in self.pid))
        self.names = {i: nm for i, nm in PHASES if i in present}

    def axis_vals(self, a):
        return (self.R if a == "r" else self.C)[self.ids]

    def bbox(self):
        return [(int(self.axis_vals(a).min()), int(self.axis_vals(a).max()) + 1) for a in self.axes]

    def is_rect(self):
        return self.ids.size == int(np.prod([hi - lo for lo, hi in self.bbox()])) if self.ids.size else True

    def apply(self, op):
        """-> new ids, or an exception class name the reference itself demands"""
        ids = self.ids
        if "mask" in op:
            m = np.array(op["mask"], dtype=bool)
            if m.size != ids.size:
                return "reject"
            return ids[m]
        if "phase" in op:
            keep = np.zeros(ids.size, bool)
            for k in op["phase"]:
                for i, nm in self.names.items():
                    if nm == k:
                        keep |= self.pid[ids] == i
                if k.lower() == "indexed":
                    keep |= self.pid[ids] != -1
            return ids[keep]
        ks = op["sel"]
        if ids.size == 0 or len(ks) > len(self.axes):
            return "reject"
        keep = np.ones(ids.size, bool)
        for a, (lo, hi), k in zip(self.axes, self.bbox(), ks):
            ln = hi - lo
            if "int" in k:
                if not -ln <= k["int"] < ln:
                    return "reject"
                sel = np.array([np.arange(ln)[k["int"]]])
            else:
                if k["sl"][2] == 0:
                    return "reject"
                sel = np.arange(ln)[slice(*k["sl"])]
            keep &= np.isin(self.axis_vals(a) - lo, sel)
        return ids[keep]


def stratum(spec, ref):
    n = spec["nr"] * spec["nc"]
    if n == 1:
        return "single-point"
    offs = []
    if spec["nc"] > 1:
        offs.append(spec["ox"] / spec["dx"])
    if spec["nr"] > 1:
        offs.append(spec["oy"] / spec["dy"])
    if any(abs(o) % 1.0 == 0.5 for o in offs):
        return "origin-half-step"
    if any(abs(o) > 0.5 for o in offs):
        return "origin-offset"
    return "plain"


def check_state(xm, ref, spec, strat, site_prefix, rep):
    """the property clauses on one state; returns False only when the ids differ
    (then the rest of the history cannot be compared)"""
    ids = ref.ids
    ok = True

    def bad(site, what):
        nonlocal ok
        ok = False
        fail(f"{site}:{strat}", what, rep)

    if not np.array_equal(xm.id, ids):
        bad(site_prefix, f"selected ids {xm.id.tolist()} != reference {ids.tolist()}")
        return False
    if xm.size != ids.size:
        bad("size", "size differs from the number of ids")
    if ids.size == 0:
        return True
    if not np.array_equal(xm.phase_id, ref.pid[ids]):
        bad("phase_id", "phase_id not aligned with ids")
    # (Rotation.__getitem__ re-normalises, so the last bit may differ)
    if not np.allclose(xm.rotations.data.reshape(ids.size, -1), ref.rot[ids].reshape(ids.size, -1), rtol=0, atol=1e-12):
        bad("rotations", "rotations not aligned with ids")
    if ref.x is not None and spec["nc"] > 1 and not np.array_equal(xm.x, ref.x[ids]):
        bad("x", "x not aligned with ids")
    if ref.y is not None and spec["nr"] > 1 and not np.array_equal(xm.y, ref.y[ids]):
        bad("y", "y not aligned with ids")
    if "p" in spec["props"] and not np.array_equal(xm.prop["p"], ref.p[ids]):
        bad("prop", "float property not aligned with ids")
    if "q" in spec["props"] and not np.array_equal(xm.q, ref.q[ids]):
        bad("prop", "int property (attribute access) not aligned with ids")
    bb = ref.bbox()
    exp_shape = tuple(hi - lo for lo, hi in bb)
    try:
        shp = tuple(xm.shape)
    except Exception as e:  # noqa
        shp = type(e).__name__
    if shp != exp_shape:
        bad("shape", f"shape {shp} != bounding box {exp_shape}")
    # row / col
    r0 = ref.R[ids].min()
    c0 = ref.C[ids].min()
    try:
        row, col = xm.row, xm.col
        if not (np.array_equal(row, ref.R[ids] - r0) and np.array_equal(col, ref.C[ids] - c0)):
            bad("row-col", "row/col are not the bounding-box relative grid indices")
    except Exception as e:  # noqa
        bad("row-col", f"row/col raise {type(e).__name__}")
    # 2-D output arrays
    rel = tuple((ref.R if a == "r" else ref.C)[ids] - lo for a, (lo, hi) in zip(ref.axes, bb))
    for name, arr, fill, isfill in (("p", ref.p, np.nan, lambda v: v != v), ("q", ref.q, -7, lambda v: v == -7)):
        if name not in spec["props"]:
            continue
        exp = np.full(exp_shape, fill, dtype=float if name == "p" else np.int64)
        if rel:
            exp[rel] = arr[ids]
        else:
            exp[...] = arr[ids][0]
        try:
            got = xm.get_map_data(name, fill_value=fill)
            if got.shape != exp.shape or not np.array_equal(got, exp, equal_nan=True):
                bad("get_map_data", f"get_map_data('{name}') shape {got.shape} does not place values at (row, col) "
                                    f"with the fill value elsewhere (expected shape {exp.shape})")
        except Exception as e:  # noqa
            bad("get_map_data", f"get_map_data('{name}') raises {type(e).__name__}")
    # array item
    item = np.array([1000.5 + 2 * i for i in range(ids.size)])
    exp = np.full(exp_shape, np.nan)
    if rel:
        exp[rel] = item
    else:
        exp[...] = item[0]
    s2 = "three-points" if (ids.size == 3 and ref.n > 3 and strat == "plain") else strat
    try:
        got = xm.get_map_data(item)
        if got.shape != exp.shape or not np.array_equal(got, exp, equal_nan=True):
            ok = False
            fail(f"get_map_data-array:{s2}", f"get_map_data(ndarray of {ids.size} values) returns shape {got.shape}, "
                                             f"expected the values at (row, col) in shape {exp.shape}", rep)
    except Exception as e:  # noqa
        ok = False
        fail(f"get_map_data-array:{s2}", f"get_map_data(ndarray) raises {type(e).__name__}", rep)
    # 2-D item with one RGB triple per point (maps of more than 3 points): a trailing axis of length 3
    if ref.n > 3:
        rgb = np.array([[0.25 * i, 1.0 + i, 7.0 - i] for i in range(ids.size)])
        exp = np.full(exp_shape + (3,), np.nan)
        exp[rel] = rgb
        try:
            got = xm.get_map_data(rgb)
            if got.shape != exp.shape or not np.array_equal(got, exp, equal_nan=True):
                ok = False
                fail(f"get_map_data-rgb:{strat}", f"get_map_data(ndarray of shape {rgb.shape}) returns shape "
                                                  f"{got.shape}, expected one RGB triple per (row, col) in shape "
                                                  f"{exp.shape}", rep)
        except Exception as e:  # noqa
            ok = False
            fail(f"get_map_data-rgb:{strat}", f"get_map_data(ndarray of shape {rgb.shape}) raises "
                                              f"{type(e).__name__}", rep)
    return True


def run_case(spec, ops, tag, record=True, full_obs=True):
    """one history on one map: observations for Coq + oracle"""
    xm, x, y, rotdata = build(spec)
    ref = Ref(spec, x, y, rotdata)
    strat = stratum(spec, ref)
    rep = {"spec": spec, "ops": ops, "tag": tag}
    case = {"spec": spec, "tag": tag, "x": frac(x), "y": frac(y), "oshape": list(xm._original_shape),
            "phases": [[int(i), p.name] for i, p in xm.phases], "rot": rotdata.tolist(),
            "init": observe(xm, spec, arr_item=full_obs),
            "steps": [], "strat": strat}
    st(f"map/{spec['kind']}/{strat}")
    st(f"rpp={spec['rpp']}/props={'+'.join(spec['props']) or 'none'}")
    src_before = observe(xm, spec)
    oracle_alive = check_state(xm, ref, spec, strat, "init", rep)
    cur = xm
    for i, op in enumerate(ops):
        kind = "sel" if "sel" in op else ("mask" if "mask" in op else "phase")
        key = to_key(op)
        before = cur.id.copy()
        try:
            new = cur[key]
            exc = None
        except Exception as e:  # noqa
            new, exc = None, ERR.get(type(e), "Other:" + type(e).__name__)
        rect = ref.is_rect()
        st(f"op/{kind}/{'rect' if rect else 'nonrect'}")
        # ---------------- oracle
        if oracle_alive:
            want = ref.apply(op)
            site = {"sel": "getitem-slice", "mask": "getitem-mask", "phase": "getitem-phase"}[kind]
            s2 = strat
            if kind == "sel" and strat == "plain" and not rect:
                s2 = "nonrect"
            if isinstance(want, str):          # reference rejects the key: implementation may do anything but corrupt
                oracle_alive = False
            elif exc is not None:
                fail(f"{site}:{s2}", f"{kind} selection raises {exc} although the reference selects "
                                     f"{want.tolist()} from ids {ref.ids.tolist()}", dict(rep, at=i))
                oracle_alive = False
            else:
                if not set(new.id.tolist()) <= set(before.tolist()):
                    extra = sorted(set(new.id.tolist()) - set(before.tolist()))
                    fail(f"{site}:{s2}", f"selection contains points {extra} that are absent from the map being "
                                         f"indexed (ids {before.tolist()})", dict(rep, at=i))
                    oracle_alive = False
                ref.ids = want
                if oracle_alive:
                    if s2 == "nonrect":
                        oracle_alive = _check_nonrect(new, ref, spec, site, dict(rep, at=i))
                    else:
                        oracle_alive = check_state(new, ref, spec, strat, site, dict(rep, at=i))
                if not np.array_equal(cur.id, before):
                    fail(f"source-changed:{strat}", "the map being indexed changed", dict(rep, at=i))
        # ---------------- record
        if exc is not None:
            case["steps"].append({"op": op, "err": exc})
            break
        case["steps"].append({"op": op, "obs": observe(new, spec, arr_item=full_obs)})
        cur = new
        if cur.size == 0 and R.random() < 0.5:
            break
    after = observe(xm, spec)
    if after != src_before:
        fail(f"source-changed:{strat}", "accessors of the source map differ after the history", rep)
    if record:
        cases.append(case)
    return case


def _check_nonrect(new, ref, spec, site, rep):
    """a slice applied to a non-rectangular selection (the stratum of the repaired
    mask-then-slice defect, signature kept): ids first, remaining clauses are only
    meaningful when ids agree"""
    if not np.array_equal(new.id, ref.ids):
        fail(f"{site}:nonrect", f"slice of a non-rectangular selection gives ids {new.id.tolist()}, reference "
                                f"{ref.ids.tolist()} (masked-out points are re-included)", rep)
        return False
    return check_state(new, ref, spec, "plain", site, rep)


# --------------------------------------------------------------- regressions
# The concrete histories on which the unrepaired code violated the property (the
# former _refuted theorems; now the _nonvacuous regression instances of
# Props/C11.v).  They are run first on every check; `sig` is the signature the
# oracle emits if the defect comes back (it is then a VIOLATION: the entries
# of known_findings.d/C11.json with these signatures are of kind "fixed").
def base_spec(kind, nr, nc, ox, oy, dx, dy):
    n = nr * nc
    return {"kind": kind, "nr": nr, "nc": nc, "ox": ox, "oy": oy, "dx": dx, "dy": dy, "origin": "w", "step": "w",
            "pid": [(p % 3) - 1 for p in range(n)], "rpp": 1,
            "rot": np.tile([1.0, 0, 0, 0], n).tolist(), "props": ["p", "q"],
            "p": [3.0 * p for p in range(n)], "q": list(range(n)), "ind": None}


FULL = {"sl": [None, None, None]}
WITNESSES = [
    ("mask_then_slice", base_spec("2d", 3, 4, 0.0, 0.0, 0.7, 1.5),
     [{"mask": [p != 5 for p in range(12)]}, {"sel": [FULL, FULL]}], "getitem-slice:nonrect"),
    ("stride_then_slice", base_spec("2d", 3, 4, 0.0, 0.0, 0.7, 1.5),
     [{"sel": [{"sl": [None, None, 2]}]}, {"sel": [FULL]}], "getitem-slice:nonrect"),
    ("origin_raises", base_spec("2d", 3, 4, 1.4, 0.0, 0.7, 1.5),
     [{"sel": [{"sl": [0, 2, None]}, {"sl": [0, 2, None]}]}], "getitem-slice:origin-offset"),
    ("origin_silent", base_spec("1dx", 1, 10, 3.0, 0.0, 1.0, 1.0),
     [{"mask": [p == 0 for p in range(10)]}, {"sel": [FULL]}], "getitem-slice:origin-offset"),
    ("origin_map_data", base_spec("1dx", 1, 10, 3.0, 0.0, 1.0, 1.0), [], "get_map_data:origin-offset"),
    ("half_step", base_spec("1dx", 1, 10, 0.5, 0.0, 1.0, 1.0),
     [{"sel": [{"sl": [1, 2, None]}]}], "shape:origin-half-step"),
    ("array3", base_spec("2d", 3, 4, 0.0, 0.0, 0.7, 1.5),
     [{"mask": [p in (1, 5, 6) for p in range(12)]}], "get_map_data-array:three-points"),
    ("single_point", base_spec("1dx", 1, 1, 0.0, 0.0, 1.0, 1.0), [{"sel": [{"int": 0}]}],
     "get_map_data:single-point"),
    ("single_point_mask", base_spec("1dx", 1, 1, 2.0, 0.0, 1.0, 1.0),
     [{"mask": [True]}, {"phase": ["not_indexed"]}, {"mask": [False]}], "row-col:single-point"),
    ("nonrect_offset_history", base_spec("2d", 3, 4, 1.4, 0.0, 0.7, 1.5),
     [{"mask": [p != 5 for p in range(12)]}, {"sel": [FULL, FULL]}, {"sel": [{"sl": [None, None, 2]}]},
      {"sel": [FULL, {"sl": [1, 4, None]}]}, {"phase": ["indexed"]}], "getitem-slice:origin-offset"),
]


# --------------------------------------------------------------------- main
if ONLY is not None:
    for c in ONLY:
        run_case(c["spec"], c["ops"], c.get("tag", "replay"))
else:
    for name, spec, ops, sig in WITNESSES:
        n0 = len(fails)
        run_case(spec, ops, "regression:" + name)
        witness_status[name] = {"sig": sig, "passes": len(fails) == n0}
    for k in range(N):
        spec = rand_spec(single=R.random() < 0.04)
        nops = R.choice([1, 2, 2, 3, 3, 4, 5, 6])
        ops = []
        ref = Ref(spec, *coords(spec))
        # generate ops adaptively from the reference state (sizes / shapes of the current selection)
        for _ in range(nops):
            size = ref.ids.size
            shape = [hi - lo for lo, hi in ref.bbox()] if size else None
            op = rand_op(size, shape)
            if shape == []:                          # single point: no axis to index
                op = {"sel": [rand_key1(1)]} if R.random() < 0.25 else rand_op(size, None)
            ops.append(op)
            want = ref.apply(op)
            if isinstance(want, str):
                break
            ref.ids = want
            if want.size == 0:
                if R.random() < 0.6:
                    break
        run_case(spec, ops, f"rand{k}")
    if EXH:
        # bounded-exhaustive: small maps x all op sequences up to length 3 over a small alphabet
        for (kind, nr, nc) in [("2d", 2, 2), ("2d", 2, 3), ("2d", 3, 2), ("2d", 3, 3), ("1dx", 1, 3), ("1dx", 1, 4)]:
            spec = base_spec(kind, nr, nc, 0.0, 0.0, 0.7, 1.5)
            n = nr * nc
            spec["pid"] = [(p % 3) - 1 for p in range(n)]
            nd = 2 if kind == "2d" else 1
            alpha = [
                {"sel": [{"sl": [0, 2, None]}] + ([FULL] if nd == 2 else [])},
                {"sel": ([{"sl": [1, None, None]}] * nd)},
                {"sel": ([FULL] if nd == 2 else []) + [{"sl": [None, None, 2]}]},
                {"sel": [{"int": 1}]},
                {"maskpat": "drop2nd"},
                {"phase": ["alpha"]},
                {"phase": ["indexed"]},
            ]
            for L in (1, 2, 3):
                for seq in itertools.product(range(len(alpha)), repeat=L):
                    # resolve mask patterns against the reference size
                    ref = Ref(spec, *coords(spec))
                    ops = []
                    for a in seq:
                        op = alpha[a]
                        if "maskpat" in op:
                            op = {"mask": [i != 1 for i in range(ref.ids.size)]}
                        ops.append(op)
                        want = ref.apply(op)
                        if isinstance(want, str):
                            break
                        ref.ids = want
                    run_case(spec, ops, f"exh:{kind}{nr}x{nc}:{'-'.join(map(str, seq))}", full_obs=False)
                    st("exhaustive")

emit({"cases": cases, "fails": fails, "strata": strata, "witnesses": witness_status})
