"""Exact certificates that the fundamental sector of a point group is a fundamental domain (C07).

For every named point group G and its Laue group (as built by Symmetry.laue) the sector normals
N = G.fundamental_sector are recognised exactly in K = Q(sqrt2, sqrt3) up to a positive factor, and

 * a COVER TREE shows  forall v in R^3, exists g in G, g*v in the closed sector:
   inner nodes split space by a plane (h.v >= 0 / (-h).v >= 0), a leaf names an operation g and, for each
   sector normal n, writes  g^-1 * n  as a non-negative K-combination of the plane normals collected on the
   path (Farkas), so that  n.(g*v) = (g^-1*n).v >= 0  on the whole cell;
 * for every g != e a GORDAN certificate  sum_i l_i n_i + sum_j m_j (g^-1 * n_j) = 0  with l, m >= 0 not all
   zero shows that the open sector and its image under g^-1 are disjoint (no overlaps).

Trees and certificates are found with floating-point LPs (scipy, untrusted), made exact by solving small
linear systems over K, and CHECKED inside Coq (Model/CoverCheck.v, Proofs/CoverSound.v).  When a sector is not
a fundamental domain the search ends at a rational direction none of whose equivalents is in the sector (or
one with two equivalents in the open sector); it is emitted as a witness and re-checked exactly in Coq.

usage: c07cert.py <outdir>      (prints a JSON summary on stdout)
"""
import itertools
import json
import os
import sys
import warnings
from fractions import Fraction

import numpy as np

warnings.filterwarnings("ignore")
sys.path.insert(0, os.path.join(os.path.dirname(os.path.abspath(__file__)), "..", "lib"))
from kfield import K, recognise, solve  # noqa: E402
from scipy.optimize import linprog  # noqa: E402

K0, K1 = K(0), K(1)


# ------------------------------------------------------------------ exact helpers
def kvec(v):
    return tuple(recognise(x, "vector component") for x in v)


def kf(v):
    return np.array([float(x) for x in v])


def kv_eq(u, v):
    return all(a == b for a, b in zip(u, v))


def kdot(u, v):
    return u[0] * v[0] + u[1] * v[1] + u[2] * v[2]


def qrot_k(q, v):
    """the repository's qu_rotate_vec formula, exact"""
    a, b, c, d = q
    x, y, z = v
    return ((a * a + b * b - c * c - d * d) * x + 2 * ((a * c + b * d) * z + (b * c - a * d) * y),
            (a * a - b * b + c * c - d * d) * y + 2 * ((a * d + b * c) * x + (c * d - a * b) * z),
            (a * a - b * b - c * c + d * d) * z + 2 * ((a * b + c * d) * y + (b * d - a * c) * x))


def act_k(r, v):
    q, imp = r
    w = qrot_k(q, v)
    return tuple(-x for x in w) if imp else w


def inv_k(r):
    q, imp = r
    return ((q[0], -q[1], -q[2], -q[3]), imp)


def recognise_direction(n):
    """exact K vector that is a positive multiple of the float vector n"""
    n = np.asarray(n, float)
    try:
        return kvec(n)
    except ValueError:
        pass
    m = np.max(np.abs(n))
    for s in (m, np.linalg.norm(n), np.linalg.norm(n) * np.sqrt(2), np.linalg.norm(n) * np.sqrt(3), np.linalg.norm(n) / np.sqrt(2)):
        try:
            return kvec(n / s)
        except ValueError:
            continue
    raise ValueError(f"normal {n.tolist()} is not recognised in Q(sqrt2, sqrt3)")


def solve3(cols, rhs):
    pad = lambda v: tuple(v) + (K0,)   # noqa: E731
    return solve([pad(c) for c in cols], pad(rhs))


def cone_cert(C, Cf, m, mf):
    """m as a non-negative exact combination of the vectors C (exact) / Cf (float rows); None if not in the cone"""
    for j, c in enumerate(C):
        if kv_eq(c, m):
            return [(j, K1)]
    if not C:
        return None
    r = linprog(np.ones(len(C)), A_eq=np.array(Cf).T, b_eq=mf, bounds=(0, None), method="highs-ds")
    if r.status != 0:
        return None
    supp = [j for j in range(len(C)) if r.x[j] > 1e-9]
    cands = [supp] if len(supp) <= 3 else []
    for k in range(1, 4):
        cands += [list(s) for s in itertools.combinations(supp, k)]
    for sub in cands:
        if not sub:
            continue
        lam = solve3([C[j] for j in sub], m)
        if lam is not None and all(x.sign() >= 0 for x in lam):
            return [(j, l) for j, l in zip(sub, lam) if not l.is_zero()]
    # last resort: all triples
    for k in range(1, 4):
        for sub in itertools.combinations(range(len(C)), k):
            lam = solve3([C[j] for j in sub], m)
            if lam is not None and all(x.sign() >= 0 for x in lam):
                return [(j, l) for j, l in zip(sub, lam) if not l.is_zero()]
    return "inexact"


def interior_point(Cf):
    """a point with c.p >= t > 0 for all rows, |p|_inf <= 1"""
    if len(Cf) == 0:
        return np.array([0.31, 0.52, 0.79])
    A = np.hstack([-np.array(Cf), np.ones((len(Cf), 1))])
    r = linprog([0, 0, 0, -1], A_ub=A, b_ub=np.zeros(len(Cf)), bounds=[(-1, 1)] * 3 + [(0, 1)], method="highs")
    if r.status != 0 or r.x[3] < 1e-9:
        return None
    return r.x[:3]


def rationalise(p, den=97):
    return tuple(Fraction(int(round(x * den)), den) for x in p)


class NotADomain(Exception):
    def __init__(self, kind, data):
        self.kind, self.data = kind, data


# ------------------------------------------------------------------ cover tree
def build_tree(G, Gf, N, Nf, C, Cf, stats, depth=0):
    """G: exact ops [(q, imp)], Gf: float 3x3 matrices; N/Nf sector normals; C/Cf collected constraints
    (most recent FIRST, as Coq conses them)."""
    if depth > 60:
        raise RuntimeError("cover tree too deep")
    p = interior_point(Cf)
    if p is None:
        raise RuntimeError("empty cell reached")
    # the operation that puts p deepest into the sector
    if len(Nf):
        score = [min(float(np.dot(n, A @ p)) for n in Nf) for A in Gf]
    else:
        score = [1.0 for _ in Gf]
    g = int(np.argmax(score))
    if score[g] < 1e-9 * np.linalg.norm(p):
        # p has no equivalent strictly inside the sector.  Either a gap or p sits on a boundary; move p a little
        for _ in range(20):
            q = p + 1e-3 * np.random.default_rng(depth).normal(size=3)
            if all(np.dot(c, q) > 0 for c in Cf):
                sc = [min(float(np.dot(n, A @ q)) for n in Nf) for A in Gf]
                if max(sc) > 1e-9:
                    p, score, g = q, sc, int(np.argmax(sc))
                    break
        else:
            raise NotADomain("gap", p)
    ginv = inv_k(G[g])
    targets = [act_k(ginv, n) for n in N]
    certs = []
    for m in targets:
        c = cone_cert(C, Cf, m, kf(m))
        if c is None:
            # split by the plane of m
            stats["splits"] += 1
            neg = tuple(-x for x in m)
            t1 = build_tree(G, Gf, N, Nf, [m] + C, [kf(m)] + Cf, stats, depth + 1)
            t2 = build_tree(G, Gf, N, Nf, [neg] + C, [kf(neg)] + Cf, stats, depth + 1)
            return ("split", m, t1, t2)
        if c == "inexact":
            raise RuntimeError("no exact certificate for a leaf target")
        certs.append(c)
    stats["leaves"] += 1
    return ("leaf", g, certs)


def gordan(G, N, Nf, g):
    """exact l, m >= 0 with sum l_i n_i + sum m_j ginv n_j = 0, not all zero"""
    ginv = inv_k(G[g])
    V = list(N) + [act_k(ginv, n) for n in N]
    Vf = np.array([kf(v) for v in V])
    A = np.vstack([Vf.T, np.ones(len(V))])
    r = linprog(np.zeros(len(V)), A_eq=A, b_eq=[0, 0, 0, 1], bounds=(0, None), method="highs-ds")
    if r.status != 0:
        return None
    supp = [j for j in range(len(V)) if r.x[j] > 1e-9]
    cands = [supp] if len(supp) <= 4 else []
    for k in range(2, 5):
        cands += [list(s) for s in itertools.combinations(supp, k)]
    for sub in cands:
        cols = [tuple(V[j]) + (K1,) for j in sub]
        lam = solve(cols, (K0, K0, K0, K1))
        if lam is not None and all(x.sign() >= 0 for x in lam):
            return [(j, l) for j, l in zip(sub, lam) if not l.is_zero()]
    return None


def overlap_witness(Gf, Nf, g):
    """a rational direction strictly inside the sector whose image under g is strictly inside too"""
    A = Gf[g]
    rows = [-np.append(n, -1.0) for n in Nf] + [-np.append(A.T @ n, -1.0) for n in Nf]
    r = linprog([0, 0, 0, -1], A_ub=np.array(rows), b_ub=np.zeros(len(rows)), bounds=[(-1, 1)] * 3 + [(0, 1)], method="highs")
    if r.status != 0 or r.x[3] < 1e-7:
        return None
    return r.x[:3]


# ------------------------------------------------------------------ Coq text
def coq_v(v):
    return "(" + ", ".join(x.coq() for x in v) + ")"


def coq_q(x):
    return f"({x.numerator}#{x.denominator})"


def coq_cert(c):
    return "[" + "; ".join(f"({j}%nat, {l.coq()})" for j, l in c) + "]"


def coq_tree(t):
    if t[0] == "leaf":
        return f"(CLeaf {t[1]}%nat [" + "; ".join(coq_cert(c) for c in t[2]) + "])"
    return f"(CSplit {coq_v(t[1])}\n {coq_tree(t[2])}\n {coq_tree(t[3])})"


def subject(name, kind, sym):
    """-> dict with exact ops, float matrices, exact normals"""
    data = sym.data.reshape(-1, 4)
    imp = sym.improper.reshape(-1)
    G = [(tuple(recognise(x, "quaternion component") for x in q), bool(i)) for q, i in zip(data, imp)]
    Gf = []
    for q, i in G:
        cols = [kf(act_k((q, i), e)) for e in ((K1, K0, K0), (K0, K1, K0), (K0, K0, K1))]
        Gf.append(np.array(cols).T)
    fs = sym.fundamental_sector
    N = [recognise_direction(n) for n in fs.data.reshape(-1, 3)]
    return dict(name=name, kind=kind, sym_name=sym.name, G=G, Gf=Gf, N=N, Nf=[kf(n) for n in N])


def certify(s):
    G, Gf, N, Nf = s["G"], s["Gf"], s["N"], s["Nf"]
    stats = {"splits": 0, "leaves": 0}
    try:
        tree = build_tree(G, Gf, N, Nf, [], [], stats)
    except NotADomain as e:
        p = rationalise(e.data / np.max(np.abs(e.data)))
        pk = tuple(K(x) for x in p)
        ok = all(any(kdot(n, act_k(g, pk)).sign() < 0 for n in N) for g in G)
        if not ok:
            raise RuntimeError(f"{s['name']}/{s['kind']}: float gap at {e.data.tolist()} not confirmed exactly")
        return dict(status="gap", witness=p, stats=stats)
    gord = []
    for g in range(1, len(G)):
        c = gordan(G, N, Nf, g)
        if c is None:
            w = overlap_witness(Gf, Nf, g)
            if w is None:
                raise RuntimeError(f"{s['name']}/{s['kind']}: neither a Gordan certificate nor an overlap witness for op {g}")
            p = rationalise(w / np.max(np.abs(w)), 9973)
            pk = tuple(K(x) for x in p)
            ok = all(kdot(n, pk).sign() > 0 for n in N) and all(kdot(n, act_k(G[g], pk)).sign() > 0 for n in N)
            if not ok:
                raise RuntimeError(f"{s['name']}/{s['kind']}: overlap witness not confirmed exactly")
            return dict(status="overlap", witness=p, op=g, stats=stats)
        gord.append(c)
    return dict(status="ok", tree=tree, gordan=gord, stats=stats)


def main(out):
    from orix.quaternion import symmetry as S
    subjects = []
    for G in S._groups:
        subjects.append(subject(G.name, "own", G))
        subjects.append(subject(G.name, "laue", G.laue))
    summary = {"subjects": len(subjects), "ok": [], "gap": [], "overlap": [], "leaves": 0}
    recs = []
    for s in subjects:
        r = certify(s)
        summary[r["status"]].append(f"{s['name']}/{s['kind']}")
        summary["leaves"] += r["stats"]["leaves"]
        recs.append((s, r))
    nfiles = 8
    files = []
    oks = [(s, r) for s, r in recs if r["status"] == "ok"]
    for k in range(nfiles):
        part = oks[k::nfiles]
        fn = f"SectorCerts{k:02d}.v"
        with open(os.path.join(out, fn), "w") as f:
            f.write("(* GENERATED by tools/impl/c07cert.py by running orix from /repo -- do not edit. *)\n")
            f.write("From Coq Require Import ZArith QArith List String Bool.\nFrom Verif Require Import Scalar KField Quat CoverCheck.\n")
            f.write("Import ListNotations. Open Scope string_scope.\n")
            f.write(f"Definition sector_certs_{k:02d} : list sector_cert := [\n")
            rows = []
            for s, r in part:
                rows.append(f'  mkSC "{s["name"]}" {"true" if s["kind"] == "laue" else "false"}\n   [' +
                            "; ".join(coq_v(n) for n in s["N"]) + "]\n   " + coq_tree(r["tree"]) + "\n   [" +
                            ";\n    ".join(coq_cert(c) for c in r["gordan"]) + "]")
            f.write(";\n".join(rows) + "].\n")
        files.append(fn)
    with open(os.path.join(out, "SectorCertsAll.v"), "w") as f:
        f.write("(* GENERATED by tools/impl/c07cert.py by running orix from /repo -- do not edit. *)\n")
        f.write("From Coq Require Import ZArith QArith List String Bool.\nImport ListNotations. Open Scope string_scope.\n")
        f.write("From Verif Require Import Scalar KField Quat CoverCheck " + " ".join(x[:-2] for x in files) + ".\n")
        f.write("Definition all_sector_certs : list (list sector_cert) := [" + "; ".join(f"sector_certs_{k:02d}" for k in range(nfiles)) + "].\n")
        bad = [(s, r) for s, r in recs if r["status"] != "ok"]
        f.write("(* sectors that are NOT fundamental domains: (group, laue?, sector normals, op index, rational direction) --\n"
                "   op = 0: no equivalent of the direction is in the closed sector (gap);\n"
                "   op > 0: the direction and its image under that operation are both strictly inside (overlap) *)\n")
        f.write("Definition sector_defects : list sector_defect := [\n" + ";\n".join(
            f'  mkSD "{s["name"]}" {"true" if s["kind"] == "laue" else "false"} [' + "; ".join(coq_v(n) for n in s["N"]) + "] " +
            f'{r.get("op", 0)}%nat ({coq_q(r["witness"][0])}, {coq_q(r["witness"][1])}, {coq_q(r["witness"][2])})'
            for s, r in bad) + "].\n")
    summary["files"] = files
    summary["defects"] = [dict(group=s["name"], kind=s["kind"], laue_name=s["sym_name"], status=r["status"], op=r.get("op", 0),
                               witness=[float(x) for x in r["witness"]]) for s, r in recs if r["status"] != "ok"]
    print("@@JSON@@" + json.dumps(summary))


if __name__ == "__main__":
    main(sys.argv[1])
