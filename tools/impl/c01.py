"""C01 implementation harness: rotation representation conversions."""
import math

import numpy as np
from common import axang_quat, emit, payload, rand_unit_quat, rand_vec, rng

from orix.quaternion import Orientation, Quaternion, Rotation
from orix.vector import Vector3d

P = payload()
R = rng(P.get("seed", 0))
N = P.get("n", 300)
PI = math.pi

cases, fails, strata = [], [], {}


def st(k):
    strata[k] = strata.get(k, 0) + 1


def fail(sig, what, rep):
    fails.append({"sig": sig, "what": what, "replay": rep})


def norm(q):
    n = math.sqrt(sum(x * x for x in q))
    return [x / n for x in q]


# offsets deliberately avoid the kernels' own thresholds (1e-3, 1e-8, 1e-9) so that float noise cannot flip a branch
OFFS = [2e-3, 5e-4, 1e-4, 1e-6, 3e-8, 4e-9, 1e-10, 1e-12]
AXES = [[1, 0, 0], [0, 1, 0], [0, 0, 1], [1, 1, 0], [1, 1, 1], [-1, 1, 0], [1, -1, 1], [0, -1, 0],
        [1, 1e-7, 0], [1e-9, 1, -1e-9]]


def gen():
    """-> (stratum, unit quaternion)"""
    t = R.random()
    if t < 0.25:
        return "generic-pos", rand_unit_quat(R, "pos")
    if t < 0.45:
        return "generic-neg", rand_unit_quat(R, "neg")
    ax = R.choice(AXES) if R.random() < 0.6 else rand_vec(R)
    sgn = R.choice([1, -1])
    if t < 0.52:
        return "angle0", [float(sgn), 0.0, 0.0, 0.0]
    if t < 0.62:
        q = axang_quat(ax, PI)
        q[0] = 0.0
        return "anglepi", [sgn * x for x in norm(q)]
    if t < 0.72:
        w = R.choice(OFFS)
        return "near0", [sgn * x for x in axang_quat(ax, w)]
    if t < 0.82:
        w = PI - R.choice(OFFS) * R.choice([1, -1])
        return "nearpi", [sgn * x for x in axang_quat(ax, w)]
    # Euler strata
    p1, p2 = R.uniform(0, 2 * PI), R.uniform(0, 2 * PI)
    if t < 0.88:
        Phi = 0.0
        name = "gimbal0"
    elif t < 0.94:
        Phi = PI
        name = "gimbalpi"
    else:
        Phi = R.choice([0.0, PI]) + R.choice(OFFS) * R.choice([1, -1])
        Phi = abs(Phi) if Phi < PI else (Phi if Phi <= PI else 2 * PI - Phi)
        name = "neargimbal"
    q = Quaternion.from_euler([p1, Phi, p2]).data[0].tolist()
    return name, [sgn * x for x in q]


def bunge_ref(e):
    """independent reference: passive Bunge Z-X-Z matrix"""
    c1, s1, c, s, c2, s2 = math.cos(e[0]), math.sin(e[0]), math.cos(e[1]), math.sin(e[1]), math.cos(e[2]), math.sin(e[2])
    Z1 = np.array([[c1, s1, 0], [-s1, c1, 0], [0, 0, 1]])
    X = np.array([[1, 0, 0], [0, c, s], [0, -s, c]])
    Z2 = np.array([[c2, s2, 0], [-s2, c2, 0], [0, 0, 1]])
    return Z2 @ X @ Z1


def rodrigues_ref(n, w):
    """independent reference: PASSIVE rotation matrix for axis n, angle w (orix convention)"""
    n = np.asarray(n, float)
    K = np.array([[0, -n[2], n[1]], [n[2], 0, -n[0]], [-n[1], n[0], 0]])
    # orix: q = (cos w/2, n sin w/2) rotates vectors by qu_rotate_vec == active rotation by w about n
    return np.eye(3) + math.sin(w) * K + (1 - math.cos(w)) * K @ K


def same_rot(q1, q2, tol=1e-7):
    return abs(float(np.dot(q1, q2))) >= 1 - tol


HO_MAX = (3 * PI / 4) ** (1 / 3)


def in_om_band(qq):
    """does some quaternion have a non-zero component small enough for om2qu to zero it (1 +- tr.. < 1e-9)?"""
    a = np.abs(np.asarray(qq, float))
    return bool(np.any((a > 0) & (a < 1e-4)))

for k in range(N):
    name, q = gen()
    st(name)
    Q = Quaternion(q)
    neg = q[0] < 0
    hemi = "neg" if neg else "pos"
    w_true = 2 * math.acos(min(1.0, abs(q[0])))
    c = {"stratum": name, "q": q, "qn": Q.unit.data[0].tolist()}   # wrappers normalise first
    om = Q.to_matrix()[0]
    eu = Q.to_euler()[0]
    axa = Q.to_axes_angles()
    ax3 = axa.data[0]
    rof = Q.to_rodrigues(frank=True)[0]
    ho = Q.to_homochoric().data[0]
    c.update(om=om.reshape(-1).tolist(), eu=eu.tolist(), ax3=ax3.tolist(), rof=rof.tolist(), ho=ho.tolist())
    c["q_om"] = Quaternion.from_matrix(om).data[0].tolist()
    c["q_eu"] = Quaternion.from_euler(eu).data[0].tolist()
    c["q_ho"] = Quaternion.from_homochoric(ho).data[0].tolist()
    ro3_all = Q.to_rodrigues().data[0]
    c["ro3"] = ro3_all.tolist()
    c["q_r3"] = Quaternion.from_rodrigues(ro3_all).data[0].tolist()
    cases.append(c)
    rep = {"q": q, "stratum": name}
    # classes used in failure signatures: computed from q itself (not from the generator's stratum)
    q_ad, q_bc = q[0] ** 2 + q[3] ** 2, q[1] ** 2 + q[2] ** 2
    ecl = "generic" if math.sqrt(q_ad * q_bc) >= 1e-9 else ("gimbal0" if q_bc < 1e-9 else "gimbalpi")
    ocl = "pi" if 4 * q[0] ** 2 < 1e-9 else "generic"
    # ---------------- oracle ----------------
    v = np.array(rand_vec(R))
    qv = (Q * Vector3d(v)).data[0]
    if not np.allclose(om @ v, qv, atol=1e-9):
        fail("action:matrix", "to_matrix() @ v != Q * v", rep)
    if not (np.allclose(om @ om.T, np.eye(3), atol=1e-9) and abs(np.linalg.det(om) - 1) < 1e-9):
        fail("matrix:orthogonal", "to_matrix() is not a proper orthogonal matrix", rep)
    # Euler: range, reference, round trip
    if not (0 <= eu[0] <= 2 * PI and 0 <= eu[1] <= PI and 0 <= eu[2] <= 2 * PI):
        fail(f"range:eu:{ecl}", f"Euler angles {eu.tolist()} outside [0,2pi]x[0,pi]x[0,2pi]", rep)
    if not np.allclose(bunge_ref(eu), om, atol=2e-8):
        fail(f"reference:eu:{ecl}", "Bunge matrix of to_euler() differs from to_matrix()", rep)
    if not same_rot(c["q_eu"], q):
        fail(f"roundtrip:eu:{ecl}", "from_euler(to_euler(q)) is another rotation", rep)
    if not same_rot(c["q_om"], q):
        fail(f"roundtrip:om:{ocl}", "from_matrix(to_matrix(q)) is another rotation", rep)
    # axis-angle
    ang = float(np.linalg.norm(ax3))
    if ang > PI + 1e-9:
        fail(f"range:ax:{hemi}", f"rotation angle {ang} > pi from to_axes_angles()", rep)
    if ang > 1e-9:
        n = ax3 / ang
        if not np.allclose(rodrigues_ref(n, ang), om, atol=2e-8):
            fail(f"reference:ax:{hemi}", "Rodrigues-formula matrix of to_axes_angles() differs from to_matrix()", rep)
        q_ax = Quaternion.from_axes_angles(n, ang).data[0]
        if not same_rot(q_ax, q):
            fail(f"roundtrip:ax:{hemi}", "from_axes_angles(to_axes_angles(q)) is another rotation", rep)
    elif w_true > 1e-6:
        fail(f"roundtrip:ax:{hemi}", "to_axes_angles() returns a null rotation for a non-trivial one", rep)
    # Rodrigues and Rodrigues-Frank, including rotations by exactly pi (the vector is then ~1e16 long / has an
    # infinite fourth component, and must still come back as the same rotation)
    if w_true > 1e-6:
        q_rf = Quaternion.from_rodrigues(rof[:3], np.array([rof[3]])).data[0]
        if not same_rot(q_rf, q, 1e-6):
            fail(f"roundtrip:rofrank:{hemi}", "from_rodrigues(to_rodrigues(frank=True)) is another rotation", rep)
        ro3 = Q.to_rodrigues().data[0]
        if np.linalg.norm(ro3) > 1e-4:
            q_r3 = Quaternion.from_rodrigues(ro3).data[0]
            if not same_rot(q_r3, q, 1e-6):
                fail(f"roundtrip:ro:{hemi}", "from_rodrigues(to_rodrigues()) is another rotation", rep)
    # homochoric
    hn = float(np.linalg.norm(ho))
    if hn > HO_MAX + 1e-9:
        fail(f"range:ho:{hemi}", f"homochoric length {hn} > (3pi/4)^(1/3)", rep)
    if not same_rot(c["q_ho"], q, 1e-6):
        fail(f"roundtrip:ho:{hemi}", "from_homochoric(to_homochoric(q)) is another rotation", rep)

# ---------------- flags, shapes, starting from other representations ----------------
for k in range(max(N // 10, 10)):
    e = [R.uniform(0, 2 * PI), R.choice([0.0, PI, R.uniform(0, PI)]), R.uniform(0, 2 * PI)]
    st("euler-start")
    Q = Quaternion.from_euler(e)
    if not np.allclose(Q.to_matrix()[0], bunge_ref(e), atol=1e-9):
        fail("reference:from_euler", "from_euler(e).to_matrix() differs from the Bunge Z-X-Z reference", {"eu": e})
    Qd = Quaternion.from_euler(np.rad2deg(e), degrees=True)
    if not np.allclose(Qd.data, Q.data, atol=1e-12):
        fail("flag:degrees", "degrees=True does more than rescale the angles", {"eu": e})
    if not np.allclose(Q.to_euler(degrees=True), np.rad2deg(Q.to_euler()), atol=1e-9):
        fail("flag:degrees", "to_euler(degrees=True) is not a rescaling", {"eu": e})
    Qc = Quaternion.from_euler(e, direction="crystal2lab")
    if not same_rot(Qc.data[0], (~Q).data[0], 1e-12):
        fail("flag:direction", "direction='crystal2lab' is not the inverse rotation", {"eu": e})
    e2 = Q.to_euler()[0]
    if not same_rot(Quaternion.from_euler(e2).data[0], Q.data[0]):
        cl = "gimbalpi" if abs(e[1] - PI) < 1e-9 else ("gimbal0" if abs(e[1]) < 1e-9 else "generic")
        fail(f"roundtrip:eu:{cl}", "Euler -> quaternion -> Euler -> quaternion changes the rotation", {"eu": e})
    # matrices and vectors as starting points
    M = bunge_ref(e)
    if abs(np.trace(M) + 1) > 1e-3:
        # om2qu zeroes quaternion components below ~1.6e-5 (accepted above: |q.q'| >= 1 - 1e-7)
        if not np.allclose(Quaternion.from_matrix(M).to_matrix()[0], M, atol=1e-4 if in_om_band(Q.data) else 1e-8):
            fail("roundtrip:matrix-start", "from_matrix(M).to_matrix() != M", {"eu": e})
# the flags on every class that has its own constructors (Orientation overrides from_euler / from_matrix /
# from_axes_angles to take a symmetry): degrees only rescales, direction only inverts
from orix.quaternion import Misorientation  # noqa: E402
from orix.quaternion import symmetry as _sym  # noqa: E402

for k in range(max(N // 25, 8)):
    e = [R.uniform(0, 2 * PI), R.uniform(0.05, PI - 0.05), R.uniform(0, 2 * PI)]
    ax = norm(rand_vec(R))
    w = R.uniform(0.1, 3.0)
    ref = bunge_ref(e)
    for cls, kw in ((Quaternion, {}), (Rotation, {}), (Orientation, {}), (Orientation, {"symmetry": _sym.Oh}),
                    (Orientation, {"symmetry": _sym.D6}), (Misorientation, {})):
        name = cls.__name__ + ("+symmetry" if kw else "")
        st(f"flags/{name}")
        rep = {"eu": e, "class": name}
        try:
            A = cls.from_euler(e, **kw)
            B = cls.from_euler(np.rad2deg(e), degrees=True, **kw)
            C = cls.from_euler(e, direction="crystal2lab", **kw)
            D = cls.from_euler(np.rad2deg(e), direction="crystal2lab", degrees=True, **kw)
            if not np.allclose(A.to_matrix()[0], ref, atol=1e-9):
                fail(f"reference:from_euler:{name}", f"{name}.from_euler(e).to_matrix() differs from the Bunge Z-X-Z reference", rep)
            if not np.allclose(B.data, A.data, atol=1e-12):
                fail(f"flag:degrees:{name}", f"{name}.from_euler(degrees=True) does more than rescale the angles", rep)
            if not np.allclose(C.to_matrix()[0], ref.T, atol=1e-9):
                fail(f"flag:direction:{name}", f"{name}.from_euler(direction='crystal2lab') is not the inverse rotation", rep)
            if not np.allclose(D.data, C.data, atol=1e-12):
                fail(f"flag:direction+degrees:{name}", f"{name}.from_euler with both flags differs from direction alone", rep)
            if kw and (A.symmetry.name != kw["symmetry"].name or C.symmetry.name != kw["symmetry"].name):
                fail(f"flag:symmetry:{name}", f"{name}.from_euler loses the symmetry", rep)
            if cls is not Misorientation:
                F = cls.from_axes_angles(ax, w, **kw)
                G = cls.from_axes_angles(ax, np.rad2deg(w), degrees=True, **kw)
                if not np.allclose(F.data, G.data, atol=1e-12) or not np.allclose(F.to_matrix()[0], rodrigues_ref(ax, w), atol=1e-9):
                    fail(f"flag:degrees:from_axes_angles:{name}", f"{name}.from_axes_angles(degrees=True) does more than rescale", rep)
                M = cls.from_matrix(ref, **kw)
                if not np.allclose(M.to_matrix()[0], ref, atol=1e-8):
                    fail(f"roundtrip:matrix-start:{name}", f"{name}.from_matrix(M).to_matrix() != M", rep)
        except Exception as ex:  # noqa
            fail(f"flag:raises:{name}", f"{type(ex).__name__}: {ex}", rep)

for shape in [(1,), (5,), (2, 3), (2, 1, 2), (0,)]:
    st(f"shape{shape}")
    n = int(np.prod(shape))
    q = np.array([rand_unit_quat(R, "pos") for _ in range(n)]).reshape(shape + (4,))
    for cls in (Quaternion, Rotation, Orientation):
        try:
            Q = cls(q)
            ok = (Q.to_matrix().shape == shape + (3, 3) and Q.to_euler().shape == shape + (3,)
                  and Q.to_homochoric().shape == shape and Q.to_axes_angles().shape == shape
                  and Q.to_rodrigues().shape == shape and Q.to_rodrigues(frank=True).shape == shape + (4,))
            if n:
                ok = ok and same_rot(cls.from_matrix(Q.to_matrix()).data.reshape(-1, 4)[-1], q.reshape(-1, 4)[-1])
                ok = ok and cls.from_euler(Q.to_euler()).shape == shape
                flat = Q.to_euler().reshape(-1, 3)
                ok = ok and np.allclose(flat[-1], cls(q.reshape(-1, 4)[-1]).to_euler()[0])
        except Exception as ex:  # noqa
            ok = False
            rep = f"{type(ex).__name__}: {ex}"
        if not ok:
            fail(f"shape:{'empty' if n == 0 else 'nd'}", f"conversions of a {cls.__name__} of shape {shape} have wrong shapes/values", {"shape": shape})


# =====================================================================================================================
# Audit strata: entry points / keyword paths / input classes the strata above never reach.  Everything below draws
# from R AFTER the strata above, so the cases of the model correspondence are unchanged.
#   nd:*        mixed arrays (both hemispheres and the singular strata in ONE array, >= 3 axes, size-1 axes) through
#               every to_* / from_* of every class must equal the element-wise scalar Quaternion path
#   neo:*       orix/vector/neo_euler.py: AxAngle / Rodrigues / Homochoric .from_rotation, .angle, .axis,
#               AxAngle.from_axes_angles; neo-Eulerian OBJECTS (not ndarrays) passed back to from_*
#   props:*     Quaternion.axis / .angle used directly
#   action:*    Rotation.__mul__(Vector3d) (its own override) on the subclasses, broadcasting
#   scipy:*     from_scipy_rotation of every class against SciPy's own matrix / apply
#   start:*     axis-angle pairs, homochoric, Rodrigues and Rodrigues-Frank vectors, wide-range Euler triplets, exact
#               two-fold and integer matrices as STARTING points, against independent references
#   pure:*      conversions must not modify their inputs; dtype:* integer / float32 quaternions
# =====================================================================================================================
from scipy.spatial.transform import Rotation as SciPyRotation  # noqa: E402

from orix.vector import AxAngle, Homochoric, Rodrigues  # noqa: E402

CLS = [("Quaternion", Quaternion, {}), ("Rotation", Rotation, {}), ("Orientation", Orientation, {}),
       ("Misorientation", Misorientation, {}), ("Orientation+symmetry", Orientation, {"symmetry": _sym.Oh})]


def close(a, b, tol=1e-9):
    a, b = np.asarray(a, float), np.asarray(b, float)
    return a.shape == b.shape and bool(np.allclose(a, b, rtol=tol, atol=tol, equal_nan=True))


def ang_close(a, b, tol=1e-9):
    a, b = np.asarray(a, float), np.asarray(b, float)
    return a.shape == b.shape and bool(np.all(np.abs(np.angle(np.exp(1j * (a - b)))) <= tol))


def rows_same_rot(a, b, tol=1e-9):
    a, b = np.asarray(a, float).reshape(-1, 4), np.asarray(b, float).reshape(-1, 4)
    return a.shape == b.shape and bool(np.all(np.abs(np.sum(a * b, axis=-1)) >= 1 - tol))


def vdata(x):
    return x.data if isinstance(x, Vector3d) else np.asarray(x)


def guarded(sig, rep, fn):
    try:
        fn()
    except Exception as ex:  # noqa
        fail(f"{sig}:raises", f"{type(ex).__name__}: {ex}", rep)


# ---------------- nd: arrays == element-wise scalar path ----------------
TO = [("to_matrix", lambda X: X.to_matrix(), (3, 3)), ("to_euler", lambda X: X.to_euler(), (3,)),
      ("to_euler:degrees", lambda X: X.to_euler(degrees=True), (3,)),
      ("to_axes_angles", lambda X: X.to_axes_angles(), (3,)), ("to_rodrigues", lambda X: X.to_rodrigues(), (3,)),
      ("to_rodrigues:frank", lambda X: X.to_rodrigues(frank=True), (4,)),
      ("to_homochoric", lambda X: X.to_homochoric(), (3,)), ("axis", lambda X: X.axis, (3,)),
      ("angle", lambda X: X.angle, ())]
ND_SHAPES = [(7,), (2, 3), (2, 1, 3), (1, 1), (3, 1, 2, 2), (1,), (4, 1)]


def nd_stratum(k):
    shape = ND_SHAPES[k % len(ND_SHAPES)]
    cname, cls, kw = CLS[k % 4]
    n = int(np.prod(shape))
    qs = [gen()[1] for _ in range(n)]
    A = cls(np.array(qs).reshape(shape + (4,)))
    flat = A.data.reshape(-1, 4).copy()       # what the object stores (Rotation normalises on construction)
    S = [Quaternion(r) for r in flat]
    rep = {"q": A.data.tolist(), "class": cname, "shape": list(shape)}
    st(f"nd/{cname}")
    st(f"nd/shape{shape}")
    val = {}
    for name, f, tail in TO:
        got = vdata(f(A))
        want = np.stack([vdata(f(s))[0] for s in S]).reshape(shape + tail)
        val[name] = want
        okv = ang_close(got, want) if name == "to_euler" else close(got, want)
        if not okv:
            fail(f"nd:{name}", f"{cname}.{name} of a {shape} array differs from the element-wise conversions "
                 f"(got shape {got.shape})", rep)
    if not type(A.to_axes_angles()) is AxAngle or not type(A.to_rodrigues()) is Rodrigues \
            or not type(A.to_homochoric()) is Homochoric:
        fail("nd:return-type", "to_axes_angles/to_rodrigues/to_homochoric do not return AxAngle/Rodrigues/Homochoric", rep)
    rof = val["to_rodrigues:frank"]
    FROM = [("from_matrix", lambda c, i: c.from_matrix(val["to_matrix"][i])),
            ("from_euler", lambda c, i: c.from_euler(val["to_euler"][i])),
            ("from_euler:degrees+crystal2lab",
             lambda c, i: c.from_euler(val["to_euler:degrees"][i], direction="crystal2lab", degrees=True)),
            ("from_axes_angles", lambda c, i: c.from_axes_angles(val["axis"][i], val["angle"][i])),
            ("from_axes_angles:Vector3d+degrees",
             lambda c, i: c.from_axes_angles(Vector3d(val["axis"][i]), np.rad2deg(val["angle"][i]), degrees=True)),
            ("from_homochoric", lambda c, i: c.from_homochoric(val["to_homochoric"][i])),
            ("from_homochoric:Homochoric", lambda c, i: c.from_homochoric(Homochoric(val["to_homochoric"][i]))),
            ("from_rodrigues", lambda c, i: c.from_rodrigues(val["to_rodrigues"][i])),
            ("from_rodrigues:Rodrigues", lambda c, i: c.from_rodrigues(Rodrigues(val["to_rodrigues"][i]))),
            ("from_rodrigues:frank", lambda c, i: c.from_rodrigues(rof[i][..., :3], rof[i][..., 3]))]
    for name, f in FROM:
        got = f(cls, Ellipsis)
        want = np.stack([f(Quaternion, (j,) if shape == () else np.unravel_index(j, shape)).data.reshape(4)
                         for j in range(n)]).reshape(shape + (4,))
        if got.shape != shape or not type(got) is cls or not close(got.data, want):
            fail(f"nd:{name}", f"{cname}.{name} of a {shape} array differs from the element-wise conversions "
                 f"(got {type(got).__name__} of shape {got.shape})", rep)


for k in range(max(N // 20, 14)):
    guarded("nd", {"k": k}, lambda: nd_stratum(k))

# from_axes_angles broadcasting: one axis with many angles, many axes with one angle
for k in range(max(N // 50, 6)):
    cname, cls, kw = CLS[k % 5]
    shape = [(5,), (2, 3), (2, 1, 2)][k % 3]
    n = int(np.prod(shape))
    axs = np.array([R.choice(AXES) if R.random() < 0.3 else rand_vec(R) for _ in range(n)], float).reshape(shape + (3,))
    angs = np.array([R.choice([0.0, PI, -1.0, 4.0, R.uniform(0, PI)]) for _ in range(n)]).reshape(shape)
    a1, w1 = rand_vec(R), R.uniform(0.1, 3.0)
    rep = {"axes": axs.tolist(), "angles": angs.tolist(), "axis1": a1, "angle1": w1, "class": cname}
    st("nd/from_axes_angles:broadcast")

    def bc():
        X = cls.from_axes_angles(a1, angs, **kw)
        Y = cls.from_axes_angles(axs, w1, **kw)
        Z = cls.from_axes_angles(axs, angs, **kw)
        for nm, G, fa, fw in (("axis1", X, lambda j: a1, lambda j: angs[j]), ("angle1", Y, lambda j: axs[j], lambda j: w1),
                              ("matched", Z, lambda j: axs[j], lambda j: angs[j])):
            okb = G.shape == shape
            if okb:
                for j in np.ndindex(*shape):
                    u = np.asarray(fa(j), float)
                    okb = okb and np.allclose(G[j].to_matrix()[0], rodrigues_ref(u / np.linalg.norm(u), float(fw(j))), atol=3e-8)
            if not okb:
                fail(f"nd:from_axes_angles:broadcast:{nm}", f"{cname}.from_axes_angles with broadcast operands ({nm}) "
                     f"differs from the Rodrigues-formula reference (shape {G.shape})", rep)
    guarded("nd:from_axes_angles:broadcast", rep, bc)

# ---------------- neo / props / action: per quaternion, class cycled against the stratum ----------------
M2 = max(N // 3, 60)
for k in range(M2):
    name, q = gen()
    cname, cls, kw = CLS[k % 4]
    st(f"neo/{cname}")
    hemi = "neg" if q[0] < 0 else "pos"
    rep = {"q": q, "stratum": name, "class": cname}
    X = cls(q)
    qd = X.data[0]
    w_true = 2 * math.acos(min(1.0, abs(qd[0])))
    om = Quaternion(q).to_matrix()[0]

    def neo():
        # Quaternion.axis / .angle
        n_, w_ = X.axis.data[0], float(X.angle[0])
        if not (0 <= w_ <= PI + 1e-12) or abs(w_ - w_true) > 1e-9:
            fail(f"props:angle:{hemi}", f".angle = {w_} is not the rotation angle in [0, pi]", rep)
        if abs(np.linalg.norm(n_) - 1) > 1e-9:
            fail(f"props:axis:{hemi}", f".axis = {n_.tolist()} is not a unit vector", rep)
        elif w_true > 1e-6 and not same_rot(Quaternion.from_axes_angles(n_, w_).data[0], q, 1e-9):
            fail(f"props:axis:{hemi}", "from_axes_angles(q.axis, q.angle) is another rotation", rep)
        # action through the class' own __mul__, one quaternion against several vectors
        vs = np.array([rand_vec(R) for _ in range(3)])
        if not np.allclose((X * Vector3d(vs)).data, vs @ om.T, atol=1e-9):
            fail(f"action:matrix:{cname}", f"{cname} * Vector3d differs from to_matrix() @ v", rep)
        if not np.allclose(X.to_matrix()[0], om, atol=1e-12):
            fail(f"action:matrix:{cname}", f"{cname}.to_matrix() differs from Quaternion.to_matrix()", rep)
        # AxAngle
        aa = AxAngle.from_rotation(X)
        pub = X.to_axes_angles()
        for lbl, v in (("AxAngle.from_rotation", aa), ("to_axes_angles", pub)):
            wv = float(v.angle[0])
            if abs(wv - np.linalg.norm(v.data[0])) > 1e-12 or wv > PI + 1e-9:
                fail(f"neo:{lbl}:range:{hemi}", f"{lbl}: angle property {wv} is not the vector length in [0, pi]", rep)
            if w_true > 1e-6:
                if not same_rot(Quaternion.from_axes_angles(v.axis, v.angle).data[0], q, 1e-9):
                    fail(f"neo:{lbl}:roundtrip:{hemi}", f"from_axes_angles({lbl}.axis, .angle) is another rotation", rep)
                v2 = AxAngle.from_axes_angles(v.axis, np.rad2deg(v.angle), degrees=True)
                if not close(v2.data, v.data) or not close(AxAngle.from_axes_angles(v.axis.data * 3.0, v.angle).data, v.data):
                    fail("neo:AxAngle.from_axes_angles", "AxAngle.from_axes_angles(axis, angle) does not rebuild the vector", rep)
            elif wv > 1e-5:
                fail(f"neo:{lbl}:roundtrip:{hemi}", f"{lbl} of a null rotation has angle {wv}", rep)
        # Rodrigues
        rr = Rodrigues.from_rotation(X)
        pr = X.to_rodrigues()
        if w_true > 1e-6:
            for lbl, v in (("Rodrigues.from_rotation", rr), ("to_rodrigues", pr)):
                cl = "pi" if qd[0] == 0 else hemi
                if np.linalg.norm(v.data[0]) > 1e-4:
                    if not same_rot(Quaternion.from_rodrigues(v).data[0], q, 1e-6):
                        fail(f"neo:{lbl}:roundtrip:{cl}", f"from_rodrigues({lbl}(q)) (Rodrigues object {v.data[0].tolist()} passed back) is "
                             f"another rotation: {Quaternion.from_rodrigues(v).data[0].tolist()}", rep)
                    if abs(float(v.angle[0]) - w_true) > 1e-6:
                        fail(f"neo:{lbl}:angle:{cl}", f"{lbl}(q).angle = {float(v.angle[0])}, rotation angle {w_true}", rep)
        # Homochoric
        hh = Homochoric.from_rotation(X)
        hn = float(np.linalg.norm(hh.data[0]))
        if not hn <= HO_MAX + 1e-9:
            fail(f"neo:Homochoric.from_rotation:range:{hemi}", f"length {hn} > (3pi/4)^(1/3)", rep)
        if not same_rot(Quaternion.from_homochoric(hh).data[0], q, 1e-6):
            fail(f"neo:Homochoric.from_rotation:roundtrip:{hemi}", "from_homochoric(Homochoric.from_rotation(q)) is another rotation", rep)
        if qd[0] >= 0 and not np.allclose(hh.data, X.to_homochoric().data, atol=1e-7):
            fail("neo:Homochoric.from_rotation:agree", "Homochoric.from_rotation(q) differs from q.to_homochoric()", rep)
    guarded(f"neo:{cname}", rep, neo)

# ---------------- scipy ----------------
for k in range(max(N // 10, 25)):
    cname, cls, kw = CLS[k % 5]
    m = [1, 1, 4][k % 3]
    qs = np.array([gen()[1] for _ in range(m)])
    st(f"scipy/{cname}")
    rep = {"q": qs.tolist(), "class": cname}

    def sp():
        Srot = SciPyRotation.from_quat(qs[:, [1, 2, 3, 0]] if m > 1 else qs[0, [1, 2, 3, 0]])   # scalar last
        X = cls.from_scipy_rotation(Srot, **kw)
        ref = np.asarray(Srot.inv().as_matrix()).reshape(-1, 3, 3)
        v = np.array(rand_vec(R))
        # from_scipy_rotation goes through from_matrix, whose kernel zeroes quaternion components below ~1.6e-5
        # (accepted by the main strata: |q.q'| >= 1 - 1e-7); tight tolerance outside that band
        tm, tq = (1e-9, 1e-12) if in_om_band(qs) is False else (1e-4, 1e-7)
        okq = X.shape == (m,) and type(X) is cls
        okq = okq and np.allclose(X.to_matrix(), ref, atol=tm)
        okq = okq and np.allclose((X * Vector3d(v)).data, np.asarray(Srot.inv().apply(v)).reshape(-1, 3), atol=tm * 10)
        okq = okq and rows_same_rot(X.data, qs * np.array([1, -1, -1, -1]), tq)
        if kw:
            okq = okq and X.symmetry.name == kw["symmetry"].name
        if not okq:
            fail(f"scipy:from_scipy_rotation:{cname}", f"{cname}.from_scipy_rotation(S) is not the inverse of the SciPy "
                 "rotation (matrix / action on a vector / quaternion)", rep)
        # SciPy as the independent reference implementation of the orientation matrix itself
        if not np.allclose(Quaternion(qs).to_matrix(), np.asarray(Srot.as_matrix()).reshape(-1, 3, 3), atol=1e-9):
            fail("reference:matrix:scipy", "to_matrix() differs from SciPy's matrix of the same quaternion", rep)
    guarded(f"scipy:from_scipy_rotation:{cname}", rep, sp)

# ---------------- start: Euler triplets outside the nominal ranges, direction spellings, input forms ----------------
DIRS = [("crystal2lab", True), ("MTEX", True), ("mtex", True), ("Crystal2Lab", True), ("LAB2CRYSTAL", False), ("lab2crystal", False)]
FORMS = [("list", lambda a: np.asarray(a).tolist()), ("tuple", lambda a: tuple(map(tuple, np.atleast_2d(a).tolist())) if np.ndim(a) > 1 else tuple(np.asarray(a).tolist())),
         ("ndarray", lambda a: np.asarray(a, float)), ("2d", lambda a: np.atleast_2d(np.asarray(a, float)))]
for k in range(max(N // 8, 40)):
    cname, cls, kw = CLS[k % 5]
    dname, inv_ = DIRS[k % len(DIRS)]
    fname, form = FORMS[(k // 2) % len(FORMS)]
    Phi = [R.uniform(-4 * PI, 4 * PI), R.uniform(-PI, 0), R.uniform(PI, 2 * PI), -PI, 2 * PI, 3 * PI, 0.0, PI][k % 8]
    e = [R.uniform(-4 * PI, 4 * PI), Phi, R.uniform(-4 * PI, 4 * PI)]
    deg = bool((k // 3) % 2)
    st(f"euler-wide/{dname}")
    rep = {"eu": e, "class": cname, "direction": dname, "degrees": deg, "form": fname}

    def ew():
        X = cls.from_euler(form(np.rad2deg(e) if deg else e), direction=dname, degrees=deg, **kw)
        ref = bunge_ref(e)
        ref = ref.T if inv_ else ref
        if X.shape != (1,) or not np.allclose(X.to_matrix()[0], ref, atol=1e-9):
            fail("start:eu:wide", f"{cname}.from_euler of an Euler triplet outside the nominal ranges / direction={dname!r} / "
                 f"degrees={deg} / {fname} input differs from the Bunge Z-X-Z reference", rep)
        qx = X.data[0]
        e2 = X.to_euler()[0]
        q_ad, q_bc = qx[0] ** 2 + qx[3] ** 2, qx[1] ** 2 + qx[2] ** 2
        ecl = "generic" if math.sqrt(q_ad * q_bc) >= 1e-9 else ("gimbal0" if q_bc < 1e-9 else "gimbalpi")
        if not (0 <= e2[0] <= 2 * PI and 0 <= e2[1] <= PI and 0 <= e2[2] <= 2 * PI):
            fail(f"range:eu:{ecl}", f"Euler angles {e2.tolist()} outside the documented ranges", rep)
        ed = X.to_euler(degrees=True)[0]
        if not np.allclose(ed, np.rad2deg(e2), atol=1e-9):
            fail("flag:degrees", "to_euler(degrees=True) is not a rescaling", rep)
        if not same_rot(Quaternion.from_euler(e2).data[0], qx):
            fail(f"roundtrip:eu:{ecl}", "Euler -> quaternion -> Euler -> quaternion changes the rotation", rep)
    guarded("start:eu:wide", rep, ew)

# ---------------- start: matrices (exact two-fold rotations about arbitrary axes; the 24 integer matrices) -------
for k in range(max(N // 10, 30)):
    cname, cls, kw = CLS[k % 5]
    fname, form = [("ndarray", lambda a: a), ("list", lambda a: a.tolist()), ("tuple", lambda a: tuple(map(tuple, a.tolist()))),
                   ("stack", lambda a: np.stack([a, a.T]))][k % 4]
    ax = np.array(norm(R.choice(AXES) if R.random() < 0.4 else rand_vec(R)))
    wm, mcl = [(PI, "pi"), (R.uniform(0.01, PI - 0.01), "generic"), (0.0, "zero"), (PI, "pi"), (R.choice(OFFS[3:]), "near0")][k % 5]
    Mx = 2 * np.outer(ax, ax) - np.eye(3) if mcl == "pi" else rodrigues_ref(ax, wm)
    st(f"matrix-start/{mcl}")
    rep = {"axis": ax.tolist(), "angle": wm, "matrix": Mx.tolist(), "class": cname, "form": fname}

    def ms():
        X = cls.from_matrix(form(Mx), **kw)
        back = X.to_matrix()
        want = np.stack([Mx, Mx.T]) if fname == "stack" else Mx[np.newaxis]
        tm = 1e-4 if in_om_band(axang_quat(ax.tolist(), wm)[1:] + [math.cos(wm / 2) if mcl != "pi" else 0.0]) else 1e-8
        if back.shape != want.shape or not np.allclose(back, want, atol=tm):
            fail(f"roundtrip:matrix-start:{mcl}", f"{cname}.from_matrix(M).to_matrix() != M ({fname} input)", rep)
        v = np.array(rand_vec(R))
        if not np.allclose((X[0] * Vector3d(v)).data[0], Mx @ v, atol=10 * tm):
            fail(f"action:matrix-start:{mcl}", f"{cname}.from_matrix(M) * v != M @ v", rep)
    guarded(f"roundtrip:matrix-start:{mcl}", rep, ms)

import itertools  # noqa: E402

INT24 = []
for perm in itertools.permutations(range(3)):
    for sg in itertools.product([1, -1], repeat=3):
        Mi = np.zeros((3, 3), dtype=np.int64)
        for i_ in range(3):
            Mi[i_, perm[i_]] = sg[i_]
        if round(np.linalg.det(Mi)) == 1:
            INT24.append(Mi)
st("matrix-start/int24")
for dt in (np.int64, np.float64):
    def m24():
        Ms = np.stack(INT24).astype(dt)
        for lbl, X in (("stack", Quaternion.from_matrix(Ms)), ("2x12", Orientation.from_matrix(Ms.reshape(2, 12, 3, 3), symmetry=_sym.Oh))):
            back = X.to_matrix().reshape(-1, 3, 3)
            bad = [i_ for i_ in range(24) if not np.allclose(back[i_], INT24[i_], atol=1e-9)]
            if bad:
                fail(f"roundtrip:matrix-start:int24:{np.dtype(dt).name}", f"from_matrix(M).to_matrix() != M for the signed permutation "
                     f"matrix {INT24[bad[0]].tolist()} ({lbl}, dtype {np.dtype(dt).name})", {"matrix": INT24[bad[0]].tolist(), "dtype": np.dtype(dt).name})
            e24 = X.to_euler().reshape(-1, 3)
            q24 = X.data.reshape(-1, 4)
            for i_ in range(24):
                qi = q24[i_]
                if math.sqrt((qi[0] ** 2 + qi[3] ** 2) * (qi[1] ** 2 + qi[2] ** 2)) < 1e-9 and qi[1] ** 2 + qi[2] ** 2 >= 1e-9:
                    continue        # gimbal Phi = pi: listed finding, reported by the main strata
                if not np.allclose(bunge_ref(e24[i_]), INT24[i_], atol=1e-8):
                    fail("reference:eu:int24", f"Bunge matrix of from_matrix(M).to_euler() != M for {INT24[i_].tolist()}", {"matrix": INT24[i_].tolist()})
    guarded("roundtrip:matrix-start:int24", {"dtype": np.dtype(dt).name}, m24)


# ---------------- start: axis-angle pairs, homochoric, Rodrigues, Rodrigues-Frank vectors ----------------
def ho_angle(h):
    lo, hi = 0.0, PI
    for _ in range(80):
        mid = (lo + hi) / 2
        if (0.75 * (mid - math.sin(mid))) ** (1 / 3) < h:
            lo = mid
        else:
            hi = mid
    return (lo + hi) / 2


AFORMS = [("list", lambda a: list(a)), ("tuple", lambda a: tuple(a)), ("ndarray", lambda a: np.array(a, float)),
          ("Vector3d", lambda a: Vector3d(np.array(a, float))), ("2d", lambda a: np.array([a], float))]
for k in range(max(N // 4, 80)):
    cname, cls, kw = CLS[k % 5]
    fname, form = AFORMS[(k // 5) % len(AFORMS)]
    ax = [float(x) for x in (R.choice(AXES) if R.random() < 0.4 else rand_vec(R, R.choice([1.0, 1e-3, 50.0])))]
    un = np.array(norm(ax))
    wcl, w = [("generic", R.uniform(0.01, PI - 0.01)), ("zero", 0.0), ("pi", PI), ("near0", R.choice(OFFS) * R.choice([1, -1])),
              ("nearpi", PI + R.choice(OFFS) * R.choice([1, -1])), ("negative", -R.uniform(0.01, PI)),
              ("over-pi", R.uniform(PI + 0.01, 2 * PI - 0.01)), ("over-2pi", R.uniform(2 * PI + 0.01, 4 * PI))][k % 8]
    rep = {"axis": ax, "angle": w, "class": cname, "form": fname}
    q_ref = np.array(axang_quat(un.tolist(), w))
    st(f"start/{wcl}")

    def sa():
        # axis-angle pair -> quaternion -> matrix against the Rodrigues formula; back within [0, pi]
        deg = bool(k % 2)
        X = cls.from_axes_angles(form(ax), np.rad2deg(w) if deg else w, degrees=deg, **kw)
        if X.shape != (1,) or not np.allclose(X.to_matrix()[0], rodrigues_ref(un, w), atol=3e-8):
            fail(f"start:ax:{wcl}", f"{cname}.from_axes_angles(axis, angle, degrees={deg}) ({fname} axis, not normalised) differs "
                 "from the Rodrigues-formula reference", rep)
        back = X.to_axes_angles()
        wb = float(back.angle[0])
        if wb > PI + 1e-9:
            fail(f"range:ax:start:{wcl}", f"rotation angle {wb} > pi from to_axes_angles()", rep)
        if not same_rot(Quaternion.from_axes_angles(back.axis, back.angle).data[0], q_ref, 1e-9) and abs(math.sin(w / 2)) > 1e-6:
            fail(f"roundtrip:ax:start:{wcl}", "axis-angle -> quaternion -> axis-angle -> quaternion changes the rotation", rep)
        # Rodrigues vector n tan(w/2) (three components) and (n, tan(w/2)) (Rodrigues-Frank)
        w0 = math.remainder(w, 2 * PI)       # in [-pi, pi]
        t = math.tan(w0 / 2)
        if 1e-5 < abs(t) < 1e8:
            r3 = un * t
            rin = Rodrigues(r3) if fname == "Vector3d" else (form(r3.tolist()) if fname != "Vector3d" else None)
            Y = cls.from_rodrigues(rin)
            if Y.shape != (1,) or not type(Y) is cls or not same_rot(Y.data[0], q_ref, 1e-9):
                fail(f"start:ro:{wcl}", f"{cname}.from_rodrigues(n tan(w/2)) ({fname}) is not the rotation by w about n", rep)
            rb = Y.to_rodrigues().data[0]
            if not np.allclose(rb, r3, rtol=1e-6, atol=1e-9):
                fail(f"roundtrip:ro:start:{wcl}", "Rodrigues vector -> quaternion -> Rodrigues vector changes the vector", rep)
        if abs(t) > 1e-5:
            tf = math.inf if wcl == "pi" else abs(t)
            nf = un * (1 if t >= 0 or wcl == "pi" else -1)
            Z = cls.from_rodrigues(form(nf.tolist()) if fname != "Vector3d" else Vector3d(nf), np.array([tf]))
            if Z.shape != (1,) or not same_rot(Z.data[0], q_ref, 1e-9):
                fail(f"start:rofrank:{wcl}", f"{cname}.from_rodrigues(n, tan(w/2)) ({fname}) is not the rotation by w about n", rep)
        # homochoric vector of length (3/4 (w - sin w))^(1/3), w in [0, pi]
        wh = abs(w0)
        h = (0.75 * (wh - math.sin(wh))) ** (1 / 3) if wcl != "pi" else HO_MAX
        hv = un * h * (1 if w0 >= 0 else -1)
        qh = np.array(axang_quat(un.tolist(), ho_angle(h) * (1 if w0 >= 0 else -1)))
        H = cls.from_homochoric(Homochoric(hv) if fname == "Vector3d" else form(hv.tolist()))
        if H.shape != (1,) or not type(H) is cls or not same_rot(H.data[0], qh, 1e-8) or not same_rot(H.data[0], q_ref, 1e-8):
            fail(f"start:ho:{wcl}", f"{cname}.from_homochoric(h) ({fname}) is not the rotation whose angle solves "
                 "|h|^3 = 3/4 (w - sin w)", rep)
        hb = H.to_homochoric().data[0]
        if H.data[0][0] >= 0 and not np.allclose(hb, hv, atol=1e-9 if h > 2e-4 else 2e-4):
            fail(f"roundtrip:ho:start:{wcl}", "homochoric vector -> quaternion -> homochoric vector changes the vector", rep)
    guarded(f"start:ax:{wcl}", rep, sa)

# ---------------- pure: conversions leave their inputs alone; repeated calls agree ----------------
for k in range(max(N // 25, 12)):
    cname, cls, kw = CLS[k % 4]
    qs = np.array([gen()[1] for _ in range(4)]).reshape(2, 2, 4)
    X = cls(qs)
    before = X.data.copy()
    st("pure")
    rep = {"q": qs.tolist(), "class": cname}

    def pu():
        first = {}
        for rnd in range(2):
            for name, f, tail in TO:
                out = vdata(f(X)).copy()
                if rnd and not close(out, first[name], 0.0):
                    fail(f"pure:{name}", f"{cname}.{name} called twice on the same object gives different values", rep)
                first.setdefault(name, out)
                if not np.array_equal(X.data, before):
                    fail(f"pure:{name}", f"{cname}.{name} modifies the quaternion it is called on", rep)
                    X.data[...] = before
        ins = {"from_euler": (np.rad2deg(first["to_euler"]), lambda a: cls.from_euler(a, degrees=True, direction="crystal2lab")),
               "from_matrix": (first["to_matrix"].copy(), lambda a: cls.from_matrix(a)),
               "from_axes_angles": (first["axis"] * 2.5, lambda a: cls.from_axes_angles(a, np.rad2deg(first["angle"]), degrees=True)),
               "from_axes_angles:Vector3d": (first["axis"] * 2.5, lambda a: cls.from_axes_angles(Vector3d(a), first["angle"])),
               "from_homochoric": (first["to_homochoric"].copy(), lambda a: cls.from_homochoric(Homochoric(a))),
               "from_rodrigues": (first["to_rodrigues"].copy(), lambda a: cls.from_rodrigues(Rodrigues(a))),
               "from_rodrigues:frank": (first["to_rodrigues:frank"].copy(), lambda a: cls.from_rodrigues(a[..., :3], a[..., 3]))}
        for name, (a, f) in ins.items():
            a0 = a.copy()
            ang0 = first["angle"].copy()
            f(a)
            if not np.array_equal(a, a0, equal_nan=True) or not np.array_equal(first["angle"], ang0):
                fail(f"pure:{name}", f"{cname}.{name} modifies the array passed to it", rep)
    guarded("pure", rep, pu)

# ---------------- chain: one rotation carried through every representation in turn ----------------
for k in range(max(N // 5, 60)):
    name, q = gen()
    cname, cls, kw = CLS[k % 5]
    q_ad, q_bc = q[0] ** 2 + q[3] ** 2, q[1] ** 2 + q[2] ** 2
    if math.sqrt(q_ad * q_bc) < 1e-9 and q_bc >= 1e-9:
        continue            # to_euler at Phi = pi: listed finding, reported by the main strata
    st(f"chain/{cname}")
    rep = {"q": q, "stratum": name, "class": cname}

    def ch():
        w_true = 2 * math.acos(min(1.0, abs(q[0])))
        steps = [("euler", lambda X: cls.from_euler(X.to_euler(degrees=True), degrees=True, **kw)),
                 ("matrix", lambda X: cls.from_matrix(X.to_matrix(), **kw)),        # scalar part >= 0 from here on
                 ("homochoric", lambda X: cls.from_homochoric(X.to_homochoric())),
                 ("axes_angles", lambda X: cls.from_axes_angles(X.to_axes_angles().axis, X.to_axes_angles().angle, **kw)),
                 ("rodrigues", lambda X: cls.from_rodrigues(X.to_rodrigues())),
                 ("rodrigues:frank", lambda X: cls.from_rodrigues(X.to_rodrigues(frank=True)[..., :3], X.to_rodrigues(frank=True)[..., 3])),
                 ("euler:crystal2lab", lambda X: ~cls.from_euler(X.to_euler(), direction="crystal2lab", **kw))]
        rot = k % len(steps)
        order = steps[:2] + [steps[2 + (j + rot) % 5] for j in range(5)]
        X = cls(q)
        for sname, f in order:
            if w_true < 1e-4 and sname.startswith(("axes", "rod")):
                continue
            x = X.data[0]
            if sname.startswith("euler") and math.sqrt((x[0] ** 2 + x[3] ** 2) * (x[1] ** 2 + x[2] ** 2)) < 1e-9 <= x[1] ** 2 + x[2] ** 2:
                continue    # an earlier step (Rodrigues-Frank within 1e-3 of pi, om2qu) snapped it onto Phi = pi: listed finding
            X = f(X)
            if not type(X) is cls or X.shape != (1,) or not same_rot(X.data[0], q, 1e-6):
                fail(f"chain:{sname}", f"after the steps up to {sname} of a chain of conversions ({cname}) the rotation has changed", rep)
                return
    guarded("chain", rep, ch)

# ---------------- dtype: integer and single-precision quaternions ----------------
INTQ = np.array([[1, 0, 0, 0], [-1, 0, 0, 0], [0, 1, 0, 0], [0, -1, 0, 0], [0, 0, 1, 0], [0, 0, -1, 0], [0, 0, 0, 1], [0, 0, 0, -1]])
F32 = np.array([rand_unit_quat(R, h) for h in ("pos", "neg", "pos", "neg")])
for dname, raw, tol in (("int64", INTQ.astype(np.int64), 1e-12), ("int32", INTQ.astype(np.int32), 1e-12), ("float32", F32.astype(np.float32), 2e-6)):
    for cname, cls, kw in CLS[:3]:
        st(f"dtype/{dname}")
        rep = {"q": raw.tolist(), "dtype": dname, "class": cname}

        def dt_():
            X, Y = cls(raw), cls(raw.astype(np.float64))
            for name, f, tail in TO:
                a, b = vdata(f(X)), vdata(f(Y))
                okd = ang_close(a, b, tol) if name == "to_euler" else close(a, b, tol)
                if not okd:
                    fail(f"dtype:{dname}:{name}", f"{cname}.{name} of {dname} data differs from the same data as float64", rep)
            vv = Vector3d(np.array(rand_vec(R)))
            if not close((X * vv).data, (Y * vv).data, tol):
                fail(f"dtype:{dname}:action", f"{cname} * Vector3d of {dname} data differs from the same data as float64", rep)
        guarded(f"dtype:{dname}", rep, dt_)
# integer Euler angles / axes / angles in degrees (the documented usage from_axes_angles((0, 0, -1), 90, degrees=True))
for e_int in ([90, 0, 0], [0, 90, 0], [180, 180, 0], [45, 54, 270], [360, 0, 90], [-90, 30, 450]):
    st("dtype/int-degrees")
    rep = {"eu_degrees": e_int}

    def di():
        for cname, cls, kw in CLS:
            if not np.allclose(cls.from_euler(e_int, degrees=True, **kw).to_matrix()[0], bunge_ref(np.deg2rad(e_int)), atol=1e-9) or \
                    not np.allclose(cls.from_euler(np.array([e_int]), degrees=True, **kw).to_matrix()[0], bunge_ref(np.deg2rad(e_int)), atol=1e-9):
                fail("dtype:int:from_euler", f"{cname}.from_euler(integer degrees) differs from the Bunge reference", rep)
            axi = [[0, 0, -1], [1, 1, 0], [1, -1, 1]][abs(e_int[0]) % 3]
            if not np.allclose(cls.from_axes_angles(axi, e_int[2] + 30, degrees=True, **kw).to_matrix()[0],
                               rodrigues_ref(norm(axi), math.radians(e_int[2] + 30)), atol=1e-9):
                fail("dtype:int:from_axes_angles", f"{cname}.from_axes_angles(integer axis, integer degrees) differs from the Rodrigues reference", rep)
    guarded("dtype:int-degrees", rep, di)

emit({"cases": cases, "fails": fails, "strata": strata})
