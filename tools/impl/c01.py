"""C01 implementation harness: rotation representation conversions."""
import math

import numpy as np
from common import axang_quat, emit, payload, rand_unit_quat, rand_vec, rng

from orix.quaternion import Orientation, Quaternion, Rotation
from orix.vector import Vector3d

P = payload()
R = rng(P.get("seed", 0))
N = P.get("n", 300)
PI = math.pi

cases, fails, strata = [], [], {}


def st(k):
    strata[k] = strata.get(k, 0) + 1


def fail(sig, what, rep):
    fails.append({"sig": sig, "what": what, "replay": rep})


def norm(q):
    n = math.sqrt(sum(x * x for x in q))
    return [x / n for x in q]


# offsets deliberately avoid the kernels' own thresholds (1e-3, 1e-8, 1e-9) so that float noise cannot flip a branch
OFFS = [2e-3, 5e-4, 1e-4, 1e-6, 3e-8, 4e-9, 1e-10, 1e-12]
AXES = [[1, 0, 0], [0, 1, 0], [0, 0, 1], [1, 1, 0], [1, 1, 1], [-1, 1, 0], [1, -1, 1], [0, -1, 0],
        [1, 1e-7, 0], [1e-9, 1, -1e-9]]


def gen():
    """-> (stratum, unit quaternion)"""
    t = R.random()
    if t < 0.25:
        return "generic-pos", rand_unit_quat(R, "pos")
    if t < 0.45:
        return "generic-neg", rand_unit_quat(R, "neg")
    ax = R.choice(AXES) if R.random() < 0.6 else rand_vec(R)
    sgn = R.choice([1, -1])
    if t < 0.52:
        return "angle0", [float(sgn), 0.0, 0.0, 0.0]
    if t < 0.62:
        q = axang_quat(ax, PI)
        q[0] = 0.0
        return "anglepi", [sgn * x for x in norm(q)]
    if t < 0.72:
        w = R.choice(OFFS)
        return "near0", [sgn * x for x in axang_quat(ax, w)]
    if t < 0.82:
        w = PI - R.choice(OFFS) * R.choice([1, -1])
        return "nearpi", [sgn * x for x in axang_quat(ax, w)]
    # Euler strata
    p1, p2 = R.uniform(0, 2 * PI), R.uniform(0, 2 * PI)
    if t < 0.88:
        Phi = 0.0
        name = "gimbal0"
    elif t < 0.94:
        Phi = PI
        name = "gimbalpi"
    else:
        Phi = R.choice([0.0, PI]) + R.choice(OFFS) * R.choice([1, -1])
        Phi = abs(Phi) if Phi < PI else (Phi if Phi <= PI else 2 * PI - Phi)
        name = "neargimbal"
    q = Quaternion.from_euler([p1, Phi, p2]).data[0].tolist()
    return name, [sgn * x for x in q]


def bunge_ref(e):
    """independent reference: passive Bunge Z-X-Z matrix"""
    c1, s1, c, s, c2, s2 = math.cos(e[0]), math.sin(e[0]), math.cos(e[1]), math.sin(e[1]), math.cos(e[2]), math.sin(e[2])
    Z1 = np.array([[c1, s1, 0], [-s1, c1, 0], [0, 0, 1]])
    X = np.array([[1, 0, 0], [0, c, s], [0, -s, c]])
    Z2 = np.array([[c2, s2, 0], [-s2, c2, 0], [0, 0, 1]])
    return Z2 @ X @ Z1


def rodrigues_ref(n, w):
    """independent reference: PASSIVE rotation matrix for axis n, angle w (orix convention)"""
    n = np.asarray(n, float)
    K = np.array([[0, -n[2], n[1]], [n[2], 0, -n[0]], [-n[1], n[0], 0]])
    # orix: q = (cos w/2, n sin w/2) rotates vectors by qu_rotate_vec == active rotation by w about n
    return np.eye(3) + math.sin(w) * K + (1 - math.cos(w)) * K @ K


def same_rot(q1, q2, tol=1e-7):
    return abs(float(np.dot(q1, q2))) >= 1 - tol


HO_MAX = (3 * PI / 4) ** (1 / 3)

for k in range(N):
    name, q = gen()
    st(name)
    Q = Quaternion(q)
    neg = q[0] < 0
    hemi = "neg" if neg else "pos"
    w_true = 2 * math.acos(min(1.0, abs(q[0])))
    c = {"stratum": name, "q": q, "qn": Q.unit.data[0].tolist()}   # wrappers normalise first
    om = Q.to_matrix()[0]
    eu = Q.to_euler()[0]
    axa = Q.to_axes_angles()
    ax3 = axa.data[0]
    rof = Q.to_rodrigues(frank=True)[0]
    ho = Q.to_homochoric().data[0]
    c.update(om=om.reshape(-1).tolist(), eu=eu.tolist(), ax3=ax3.tolist(), rof=rof.tolist(), ho=ho.tolist())
    c["q_om"] = Quaternion.from_matrix(om).data[0].tolist()
    c["q_eu"] = Quaternion.from_euler(eu).data[0].tolist()
    c["q_ho"] = Quaternion.from_homochoric(ho).data[0].tolist()
    ro3_all = Q.to_rodrigues().data[0]
    c["ro3"] = ro3_all.tolist()
    c["q_r3"] = Quaternion.from_rodrigues(ro3_all).data[0].tolist()
    cases.append(c)
    rep = {"q": q, "stratum": name}
    # classes used in failure signatures: computed from q itself (not from the generator's stratum)
    q_ad, q_bc = q[0] ** 2 + q[3] ** 2, q[1] ** 2 + q[2] ** 2
    ecl = "generic" if math.sqrt(q_ad * q_bc) >= 1e-9 else ("gimbal0" if q_bc < 1e-9 else "gimbalpi")
    ocl = "pi" if 4 * q[0] ** 2 < 1e-9 else "generic"
    # ---------------- oracle ----------------
    v = np.array(rand_vec(R))
    qv = (Q * Vector3d(v)).data[0]
    if not np.allclose(om @ v, qv, atol=1e-9):
        fail("action:matrix", "to_matrix() @ v != Q * v", rep)
    if not (np.allclose(om @ om.T, np.eye(3), atol=1e-9) and abs(np.linalg.det(om) - 1) < 1e-9):
        fail("matrix:orthogonal", "to_matrix() is not a proper orthogonal matrix", rep)
    # Euler: range, reference, round trip
    if not (0 <= eu[0] <= 2 * PI and 0 <= eu[1] <= PI and 0 <= eu[2] <= 2 * PI):
        fail(f"range:eu:{ecl}", f"Euler angles {eu.tolist()} outside [0,2pi]x[0,pi]x[0,2pi]", rep)
    if not np.allclose(bunge_ref(eu), om, atol=2e-8):
        fail(f"reference:eu:{ecl}", "Bunge matrix of to_euler() differs from to_matrix()", rep)
    if not same_rot(c["q_eu"], q):
        fail(f"roundtrip:eu:{ecl}", "from_euler(to_euler(q)) is another rotation", rep)
    if not same_rot(c["q_om"], q):
        fail(f"roundtrip:om:{ocl}", "from_matrix(to_matrix(q)) is another rotation", rep)
    # axis-angle
    ang = float(np.linalg.norm(ax3))
    if ang > PI + 1e-9:
        fail(f"range:ax:{hemi}", f"rotation angle {ang} > pi from to_axes_angles()", rep)
    if ang > 1e-9:
        n = ax3 / ang
        if not np.allclose(rodrigues_ref(n, ang), om, atol=2e-8):
            fail(f"reference:ax:{hemi}", "Rodrigues-formula matrix of to_axes_angles() differs from to_matrix()", rep)
        q_ax = Quaternion.from_axes_angles(n, ang).data[0]
        if not same_rot(q_ax, q):
            fail(f"roundtrip:ax:{hemi}", "from_axes_angles(to_axes_angles(q)) is another rotation", rep)
    elif w_true > 1e-6:
        fail(f"roundtrip:ax:{hemi}", "to_axes_angles() returns a null rotation for a non-trivial one", rep)
    # Rodrigues and Rodrigues-Frank, including rotations by exactly pi (the vector is then ~1e16 long / has an
    # infinite fourth component, and must still come back as the same rotation)
    if w_true > 1e-6:
        q_rf = Quaternion.from_rodrigues(rof[:3], np.array([rof[3]])).data[0]
        if not same_rot(q_rf, q, 1e-6):
            fail(f"roundtrip:rofrank:{hemi}", "from_rodrigues(to_rodrigues(frank=True)) is another rotation", rep)
        ro3 = Q.to_rodrigues().data[0]
        if np.linalg.norm(ro3) > 1e-4:
            q_r3 = Quaternion.from_rodrigues(ro3).data[0]
            if not same_rot(q_r3, q, 1e-6):
                fail(f"roundtrip:ro:{hemi}", "from_rodrigues(to_rodrigues()) is another rotation", rep)
    # homochoric
    hn = float(np.linalg.norm(ho))
    if hn > HO_MAX + 1e-9:
        fail(f"range:ho:{hemi}", f"homochoric length {hn} > (3pi/4)^(1/3)", rep)
    if not same_rot(c["q_ho"], q, 1e-6):
        fail(f"roundtrip:ho:{hemi}", "from_homochoric(to_homochoric(q)) is another rotation", rep)

# ---------------- flags, shapes, starting from other representations ----------------
for k in range(max(N // 10, 10)):
    e = [R.uniform(0, 2 * PI), R.choice([0.0, PI, R.uniform(0, PI)]), R.uniform(0, 2 * PI)]
    st("euler-start")
    Q = Quaternion.from_euler(e)
    if not np.allclose(Q.to_matrix()[0], bunge_ref(e), atol=1e-9):
        fail("reference:from_euler", "from_euler(e).to_matrix() differs from the Bunge Z-X-Z reference", {"eu": e})
    Qd = Quaternion.from_euler(np.rad2deg(e), degrees=True)
    if not np.allclose(Qd.data, Q.data, atol=1e-12):
        fail("flag:degrees", "degrees=True does more than rescale the angles", {"eu": e})
    if not np.allclose(Q.to_euler(degrees=True), np.rad2deg(Q.to_euler()), atol=1e-9):
        fail("flag:degrees", "to_euler(degrees=True) is not a rescaling", {"eu": e})
    Qc = Quaternion.from_euler(e, direction="crystal2lab")
    if not same_rot(Qc.data[0], (~Q).data[0], 1e-12):
        fail("flag:direction", "direction='crystal2lab' is not the inverse rotation", {"eu": e})
    e2 = Q.to_euler()[0]
    if not same_rot(Quaternion.from_euler(e2).data[0], Q.data[0]):
        cl = "gimbalpi" if abs(e[1] - PI) < 1e-9 else ("gimbal0" if abs(e[1]) < 1e-9 else "generic")
        fail(f"roundtrip:eu:{cl}", "Euler -> quaternion -> Euler -> quaternion changes the rotation", {"eu": e})
    # matrices and vectors as starting points
    M = bunge_ref(e)
    if abs(np.trace(M) + 1) > 1e-3:
        if not np.allclose(Quaternion.from_matrix(M).to_matrix()[0], M, atol=1e-8):
            fail("roundtrip:matrix-start", "from_matrix(M).to_matrix() != M", {"eu": e})
# the flags on every class that has its own constructors (Orientation overrides from_euler / from_matrix /
# from_axes_angles to take a symmetry): degrees only rescales, direction only inverts
from orix.quaternion import Misorientation  # noqa: E402
from orix.quaternion import symmetry as _sym  # noqa: E402

for k in range(max(N // 25, 8)):
    e = [R.uniform(0, 2 * PI), R.uniform(0.05, PI - 0.05), R.uniform(0, 2 * PI)]
    ax = norm(rand_vec(R))
    w = R.uniform(0.1, 3.0)
    ref = bunge_ref(e)
    for cls, kw in ((Quaternion, {}), (Rotation, {}), (Orientation, {}), (Orientation, {"symmetry": _sym.Oh}),
                    (Orientation, {"symmetry": _sym.D6}), (Misorientation, {})):
        name = cls.__name__ + ("+symmetry" if kw else "")
        st(f"flags/{name}")
        rep = {"eu": e, "class": name}
        try:
            A = cls.from_euler(e, **kw)
            B = cls.from_euler(np.rad2deg(e), degrees=True, **kw)
            C = cls.from_euler(e, direction="crystal2lab", **kw)
            D = cls.from_euler(np.rad2deg(e), direction="crystal2lab", degrees=True, **kw)
            if not np.allclose(A.to_matrix()[0], ref, atol=1e-9):
                fail(f"reference:from_euler:{name}", f"{name}.from_euler(e).to_matrix() differs from the Bunge Z-X-Z reference", rep)
            if not np.allclose(B.data, A.data, atol=1e-12):
                fail(f"flag:degrees:{name}", f"{name}.from_euler(degrees=True) does more than rescale the angles", rep)
            if not np.allclose(C.to_matrix()[0], ref.T, atol=1e-9):
                fail(f"flag:direction:{name}", f"{name}.from_euler(direction='crystal2lab') is not the inverse rotation", rep)
            if not np.allclose(D.data, C.data, atol=1e-12):
                fail(f"flag:direction+degrees:{name}", f"{name}.from_euler with both flags differs from direction alone", rep)
            if kw and (A.symmetry.name != kw["symmetry"].name or C.symmetry.name != kw["symmetry"].name):
                fail(f"flag:symmetry:{name}", f"{name}.from_euler loses the symmetry", rep)
            if cls is not Misorientation:
                F = cls.from_axes_angles(ax, w, **kw)
                G = cls.from_axes_angles(ax, np.rad2deg(w), degrees=True, **kw)
                if not np.allclose(F.data, G.data, atol=1e-12) or not np.allclose(F.to_matrix()[0], rodrigues_ref(ax, w), atol=1e-9):
                    fail(f"flag:degrees:from_axes_angles:{name}", f"{name}.from_axes_angles(degrees=True) does more than rescale", rep)
                M = cls.from_matrix(ref, **kw)
                if not np.allclose(M.to_matrix()[0], ref, atol=1e-8):
                    fail(f"roundtrip:matrix-start:{name}", f"{name}.from_matrix(M).to_matrix() != M", rep)
        except Exception as ex:  # noqa
            fail(f"flag:raises:{name}", f"{type(ex).__name__}: {ex}", rep)

for shape in [(1,), (5,), (2, 3), (2, 1, 2), (0,)]:
    st(f"shape{shape}")
    n = int(np.prod(shape))
    q = np.array([rand_unit_quat(R, "pos") for _ in range(n)]).reshape(shape + (4,))
    for cls in (Quaternion, Rotation, Orientation):
        try:
            Q = cls(q)
            ok = (Q.to_matrix().shape == shape + (3, 3) and Q.to_euler().shape == shape + (3,)
                  and Q.to_homochoric().shape == shape and Q.to_axes_angles().shape == shape
                  and Q.to_rodrigues().shape == shape and Q.to_rodrigues(frank=True).shape == shape + (4,))
            if n:
                ok = ok and same_rot(cls.from_matrix(Q.to_matrix()).data.reshape(-1, 4)[-1], q.reshape(-1, 4)[-1])
                ok = ok and cls.from_euler(Q.to_euler()).shape == shape
                flat = Q.to_euler().reshape(-1, 3)
                ok = ok and np.allclose(flat[-1], cls(q.reshape(-1, 4)[-1]).to_euler()[0])
        except Exception as ex:  # noqa
            ok = False
            rep = f"{type(ex).__name__}: {ex}"
        if not ok:
            fail(f"shape:{'empty' if n == 0 else 'nd'}", f"conversions of a {cls.__name__} of shape {shape} have wrong shapes/values", {"shape": shape})

emit({"cases": cases, "fails": fails, "strata": strata})
