"""C20 implementation harness: observations for the Coq correspondence and the
property oracle, both on /repo's working tree.

payload: {"seed": int, "n": int, "tier": "quick"|"thorough"}
output:  {"cases": [...], "fails": [...], "strata": {...}}
"""
import math

import numpy as np
from common import emit, payload, rand_vec, rng

from orix.measure.pole_density_function import pole_density_function
from orix.projections import InverseStereographicProjection, StereographicProjection
from orix.quaternion import symmetry as osym
from orix.sampling.S2_sampling import _sample_S2_equal_area_coordinates
from orix.vector import Vector3d

P = payload()
R = rng(P.get("seed", 0))
N = P.get("n", 200)
TIER = P.get("tier", "quick")

cases, fails, strata = [], [], {}


def st(k, n=1):
    strata[k] = strata.get(k, 0) + n


def fail(sig, what, rep):
    fails.append({"sig": sig, "what": what, "replay": rep})


# ------------------------------------------------------------------ generators
def unit(v):
    n = math.sqrt(sum(c * c for c in v))
    return [c / n for c in v]


def rand_unit():
    while True:
        v = [R.gauss(0, 1) for _ in range(3)]
        if sum(c * c for c in v) > 1e-6:
            return unit(v)


def gen_vector():
    """-> (stratum, [x, y, z]) over the strata of the quantifier"""
    s = R.choice(["unit", "unit", "unit", "pole", "equator", "near-equator", "nonunit", "nonunit",
                  "short", "axis", "snap-band", "zero"])
    if s == "unit":
        return s, rand_unit()
    if s == "pole":
        return s, [0.0, 0.0, R.choice([1.0, -1.0]) * R.choice([1.0, 1.0, 2.5, 1e-3])]
    if s == "equator":
        a = R.choice([R.uniform(0, 2 * math.pi), 0.0, math.pi / 2, math.pi, 1.5 * math.pi])
        k = R.choice([1.0, 1.0, 3.0, 0.01])
        return s, [k * math.cos(a), k * math.sin(a), 0.0]
    if s == "near-equator":
        a = R.uniform(0, 2 * math.pi)
        z = R.choice([1e-10, -1e-10, 5e-10, -5e-10, 2e-9, -2e-9, 1e-7, -1e-7, 9.99e-10, -1.001e-9])
        h = math.sqrt(1 - z * z)
        return s, [h * math.cos(a), h * math.sin(a), z]
    if s == "nonunit":
        k = R.choice([1e-3, 0.3, 2.0, 17.0, 1e4, 1e-6])
        return s, [k * c for c in rand_unit()]
    if s == "short":       # shorter than the 1e-9 tolerance of the hemisphere test
        k = R.choice([1e-10, 5e-10, 3e-12, 9e-10])
        return s, [k * c for c in rand_unit()]
    if s == "axis":
        v = [0.0, 0.0, 0.0]
        v[R.randrange(3)] = R.choice([1.0, -1.0])
        return s, v
    if s == "snap-band":   # x or y inside (0, 1e-8]: the band in which Vector3d.azimuth used to round
        # whatever the length; now only components below 1e-8 |v| are rounded (the short vectors
        # of this stratum are outside that band, the unit vectors inside)
        k = R.choice([1.0, 1.0, 1e-8, 3e-9, 0.5])
        if k < 1e-6:
            return s, [k * c for c in rand_unit()]
        e = R.choice([5e-9, -5e-9, 1e-9, 9.9e-9])
        z = R.uniform(-1, 1)
        h = math.sqrt(max(0.0, 1 - z * z - e * e))
        return s, R.choice([[e, h, z], [h, e, z], [e, -e, R.choice([1.0, -1.0])]])
    return s, [0.0, 0.0, 0.0]


def norm(v):
    return math.sqrt(v[0] ** 2 + v[1] ** 2 + v[2] ** 2)


def in_snap_band(v):
    """the absolute band of the former azimuth rounding (names the stratum of the repaired defect)"""
    return any(0 < abs(c) <= 1e-8 for c in v[:2])


def in_rel_band(v):
    """x or y is rounded by Vector3d.azimuth: 0 < |c| <= 1e-8 |v| (with a margin for float rounding)"""
    n = norm(v)
    return any(0 < abs(c) <= 1.0000001e-8 * n for c in v[:2])


# ------------------------------------------------------------ forward projection
def do_proj():
    pole = R.choice([-1, 1])
    vs, ss = [], []
    for _ in range(R.randint(1, 12)):
        s, v = gen_vector()
        vs.append(v); ss.append(s); st("proj/" + s)
    sp = StereographicProjection(pole)
    x, y = sp.vector2xy(Vector3d(np.array(vs, dtype=float)))
    out = [[float(a), float(b)] for a, b in zip(x, y)]
    cases.append({"k": "proj", "pole": pole, "vs": vs, "out": out})
    # ---- oracle: which vectors must be returned, where, and the round trip
    inv = InverseStereographicProjection(pole)
    V = Vector3d(np.array(vs, dtype=float))
    # the documented selection: the hemisphere test on the UNIT vectors
    mask = np.atleast_1d(V.unit <= sp.region)
    rep = {"pole": pole, "vs": vs, "out": out}
    if int(mask.sum()) != len(out):
        raw = np.atleast_1d(V <= sp.region)
        if int(raw.sum()) == len(out):
            # the implementation tests the vectors as given: name the first vector it gets wrong
            for v, m, mr in zip(vs, mask, raw):
                if bool(m) != bool(mr):
                    n = norm(v)
                    tag = ":unnormalised-test" if n < 1 and abs(v[2]) < 1e-9 else ""
                    fail("vector2xy:selection" + tag,
                         f"vector {v} (unit z = {v[2] / n if n else 0.0}) is {'returned' if mr else 'not returned'} by "
                         f"vector2xy(pole={pole}): the hemisphere test -pole*z > -1e-9 is made on the un-normalised "
                         f"vector", rep)
                    return
        fail("vector2xy:selection", f"vector2xy(pole={pole}) returned {len(out)} points, {int(mask.sum())} unit vectors "
             f"satisfy v <= region", rep)
        return
    k = 0
    for v, m in zip(vs, mask):
        n = norm(v)
        u = [c / n for c in v] if n > 0 else [0.0, 0.0, 0.0]
        side = -pole * u[2]          # >= 0: on the hemisphere that is projected
        if n > 0 and ((side >= 0 and not m) or (side < -1e-9 and m)):
            tag = ":unnormalised-test" if n < 1 and abs(v[2]) < 1e-9 else ""
            fail("vector2xy:selection" + tag,
                 f"vector {v} (unit z = {u[2]}) is {'returned' if m else 'not returned'} by vector2xy(pole={pole}): "
                 f"the hemisphere test -pole*z > -1e-9 is made on the un-normalised vector", rep)
            return
        if not m:
            continue
        X, Y = out[k]; k += 1
        if n == 0 or side < 0:
            continue
        if not (X * X + Y * Y <= 1 + 1e-12):
            fail("vector2xy:disk", f"projected point ({X}, {Y}) of {v} is outside the unit disk", rep)
            return
        w = inv.xy2vector(np.array([X]), np.array([Y])).data[0]
        if not n_close(w, u, 1e-9):
            fail("vector2xy:roundtrip", f"xy2vector(vector2xy(v)) = {w.tolist()} != unit v = {u} (pole {pole})", rep)
            return


def n_close(a, b, tol=1e-9):
    return all(abs(float(x) - float(y)) <= tol * max(1.0, abs(float(y))) for x, y in zip(a, b))


# ------------------------------------------------------------ inverse projection
def do_inv():
    pole = R.choice([-1, 1])
    pts = []
    for _ in range(R.randint(1, 10)):
        s = R.choice(["disk", "disk", "circle", "outside", "origin", "far", "axis"])
        st("inv/" + s)
        a = R.uniform(0, 2 * math.pi)
        if s == "disk":
            r = math.sqrt(R.random())
        elif s == "circle":
            r = 1.0
        elif s == "outside":
            r = R.uniform(1.0, 5.0)
        elif s == "origin":
            r = 0.0
        elif s == "far":
            r = R.choice([1e3, 1e6])
        else:
            r = R.choice([0.5, 1.0]); a = R.choice([0.0, math.pi / 2, math.pi])
        pts.append([r * math.cos(a), r * math.sin(a)])
    inv = InverseStereographicProjection(pole)
    X = np.array([p[0] for p in pts]); Y = np.array([p[1] for p in pts])
    v = inv.xy2vector(X, Y)
    out = v.data.tolist()
    cases.append({"k": "inv", "pole": pole, "pts": pts, "out": out})
    sp = StereographicProjection(pole)
    for p, w in zip(pts, out):
        if abs(norm(w) - 1) > 1e-9:
            fail("xy2vector:unit", f"xy2vector({p}) is not a unit vector: {w}", {"pole": pole, "pts": pts})
            return
        r2 = p[0] ** 2 + p[1] ** 2
        if (r2 <= 1) != (-pole * w[2] >= -1e-12) and abs(r2 - 1) > 1e-9:
            fail("xy2vector:hemisphere", f"xy2vector({p}) = {w} is on the wrong hemisphere for pole {pole}",
                 {"pole": pole, "pts": pts})
            return
        if r2 <= 1:
            x, y = sp.vector2xy(Vector3d(np.array([w])))
            if len(x) != 1 or not n_close([x[0], y[0]], p, 1e-9):
                fail("xy2vector:roundtrip", f"vector2xy(xy2vector({p})) = {x.tolist(), y.tolist()} (pole {pole})",
                     {"pole": pole, "pts": pts})
                return


# -------------------------------------------------------------------------- split
def do_split():
    vs, ss = [], []
    for _ in range(R.randint(1, 12)):
        s, v = gen_vector()
        vs.append(v); ss.append(s); st("split/" + s)
    xu, yu, xl, yl = StereographicProjection.vector2xy_split(Vector3d(np.array(vs, dtype=float)))
    up = [[float(a), float(b)] for a, b in zip(xu, yu)]
    lo = [[float(a), float(b)] for a, b in zip(xl, yl)]
    cases.append({"k": "split", "vs": vs, "up": up, "lo": lo})
    if len(up) + len(lo) < len(vs):
        fail("split:assignment", f"vector2xy_split dropped vectors: {len(up)} upper + {len(lo)} lower < {len(vs)}",
             {"vs": vs, "up": up, "lo": lo})
        return
    V = Vector3d(np.array(vs, dtype=float))
    from orix.projections.stereographic import _LOWER_HEMISPHERE, _UPPER_HEMISPHERE
    # the documented assignment: the hemisphere tests on the UNIT vectors
    mu = np.atleast_1d(V.unit <= _UPPER_HEMISPHERE)
    ml = np.atleast_1d(V.unit <= _LOWER_HEMISPHERE)
    if (int(mu.sum()), int(ml.sum())) != (len(up), len(lo)):
        ru = np.atleast_1d(V <= _UPPER_HEMISPHERE)
        rl = np.atleast_1d(V <= _LOWER_HEMISPHERE)
        if (int(ru.sum()), int(rl.sum())) == (len(up), len(lo)):
            # the implementation tests the vectors as given: name the first vector it gets wrong
            for v, a, b, a2, b2 in zip(vs, mu, ml, ru, rl):
                if (bool(a), bool(b)) != (bool(a2), bool(b2)):
                    n = norm(v)
                    tag = ":unnormalised-test" if n < 1 and abs(v[2]) < 1e-9 else ""
                    fail("split:assignment" + tag,
                         f"vector {v} (unit z = {v[2] / n if n else 0.0}) is assigned upper={bool(a2)} "
                         f"lower={bool(b2)} by vector2xy_split (the hemisphere test is made on the un-normalised "
                         f"vector)", {"vs": vs, "up": up, "lo": lo})
                    return
        fail("split:assignment", "vector2xy_split does not return the vectors selected by v.unit <= hemisphere",
             {"vs": vs, "up": up, "lo": lo})
        return
    # coordinates: every selected vector is projected as its UNIT vector (independent reference formula)
    U = np.asarray(V.unit.data, float).reshape(-1, 3)
    for pole, mask, got, tag2 in ((-1, mu, up, "upper"), (1, ml, lo, "lower")):
        ref = []
        for u, m in zip(U, mask):
            if m:
                den = u[2] - pole
                ref.append([0.0, 0.0] if den == 0 else [-pole * u[0] / den, -pole * u[1] / den])
        if len(ref) == len(got) and len(ref) and np.max(np.abs(np.array(ref) - np.array(got))) > 1e-9:
            fail("split:coordinates", f"vector2xy_split {tag2} coordinates differ from the stereographic projection of the "
                                      f"unit vectors (non-unit input is not normalised?)", {"vs": vs, tag2: got, "expected": ref})
            return
    for v, a, b in zip(vs, mu, ml):
        n = norm(v)
        if n == 0:
            continue
        zu = v[2] / n
        wrong = (zu >= 0 and not a) or (zu <= 0 and not b) or (zu < -1e-9 and a) or (zu > 1e-9 and b)
        if wrong:
            tag = ":unnormalised-test" if n < 1 and abs(v[2]) < 1e-9 else ""
            fail("split:assignment" + tag,
                 f"vector {v} (unit z = {zu}) is assigned upper={bool(a)} lower={bool(b)} by vector2xy_split "
                 f"(the hemisphere test is made on the un-normalised vector)", {"vs": vs, "up": up, "lo": lo})
            return


# ------------------------------------------------------------ spherical coordinates
def do_to_polar():
    deg = R.random() < 0.4
    vs = []
    for _ in range(R.randint(1, 10)):
        while True:
            s, v = gen_vector()
            if s != "zero":
                break
        vs.append(v); st("to_polar/" + s)
    a, p, r = Vector3d(np.array(vs, dtype=float)).to_polar(degrees=deg)
    out = [[float(x), float(y), float(z)] for x, y, z in zip(a, p, r)]
    if any(math.isnan(c) for o in out for c in o):
        st("to_polar/nan-output")
    cases.append({"k": "to_polar", "deg": deg, "vs": vs, "out": out})
    # oracle: back to Cartesian
    w = Vector3d.from_polar(a, p, r, degrees=deg).data
    for v, b in zip(vs, w):
        n = norm(v)
        if not all(abs(x - y) <= 1e-7 * n for x, y in zip(b, v)):
            band = in_snap_band(v)
            fail("to_polar:roundtrip" + (":snap-band" if band else ""),
                 f"from_polar(to_polar(v)) = {b.tolist()} != v = {v} (|v| = {n}, degrees={deg})",
                 {"vs": vs, "deg": deg})
            return


def do_from_polar():
    deg = R.random() < 0.4
    apr = []
    for _ in range(R.randint(1, 10)):
        s = R.choice(["generic", "generic", "pole", "equator", "azimuth-edge", "radial"])
        st("from_polar/" + s)
        a = R.uniform(0, 2 * math.pi)
        p = R.uniform(0.05, math.pi - 0.05)
        r = 1.0
        if s == "pole":
            p = R.choice([0.0, math.pi])
        elif s == "equator":
            p = math.pi / 2
        elif s == "azimuth-edge":
            a = R.choice([0.0, math.pi / 2, math.pi, 1.5 * math.pi, 2 * math.pi - 1e-6, 1e-6])
        elif s == "radial":
            r = R.choice([0.5, 3.0, 1e3, 1e-3])
        if deg:
            a, p = math.degrees(a), math.degrees(p)
        apr.append([a, p, r])
    A = np.array(apr)
    outs = []
    for a, p, r in apr:      # radial is a scalar parameter of from_polar
        outs.append(Vector3d.from_polar(np.array([a]), np.array([p]), r, degrees=deg).data[0].tolist())
    cases.append({"k": "from_polar", "deg": deg, "apr": apr, "out": outs})
    for (a, p, r), w in zip(apr, outs):
        a2, p2, r2 = Vector3d(np.array([w])).to_polar(degrees=deg)
        full = 360.0 if deg else 2 * math.pi
        half = full / 2
        if abs(r2[0] - r) > 1e-9 * r or abs(p2[0] - p) > 1e-7 * half:
            fail("from_polar:roundtrip", f"to_polar(from_polar({a}, {p}, {r})) = {a2[0], p2[0], r2[0]} (degrees={deg})",
                 {"apr": apr, "deg": deg})
            return
        if 1e-3 * half < p < half * (1 - 1e-3) and not in_rel_band(w):
            d = abs(a2[0] - a) % full
            if min(d, full - d) > 1e-7 * full:
                fail("from_polar:roundtrip", f"azimuth of from_polar({a}, {p}, {r}) comes back as {a2[0]} (degrees={deg})",
                     {"apr": apr, "deg": deg})
                return


# ------------------------------------------------------------------ pole density
def kernel(sd):
    radius = int(4.0 * sd + 0.5)
    x = np.arange(-radius, radius + 1)
    k = np.exp(-0.5 / (sd * sd) * x ** 2)
    return radius, (k / k.sum()).tolist()


def gen_pdf_vectors(n):
    vs = []
    mode = R.choice(["uniform", "fibre", "cluster", "mixed"])
    c = rand_unit()
    for _ in range(n):
        if mode == "uniform":
            v = rand_unit()
        elif mode == "fibre":
            a = R.uniform(0, 2 * math.pi); z = R.gauss(0.3, 0.1)
            v = [math.cos(a), math.sin(a), z]
        elif mode == "cluster":
            v = [c[i] + R.gauss(0, 0.15) for i in range(3)]
        else:
            _, v = gen_vector()      # all strata, short vectors and the rounding band included
        vs.append(v)
    return mode, vs


def do_pdf():
    res = R.choice([10.0, 15.0, 30.0, 7.5, 45.0, 11.0, 90.0] + ([5.0, 3.7] if TIER == "thorough" else []))
    sigma = R.choice([5.0, 10.0, 2.0, res, 0.6 * res, 20.0])
    hemi = R.choice(["upper", "lower"])
    mrd = R.random() < 0.5
    n = R.choice([1, 5, 40, 150])
    mode, vs = gen_pdf_vectors(n)
    wk = R.choice(["none", "positive", "mixed-scale", "some-zero"])
    if wk == "none":
        ws = None
    elif wk == "positive":
        ws = [R.uniform(0.1, 3) for _ in vs]
    elif wk == "mixed-scale":
        ws = [R.choice([1e-3, 1.0, 250.0]) * R.random() for _ in vs]
    else:
        ws = [R.choice([0.0, 1.0, 2.0]) for _ in vs]
    st(f"pdf/{hemi}/mrd={mrd}/weights={wk}/{mode}")
    V = Vector3d(np.array(vs, dtype=float))
    wa = None if ws is None else np.array(ws)
    hist, _ = pole_density_function(V, resolution=res, sigma=sigma, weights=wa, hemisphere=hemi, mrd=mrd)
    steps = int(np.ceil(90 / res))
    ea, ep = _sample_S2_equal_area_coordinates(res, hemisphere=hemi, azimuth_endpoint=True)
    sd = sigma / res
    radius, kern = kernel(sd)
    data = np.ma.getdata(hist)
    w1 = [1.0] * len(vs) if ws is None else ws
    az, po, _ = Vector3d(np.array(vs, dtype=float)).to_polar()
    aps = [None if (math.isnan(a) or math.isnan(b)) else [float(a), float(b)] for a, b in zip(az, po)]
    case = {"k": "pdf", "lower": hemi == "lower", "steps": steps, "ea": ea.tolist(), "ep": ep.tolist(),
            "sd": sd, "radius": radius, "kern": kern, "mrd": mrd, "vs": vs, "ws": w1, "aps": aps,
            "shape": list(data.shape), "out": data.reshape(-1).tolist(), "res": res, "sigma": sigma}
    if np.ma.getmaskarray(hist).any() or not np.all(np.isfinite(data)):
        # all-masked result (no weight in the hemisphere and mrd): nothing to compare numerically
        st("pdf/degenerate-output")
        case["out"] = None
    cases.append(case)
    # ---- oracle
    h0, _ = pole_density_function(Vector3d(np.array(vs, dtype=float)), resolution=res, sigma=sigma, weights=wa,
                                  hemisphere=hemi, mrd=False)
    inside = 0.0
    for v, w in zip(vs, w1):
        n_ = norm(v)
        if n_ == 0:
            continue
        z = v[2] / n_
        if (z >= 0 if hemi == "upper" else z <= 0):
            inside += w
    tot = float(np.ma.getdata(h0).sum())
    rep = {"vs": vs, "ws": ws, "resolution": res, "sigma": sigma, "hemisphere": hemi}
    if abs(tot - inside) > 1e-9 * max(1.0, abs(inside)):
        fail("pdf:weight-conservation", f"sum of the histogram {tot} != total weight {inside} of the vectors on the "
             f"{hemi} hemisphere (resolution {res}, sigma {sigma})", rep)
    if float(np.ma.getdata(h0).min()) < -1e-12 * max(1.0, abs(inside)):
        fail("pdf:non-negative", f"negative bin {float(np.ma.getdata(h0).min())}", rep)
    if inside > 0:
        h1, _ = pole_density_function(Vector3d(np.array(vs, dtype=float)), resolution=res, sigma=sigma, weights=wa,
                                      hemisphere=hemi, mrd=True)
        m = float(h1.mean())
        if abs(m - 1) > 1e-9:
            fail("pdf:mrd-mean", f"MRD histogram averages to {m} over the valid bins", rep)


def sector_vectors(pg, n):
    """random unit vectors and symmetry-equivalent copies"""
    vs = np.array([rand_unit() for _ in range(n)])
    idx = [R.randrange(pg.size) for _ in range(n)]
    V = Vector3d(vs)
    W = Vector3d(np.array([(pg[i] * V[k]).data.reshape(3) for k, i in enumerate(idx)]))
    return V, W, idx


def do_pdf_sym(pg):
    res = R.choice([10.0, 15.0, 20.0])
    sigma = R.choice([5.0, 10.0])
    n = 60
    V, W, idx = sector_vectors(pg, n)
    ws = np.array([R.uniform(0.2, 2) for _ in range(n)])
    st(f"pdfsym/{pg.name}")
    rep = {"group": pg.name, "vs": V.data.tolist(), "sym_index": idx, "ws": ws.tolist(), "resolution": res,
           "sigma": sigma}
    h1, _ = pole_density_function(Vector3d(V.data.copy()), resolution=res, sigma=sigma, weights=ws, symmetry=pg,
                                  mrd=False)
    h2, _ = pole_density_function(Vector3d(W.data.copy()), resolution=res, sigma=sigma, weights=ws, symmetry=pg,
                                  mrd=False)
    d1, d2 = np.ma.getdata(h1), np.ma.getdata(h2)
    tot = float(ws.sum())
    # (weight conservation is only claimed without symmetry: sectors that reach below the
    #  equator lose the part folded onto the lower hemisphere, by construction of the code)
    if float(d1.min()) < -1e-12:
        fail("pdf:symmetry:non-negative", f"negative folded bin {float(d1.min())}", rep)
    hm, _ = pole_density_function(Vector3d(V.data.copy()), resolution=res, sigma=sigma, weights=ws, symmetry=pg,
                                  mrd=True)
    if np.ma.count(hm) and abs(float(hm.mean()) - 1) > 1e-9:
        fail("pdf:symmetry:mrd-mean", f"MRD folded histogram averages to {float(hm.mean())}", rep)
    if not np.allclose(d1, d2, rtol=1e-7, atol=1e-9 * tot):
        f1 = Vector3d(V.data.copy()).in_fundamental_sector(pg).data
        f2 = Vector3d(W.data.copy()).in_fundamental_sector(pg).data
        bad = np.where(np.abs(f1 - f2).max(axis=1) > 1e-6)[0]
        if bad.size:
            k = int(bad[0])
            fail(f"pdf:symmetry:invariance:{pg.name}",
                 f"pole density with symmetry {pg.name} changes when vectors are replaced by symmetry-equivalent "
                 f"ones: {V.data[k].tolist()} and its equivalent {W.data[k].tolist()} are folded to different "
                 f"directions {f1[k].tolist()} / {f2[k].tolist()}", rep)
        else:
            st("pdfsym/bin-edge-rounding-only")


# ----------------------------------------------------------------------- driver
kinds = [do_proj, do_proj, do_inv, do_split, do_to_polar, do_from_polar]
for i in range(N):
    kinds[i % len(kinds)]()
for i in range(max(6, N // 25)):
    do_pdf()
groups = list(osym._groups)
for pg in groups:
    for _ in range(1 if TIER == "quick" else 4):
        do_pdf_sym(pg)

# ---- vector arrays with two or more axes: the i-th weight (weights are flat, in the row-major order of the vectors) belongs to
# the i-th vector; the histogram equals the one of the same vectors given as a 1-D array
for shape in ((6, 7), (3, 4, 5), (2, 30), (5, 1, 4)):
    n = int(np.prod(shape))
    vs = np.array([rand_vec(R) for _ in range(n)])
    ws = np.array([R.choice([0.0, 0.5, 1.0, 3.0, 7.5]) for _ in range(n)])
    ws[1] = 13.0
    for hemi in ("upper", "lower"):
        res, sigma = R.choice([(10, 0), (15, 10), (9, 6)])
        st("pdf/nd-vectors")
        rep = {"shape": list(shape), "resolution": res, "sigma": sigma, "hemisphere": hemi, "weights": ws.tolist(), "v": vs.tolist()}
        try:
            h1, _ = pole_density_function(Vector3d(vs.copy()), resolution=res, sigma=sigma, weights=ws, hemisphere=hemi, mrd=False)
            hn, _ = pole_density_function(Vector3d(vs.reshape(shape + (3,)).copy()), resolution=res, sigma=sigma, weights=ws,
                                          hemisphere=hemi, mrd=False)
            a1 = np.nan_to_num(np.ma.filled(np.ma.masked_invalid(h1), 0.0))
            an = np.nan_to_num(np.ma.filled(np.ma.masked_invalid(hn), 0.0))
            if a1.shape != an.shape or not np.allclose(a1, an, atol=1e-9):
                fail("pdf:nd-vectors:differs-from-1d", f"the pole density of vectors of shape {shape} with weights differs from the density of the "
                     "same vectors and weights given as a 1-D array (weights attached to the wrong vectors)", rep)
            z = vs[:, 2]
            tot = float(ws[z > 1e-9].sum() if hemi == "upper" else ws[z < -1e-9].sum())
            if sigma == 0 and abs(float(an.sum()) - tot) > 1e-6 * max(1.0, tot) + float(ws[np.abs(z) <= 1e-9].sum()):
                fail("pdf:weight-conservation", f"histogram total {float(an.sum()):.6f} != weight of the vectors in the hemisphere {tot:.6f} "
                     f"for vectors of shape {shape}", rep)
        except Exception as e:  # noqa
            fail("pdf:nd-vectors:raises", f"{type(e).__name__}: {e}", rep)

# ---- secondary entry points: the density drawn by Vector3d.pole_density_function / StereographicPlot.pole_density_function
# must be the histogram orix.measure.pole_density_function computes for the same vectors, weights, resolution and
# smoothing (read back from the QuadMesh of the axes)
try:
    import matplotlib
    matplotlib.use("Agg")
    import matplotlib.pyplot as plt
    from orix import plot as _orix_plot  # noqa: F401  (registers the projections)
    for trial in range(3):
        n = 40
        vs = np.array([rand_vec(R) for _ in range(n)])
        ws = np.array([R.choice([0.0, 0.5, 1.0, 3.0, 7.5]) for _ in range(n)])
        ws[0] = 11.0
        res, sigma = R.choice([(6, 0), (8, 7), (10, 12)])
        for hemi in ("upper", "lower"):
            st("pdf/plot-entry")
            ref, _ = pole_density_function(Vector3d(vs.copy()), resolution=res, sigma=sigma, weights=ws, hemisphere=hemi)
            fig = Vector3d(vs.copy()).pole_density_function(resolution=res, sigma=sigma, weights=ws, hemisphere=hemi,
                                                            return_figure=True)
            qm = [c for ax in fig.axes for c in ax.collections if type(c).__name__ == "QuadMesh"]
            plt.close(fig)
            rep = {"n": n, "resolution": res, "sigma": sigma, "hemisphere": hemi, "weights": ws.tolist(), "v": vs.tolist()}
            if not qm:
                fail("pdf:plot-entry:no-mesh", "Vector3d.pole_density_function drew no density mesh", rep)
                continue
            got = np.ma.filled(np.ma.masked_invalid(qm[0].get_array()), np.nan).reshape(-1)
            want_ = np.ma.filled(np.ma.masked_invalid(ref), np.nan).reshape(-1)
            if got.shape != want_.shape or not np.allclose(np.nan_to_num(got), np.nan_to_num(want_), atol=1e-9):
                fail("pdf:plot-entry:differs-from-measure", "the density drawn by Vector3d.pole_density_function(weights=...) is not the "
                     "histogram of orix.measure.pole_density_function for the same arguments", rep)
except ImportError:
    st("pdf/plot-entry:matplotlib-missing")


# =====================================================================================
# Audit strata (coverage holes of the strata above): arrays with >= 2 axes / size-1 axes /
# integer dtype, the spherical entry points (spherical2xy, spherical2xy_split, xy2spherical,
# StereographicProjection.inverse), scalar / list / tuple arguments, the (azimuth, polar)
# form and the keyword paths of pole_density_function, a deterministic grid of
# hemisphere x weight kind, the folded density for non-unit / short / Miller / n-d input,
# and the remaining plotting wrappers.  They draw from R only AFTER everything above, so
# the cases of the Coq correspondence are unchanged.  Parameter combinations are cycled.
# =====================================================================================
def gen_vector_clear():
    """gen_vector, but never within float noise of the +-1e-9 threshold of the hemisphere test
    (so that the brute-force selection below cannot disagree on a rounding)"""
    while True:
        s, v = gen_vector()
        n = norm(v)
        if n == 0 or abs(abs(v[2] / n) - 1e-9) > 1e-11:
            return s, v


def gen_int_vector():
    return [R.choice([-3, -2, -1, 0, 0, 1, 1, 2, 5]) for _ in range(3)]


def ref_unit(v):
    n = norm(v)
    return [float(c) / n for c in v] if n > 0 else [0.0, 0.0, 0.0]


def ref_project(vs, pole):
    """brute force: points of the vectors on the hemisphere of `pole` (row-major order)"""
    pts = []
    for v in vs:
        u = ref_unit(v)
        if -pole * u[2] > -1e-9:
            den = u[2] - pole
            pts.append([0.0, 0.0] if den == 0 else [-pole * u[0] / den, -pole * u[1] / den])
    return pts


def pts_differ(got, ref, tol=1e-9):
    if len(got) != len(ref):
        return f"{len(got)} points returned, {len(ref)} expected"
    for k, (g, r_) in enumerate(zip(got, ref)):
        if not (abs(g[0] - r_[0]) <= tol and abs(g[1] - r_[1]) <= tol):
            return f"point {k}: {g} != expected {r_}"
    return None


def ang_diff(a, b, full):
    d = abs(a - b) % full
    return min(d, full - d)


SHAPES = [(2, 3), (1, 5), (4, 1), (3, 1, 2), (2, 2, 2), (1, 1, 1), (2, 1, 3, 1), (1,), (7,)]


def do_shapes(i):
    """n-d / size-1-axis / integer arrays through vector2xy, vector2xy_split, to_polar, from_polar and the
    azimuth / polar / radial properties, against per-vector brute force; the operand stays untouched"""
    shape = SHAPES[i % len(SHAPES)]
    pole = (-1, 1)[(i // len(SHAPES) + i) % 2]
    deg = (i // 2) % 2 == 1
    integer = i % 4 == 3
    size = int(np.prod(shape))
    vs = [gen_int_vector() if integer else gen_vector_clear()[1] for _ in range(size)]
    st(f"shape/{len(shape)}-axes" + ("/size-1-axis" if 1 in shape and len(shape) > 1 else "") + ("/int" if integer else ""))
    arr = np.array(vs, dtype=(np.int64 if integer else float)).reshape(shape + (3,))
    keep = arr.copy()
    V = Vector3d(arr)
    rep = {"shape": list(shape), "pole": pole, "degrees": deg, "dtype": str(arr.dtype), "vs": vs}
    sp = StereographicProjection(pole)
    x, y = sp.vector2xy(V)
    bad = pts_differ([[float(a), float(b)] for a, b in zip(np.ravel(x), np.ravel(y))], ref_project(vs, pole))
    if bad:
        fail("vector2xy:nd-shape", f"vector2xy(pole={pole}) of a Vector3d of shape {shape} ({arr.dtype}): {bad} (brute force on "
             f"the row-major list of vectors)", rep)
    xu, yu, xl, yl = StereographicProjection.vector2xy_split(V)
    for tag2, gx, gy, p in (("upper", xu, yu, -1), ("lower", xl, yl, 1)):
        bad = pts_differ([[float(a), float(b)] for a, b in zip(np.ravel(gx), np.ravel(gy))], ref_project(vs, p))
        if bad:
            fail("split:nd-shape", f"vector2xy_split {tag2} set of a Vector3d of shape {shape} ({arr.dtype}): {bad}", rep)
            break
    # spherical coordinates keep the shape, agree with atan2 / acos, and round-trip
    a, p, r = V.to_polar(degrees=deg)
    pa, pp, pr = V.azimuth, V.polar, V.radial
    full = 360.0 if deg else 2 * math.pi
    k_ = 180.0 / math.pi if deg else 1.0
    if not (np.shape(a) == shape and np.shape(p) == shape and np.shape(r) == shape):
        fail("to_polar:nd-shape", f"to_polar of shape {shape} returns shapes {np.shape(a)}, {np.shape(p)}, {np.shape(r)}", rep)
    else:
        ea, ep_ = (np.rad2deg(pa), np.rad2deg(pp)) if deg else (pa, pp)
        if not (np.array_equal(ea, a, equal_nan=True) and np.array_equal(ep_, p, equal_nan=True)
                and np.array_equal(pr, r, equal_nan=True)):
            fail("to_polar:properties", f"to_polar(degrees={deg}) differs from the azimuth / polar / radial properties", rep)
        for v, a1, p1, r1 in zip(vs, np.ravel(a), np.ravel(p), np.ravel(r)):
            n = norm(v)
            if n == 0:
                continue
            okr = abs(r1 - n) <= 1e-12 * n
            okp = abs(p1 - k_ * math.acos(max(-1.0, min(1.0, v[2] / n)))) <= 1e-7 * full
            oka = True
            hyp = math.hypot(v[0], v[1])
            if hyp > 1e-6 * n:
                # (a component below 1e-8 |v| is rounded to 0 by Vector3d.azimuth: at most 1e-8 |v| / hyp radians)
                oka = (ang_diff(a1, k_ * math.atan2(v[1], v[0]), full) <= 1e-7 * full + 2.1e-8 * n / hyp * k_
                       and 0 <= a1 <= full)
            if not (okr and okp and oka):
                fail("to_polar:nd-shape", f"to_polar(degrees={deg}) of {v} inside an array of shape {shape} ({arr.dtype}) = "
                     f"{(float(a1), float(p1), float(r1))}", rep)
                break
        w = Vector3d.from_polar(a, p, r, degrees=deg)
        if w.shape != shape:
            fail("from_polar:nd-shape", f"from_polar of angle arrays of shape {shape} has shape {w.shape}", rep)
        else:
            for v, b in zip(vs, w.data.reshape(-1, 3)):
                n = norm(v)
                if n and not all(abs(float(x_) - y_) <= 1e-7 * n for x_, y_ in zip(b, v)):
                    fail("to_polar:roundtrip:nd-shape", f"from_polar(to_polar(v)) = {b.tolist()} != v = {v} inside an array of "
                         f"shape {shape} ({arr.dtype}, degrees={deg})", rep)
                    break
    if not (np.array_equal(V.data, keep) and V.data.dtype == keep.dtype):
        fail("history:operand-modified", "projecting / converting a Vector3d changed its data", rep)


def sph_vec(a, p):
    return [math.cos(a) * math.sin(p), math.sin(a) * math.sin(p), math.cos(p)]


FORMS = ["array", "list", "tuple", "scalar", "int-degrees"]


def do_spherical(i):
    """spherical2xy, spherical2xy_split, xy2spherical, .inverse, and from_polar / xy2vector with list, tuple, scalar
    and integer arguments: pole x degrees x argument form cycled"""
    pole = (-1, 1)[i % 2]
    deg = (i // 2) % 2 == 1
    form = FORMS[(i // 4) % len(FORMS)]
    if form == "int-degrees":
        deg = True
    n = 1 if form == "scalar" else R.randint(1, 7)
    angs = []
    for _ in range(n):
        s = R.choice(["generic", "generic", "pole", "equator", "other-hemisphere", "azimuth-edge"])
        a = R.uniform(0, 2 * math.pi)
        p = R.uniform(0.05, math.pi - 0.05)
        if s == "pole":
            p = R.choice([0.0, math.pi])
        elif s == "equator":
            p = math.pi / 2
        elif s == "azimuth-edge":
            a = R.choice([0.0, math.pi / 2, math.pi, 1.5 * math.pi])
        if abs(abs(math.cos(p)) - 1e-9) < 1e-11:
            p = 1.0
        if form == "int-degrees":
            a, p = float(R.randrange(0, 360)), float(R.choice([0, 180, 90] + [R.randrange(1, 180)] * 5))
        elif deg:
            a, p = math.degrees(a), math.degrees(p)
        angs.append([a, p])
    st(f"spherical/{form}/deg={deg}/pole={pole}")
    A = [q[0] for q in angs]; Pp = [q[1] for q in angs]
    if form == "array":
        aa, pa = np.array(A), np.array(Pp)
    elif form == "list":
        aa, pa = list(A), list(Pp)
    elif form == "tuple":
        aa, pa = tuple(A), tuple(Pp)
    elif form == "scalar":
        aa, pa = A[0], Pp[0]
    else:
        aa, pa = np.array(A, dtype=np.int64), [int(q) for q in Pp]
    rep = {"pole": pole, "degrees": deg, "form": form, "azimuth_polar": angs}
    k_ = math.pi / 180 if deg else 1.0
    vs = [sph_vec(a * k_, p * k_) for a, p in angs]
    # from_polar in this argument form
    fv = Vector3d.from_polar(aa, pa, degrees=deg).data.reshape(-1, 3)
    if fv.shape[0] != n or np.max(np.abs(fv - np.array(vs))) > 1e-12:
        fail("from_polar:argument-form", f"from_polar({form} arguments, degrees={deg}) = {fv.tolist()} != {vs}", rep)
    sp = StereographicProjection(pole)
    x, y = sp.spherical2xy(aa, pa, degrees=deg)
    got = [[float(a), float(b)] for a, b in zip(np.ravel(x), np.ravel(y))]
    bad = pts_differ(got, ref_project(vs, pole))
    if bad:
        fail("spherical2xy:value", f"spherical2xy({form} arguments, degrees={deg}, pole={pole}): {bad}", rep)
        return
    xu, yu, xl, yl = sp.spherical2xy_split(aa, pa, degrees=deg)
    for tag2, gx, gy, p in (("upper", xu, yu, -1), ("lower", xl, yl, 1)):
        bad = pts_differ([[float(a), float(b)] for a, b in zip(np.ravel(gx), np.ravel(gy))], ref_project(vs, p))
        if bad:
            fail("spherical2xy_split:value", f"spherical2xy_split({form} arguments, degrees={deg}) {tag2} set: {bad}", rep)
            return
    # back: xy2spherical of the projected points returns the angles of the selected directions
    inv = sp.inverse
    if not isinstance(inv, InverseStereographicProjection) or inv.pole != pole:
        fail("inverse-property:pole", f"StereographicProjection({pole}).inverse has pole {getattr(inv, 'pole', None)}", rep)
        return
    sel = [(a, p, v) for (a, p), v in zip(angs, vs) if -pole * v[2] > -1e-9]
    full = 360.0 if deg else 2 * math.pi
    if got:
        gx, gy = np.array([g[0] for g in got]), np.array([g[1] for g in got])
        if form == "scalar":
            a2, p2 = inv.xy2spherical(float(gx[0]), float(gy[0]), degrees=deg)
            w2 = inv.xy2vector(float(gx[0]), float(gy[0])).data.reshape(-1, 3)
        else:
            a2, p2 = inv.xy2spherical(gx, gy, degrees=deg)
            w2 = inv.xy2vector(gx, gy).data.reshape(-1, 3)
        a2, p2 = np.ravel(a2), np.ravel(p2)
        if len(a2) != len(sel) or len(w2) != len(sel):
            fail("xy2spherical:value", f"xy2spherical returned {len(a2)} angles for {len(sel)} points", rep)
            return
        for (a, p, v), a1, p1, w1 in zip(sel, a2, p2, w2):
            if not n_close(w1, v, 1e-9):
                fail("spherical:roundtrip", f"xy2vector(spherical2xy({a}, {p})) = {w1.tolist()} != {v} (pole {pole}, degrees={deg})", rep)
                return
            if abs(p1 - p) > 1e-7 * full:
                fail("xy2spherical:value", f"xy2spherical(spherical2xy({a}, {p})) has polar angle {float(p1)} (pole {pole}, "
                     f"degrees={deg})", rep)
                return
            if math.hypot(v[0], v[1]) > 1e-6 and ang_diff(float(a1), a, full) > 1e-7 * full:
                fail("xy2spherical:value", f"xy2spherical(spherical2xy({a}, {p})) has azimuth {float(a1)} (pole {pole}, "
                     f"degrees={deg})", rep)
                return
    # plane points with integer coordinates: the same vectors as with floats
    xi = np.array([R.randrange(-3, 4) for _ in range(4)]); yi = np.array([R.randrange(-3, 4) for _ in range(4)])
    wi = InverseStereographicProjection(pole).xy2vector(xi, yi).data
    for X, Y, w1 in zip(xi.tolist(), yi.tolist(), wi):
        d = 1 + X * X + Y * Y
        if not n_close(w1, [2 * X / d, 2 * Y / d, -pole * (1 - X * X - Y * Y) / d], 1e-12):
            fail("xy2vector:integer-input", f"xy2vector({X}, {Y}) (integer arrays, pole {pole}) = {w1.tolist()}", rep)
            return


def hemi_weight(vs, ws, hemi):
    tot = 0.0
    for v, w in zip(vs, ws):
        n = norm(v)
        if n == 0:
            continue
        z = v[2] / n
        if (z >= 0 if hemi == "upper" else z <= 0):
            tot += w
    return tot


PDF_SHAPES = [(6, 7), (3, 4, 5), (2, 30), (1, 12), (5, 1), (2, 1, 3)]


def do_pdf_shapes(i):
    """vectors (or azimuth / polar arrays) with >= 2 axes and non-uniform flat weights: the histogram is the
    one of the row-major list of vectors (brute-force total + bin by bin against the 1-d call)"""
    shape = PDF_SHAPES[i % len(PDF_SHAPES)]
    entry = ("vector", "angles")[(i // len(PDF_SHAPES)) % 2]
    hemi = ("upper", "lower")[(i + i // len(PDF_SHAPES) + i // (2 * len(PDF_SHAPES))) % 2]
    res, sigma = [(10.0, 5.0), (15.0, 0.0), (30.0, 20.0), (7.5, 7.5)][i % 4]
    size = int(np.prod(shape))
    vs = [[k * c for c in rand_unit()] for k in [R.choice([1.0, 1.0, 0.3, 17.0]) for _ in range(size)]]
    ws = [R.choice([0.0, 0.25, 1.0, 3.0, 40.0]) * R.uniform(0.5, 1.5) for _ in range(size)]
    ws[R.randrange(size)] = 500.0        # one dominant vector: a permutation of the weights is visible
    st(f"pdf/nd-shape/{len(shape)}-axes/{entry}/{hemi}")
    flat = np.array(vs, dtype=float)
    wa = np.array(ws)
    rep = {"shape": list(shape), "entry": entry, "vs": vs, "ws": ws, "resolution": res, "sigma": sigma, "hemisphere": hemi}
    ref, _ = pole_density_function(Vector3d(flat.copy()), resolution=res, sigma=sigma, weights=wa.copy(), hemisphere=hemi, mrd=False)
    if entry == "vector":
        h, _ = pole_density_function(Vector3d(flat.reshape(shape + (3,)).copy()), resolution=res, sigma=sigma,
                                     weights=wa.copy(), hemisphere=hemi, mrd=False)
    else:
        az, po, _ = Vector3d(flat.copy()).to_polar()
        h, _ = pole_density_function(az.reshape(shape), po.reshape(shape), resolution=res, sigma=sigma,
                                     weights=wa.copy(), hemisphere=hemi, mrd=False)
    inside = hemi_weight(vs, ws, hemi)
    d, dr = np.ma.getdata(h), np.ma.getdata(ref)
    if abs(float(d.sum()) - inside) > 1e-9 * max(1.0, inside):
        fail("pdf:nd-shape:weight-conservation", f"sum of the histogram {float(d.sum())} != total weight {inside} of the vectors "
             f"on the {hemi} hemisphere for {entry} input of shape {shape} with flat weights", rep)
    elif d.shape != dr.shape or not np.allclose(d, dr, rtol=1e-9, atol=1e-9 * max(1.0, inside)):
        fail("pdf:nd-shape:weights-misassigned", f"the histogram of {entry} input of shape {shape} with flat (row-major) weights "
             f"differs from the histogram of the same vectors as a 1-d list", rep)


WKINDS = ["none", "positive", "some-zero", "negative", "integer", "constant"]


def do_pdf_grid(i):
    """hemisphere x weight kind x vector dtype cycled (the random draws of do_pdf leave most combinations out),
    vectors from ALL strata (equator, poles, short, zero); keyword paths log= and hemisphere in any case"""
    hemi = ("upper", "lower")[i % 2]
    wk = WKINDS[(i // 2) % len(WKINDS)]
    integer = (i // (2 * len(WKINDS))) % 2 == 1
    res, sigma = [(30.0, 10.0), (45.0, 0.0), (11.0, 20.0), (15.0, 2.0), (90.0, 30.0)][i % 5]
    n = R.choice([6, 25, 60])
    vs = [gen_int_vector() if integer else gen_vector()[1] for _ in range(n)]
    vs.append([1, 0, 0] if integer else [0.0, -2.0, 0.0])       # always: an exactly equatorial vector
    vs.append([0, 0, -2] if integer else [0.0, 0.0, 1.0])
    if wk == "none":
        ws = None
    elif wk == "positive":
        ws = [R.uniform(0.1, 3) for _ in vs]
    elif wk == "some-zero":
        ws = [R.choice([0.0, 0.0, 1.0, 2.5]) for _ in vs]
    elif wk == "negative":
        ws = [R.uniform(-2, 3) for _ in vs]
    elif wk == "integer":
        ws = [R.randrange(0, 5) for _ in vs]
    else:
        ws = [2.5 for _ in vs]
    st(f"pdf/grid/{hemi}/weights={wk}" + ("/int-vectors" if integer else ""))
    arr = np.array(vs, dtype=(np.int64 if integer else float))
    wa = None if ws is None else np.array(ws, dtype=(np.int64 if wk == "integer" else float))
    w1 = [1.0] * len(vs) if ws is None else [float(w) for w in ws]
    rep = {"vs": vs, "ws": ws, "resolution": res, "sigma": sigma, "hemisphere": hemi, "vector_dtype": str(arr.dtype)}

    def call(**kw):
        return pole_density_function(Vector3d(arr.copy()), resolution=res, sigma=sigma,
                                     weights=None if wa is None else wa.copy(), **kw)[0]
    h0 = call(hemisphere=hemi, mrd=False)
    inside = hemi_weight(vs, w1, hemi)
    scale = max(1.0, sum(abs(w) for w in w1))
    d0 = np.ma.getdata(h0)
    if abs(float(d0.sum()) - inside) > 1e-9 * scale:
        fail("pdf:grid:weight-conservation", f"sum of the histogram {float(d0.sum())} != total weight {inside} of the vectors on the "
             f"{hemi} hemisphere (weights {wk}, vectors {arr.dtype}, resolution {res}, sigma {sigma})", rep)
        return
    if wk != "negative" and float(d0.min()) < -1e-12 * scale:
        fail("pdf:grid:non-negative", f"negative bin {float(d0.min())} (weights {wk})", rep)
    if abs(inside) > 1e-3 * scale:
        h1 = call(hemisphere=hemi, mrd=True)
        if abs(float(h1.mean()) - 1) > 1e-9:
            fail("pdf:grid:mrd-mean", f"MRD histogram averages to {float(h1.mean())} (weights {wk}, {hemi})", rep)
        elif not np.allclose(np.ma.getdata(h1) * float(d0.mean()), d0, rtol=1e-9, atol=1e-12 * scale):
            fail("pdf:grid:mrd-proportional", "the MRD histogram is not the count histogram divided by its mean", rep)
        if wk != "negative":
            hl = call(hemisphere=hemi, mrd=True, log=True)
            if not np.allclose(np.ma.getdata(hl), np.log(np.ma.getdata(h1) + 1), rtol=1e-9, atol=1e-12):
                fail("pdf:grid:log", "pole_density_function(log=True) is not log(density + 1)", rep)
    hname = hemi.upper() if i % 4 < 2 else hemi.capitalize()
    try:
        hc = np.ma.getdata(call(hemisphere=hname, mrd=False))
    except (KeyError, ValueError) as e:
        hc = None
        fail("pdf:grid:hemisphere-case", f"hemisphere={hname!r} raises {type(e).__name__} (the name is documented as "
             f"case-insensitive: hemisphere.lower())", rep)
    if hc is not None and not np.array_equal(hc, d0):
        fail("pdf:grid:hemisphere-case", f"hemisphere={hname!r} gives another histogram than {hemi!r}", rep)
    if wk == "constant":
        hn = pole_density_function(Vector3d(arr.copy()), resolution=res, sigma=sigma, hemisphere=hemi, mrd=False)[0]
        if not np.allclose(np.ma.getdata(hn) * 2.5, d0, rtol=1e-9, atol=1e-12 * scale):
            fail("pdf:grid:weights-none", "weights=None is not the histogram of unit weights", rep)


_BAD_FOLD = {"m11", "1m1", "-6m2", "23", "m-3", "432"}       # known findings (sector / projection, see C07)
_FOLD_GROUPS = [g for g in osym._groups if g.name not in _BAD_FOLD]


def do_pdf_sym_inputs(i):
    """folded density for the input classes do_pdf_sym leaves out (it folds 1-d unit Vector3d with weights):
    non-unit and short vectors, weights=None, n-d shape, Miller input, the (azimuth, polar) form"""
    pg = _FOLD_GROUPS[(5 * i + 3) % len(_FOLD_GROUPS)]
    kind = ["nonunit", "short", "nd-shape", "miller", "no-weights", "nonunit"][i % 6]
    res, sigma = [(10.0, 5.0), (20.0, 10.0), (15.0, 0.0)][i % 3]
    n = 48
    V, W, idx = sector_vectors(pg, n)
    ws = np.array([R.uniform(0.2, 2) for _ in range(n)])
    ws[R.randrange(n)] = 60.0
    st(f"pdfsym-input/{kind}")
    rep = {"group": pg.name, "kind": kind, "vs": V.data.tolist(), "sym_index": idx, "ws": ws.tolist(), "resolution": res,
           "sigma": sigma}
    kw = dict(resolution=res, sigma=sigma, symmetry=pg, mrd=False)
    ref = np.ma.getdata(pole_density_function(Vector3d(V.data.copy()), weights=ws.copy(), **kw)[0])
    tot = float(ws.sum())

    def same(h):
        d = np.ma.getdata(h)
        return d.shape == ref.shape and np.allclose(d, ref, rtol=1e-7, atol=1e-9 * tot)
    if kind in ("nonunit", "short"):
        # equivalent directions of another length (both sets scaled: the vectors stay symmetry-equivalent)
        if kind == "nonunit":
            k = [0.3, 2.0, 17.0, 1e4, 1e-3][(2 * (i // 6) + (i % 6 == 5)) % 5]
        else:
            k = [1e-10, 3e-12][(i // 6) % 2]
        rep["scale"] = k
        hv = pole_density_function(Vector3d(V.data * k), weights=ws.copy(), **kw)[0]
        hw = pole_density_function(Vector3d(W.data * k), weights=ws.copy(), **kw)[0]
        dv, dw = np.ma.getdata(hv), np.ma.getdata(hw)
        if not np.allclose(dv, dw, rtol=1e-7, atol=1e-9 * tot):
            f1 = Vector3d(V.data * k).in_fundamental_sector(pg).unit.data
            f2 = Vector3d(W.data * k).in_fundamental_sector(pg).unit.data
            bad = np.where(np.abs(f1 - f2).max(axis=1) > 1e-6)[0]
            if bad.size:
                j = int(bad[0])
                fail(f"pdf:symmetry:invariance:{kind}-vectors:{pg.name}",
                     f"pole density with symmetry {pg.name} of vectors of length {k} changes when they are replaced by "
                     f"symmetry-equivalent ones: {(V.data[j] * k).tolist()} and {(W.data[j] * k).tolist()} are folded to "
                     f"different directions {f1[j].tolist()} / {f2[j].tolist()}", rep)
            else:
                st("pdfsym-input/bin-edge-rounding-only")
        elif not same(hv):
            fail(f"pdf:symmetry:scale-dependent:{kind}-vectors:{pg.name}",
                 f"pole density with symmetry {pg.name} depends on the length ({k}) of the vectors", rep)
    elif kind == "nd-shape":
        shape = [(6, 8), (2, 3, 8), (48, 1)][(i // 6) % 3]
        h = pole_density_function(Vector3d(V.data.reshape(shape + (3,)).copy()), weights=ws.copy(), **kw)[0]
        if not same(h):
            fail("pdf:symmetry:nd-shape", f"folded density ({pg.name}) of a Vector3d of shape {shape} with flat weights differs from "
                 f"the one of the same vectors as a 1-d list", rep)
    elif kind == "miller":
        from orix.crystal_map import Phase
        from orix.vector import Miller
        # the phase carries ANOTHER point group: the symmetry= argument decides, not the phase
        other = osym.D6h if pg.name == "m-3m" else osym.Oh
        m = Miller(xyz=V.data.copy(), phase=Phase(point_group=other))
        h = pole_density_function(m, weights=ws.copy(), **kw)[0]
        if not same(h):
            fail("pdf:symmetry:miller-input", f"folded density ({pg.name}) of a Miller object differs from the one of the Vector3d "
                 f"with the same Cartesian coordinates", rep)
    else:
        h1 = pole_density_function(Vector3d(V.data.copy()), **kw)[0]
        h2 = pole_density_function(Vector3d(V.data.copy()), weights=np.ones(n), **kw)[0]
        h3 = pole_density_function(Vector3d(W.data.copy()), **kw)[0]
        if not np.allclose(np.ma.getdata(h1), np.ma.getdata(h2), rtol=1e-9, atol=1e-12 * n):
            fail("pdf:symmetry:weights-none", f"folded density ({pg.name}) with weights=None is not the one with unit weights", rep)
        elif not np.allclose(np.ma.getdata(h1), np.ma.getdata(h3), rtol=1e-7, atol=1e-9 * n):
            f1 = Vector3d(V.data.copy()).in_fundamental_sector(pg).data
            f2 = Vector3d(W.data.copy()).in_fundamental_sector(pg).data
            if (np.abs(f1 - f2).max(axis=1) > 1e-6).any():
                fail(f"pdf:symmetry:invariance:{pg.name}", f"unweighted pole density with symmetry {pg.name} changes when vectors "
                     f"are replaced by symmetry-equivalent ones", rep)
            else:
                st("pdfsym-input/bin-edge-rounding-only")


def guarded(fn, i, sig):
    """an exception of the library inside a stratum is a failure of that stratum with the case index as replay, not a
    crash of the harness"""
    try:
        fn(i)
    except Exception as e:  # noqa
        fail(sig + ":raises", f"{type(e).__name__}: {e}", {"stratum": fn.__name__, "index": i})


for i in range(18 if TIER == "quick" else 72):
    guarded(do_shapes, i, "shape:nd-or-int-input")
for i in range(20 if TIER == "quick" else 80):
    guarded(do_spherical, i, "spherical")
for i in range(12 if TIER == "quick" else 36):
    guarded(do_pdf_shapes, i, "pdf:nd-shape")
for i in range(24 if TIER == "quick" else 96):
    guarded(do_pdf_grid, i, "pdf:grid")
for i in range(18 if TIER == "quick" else 90):
    guarded(do_pdf_sym_inputs, i, "pdf:symmetry:inputs")

# ---- the remaining plotting wrappers: hemisphere="both" and log= of Vector3d.pole_density_function, the axes method
# called with a Vector3d, and the inverse pole figure (InversePoleFigurePlot.pole_density_function through
# Vector3d.inverse_pole_density_function): the mesh drawn is the histogram of orix.measure.pole_density_function
try:
    import matplotlib.pyplot as plt

    def mesh_of(ax):
        qm = [c for c in ax.collections if type(c).__name__ == "QuadMesh"]
        return None if not qm else np.ma.filled(np.ma.masked_invalid(qm[0].get_array()), np.nan).reshape(-1)

    def mesh_differs(got, ref):
        want_ = np.ma.filled(np.ma.masked_invalid(ref), np.nan).reshape(-1)
        return (got is None or got.shape != want_.shape or not np.array_equal(np.isnan(got), np.isnan(want_))
                or not np.allclose(np.nan_to_num(got), np.nan_to_num(want_), atol=1e-9))

    for trial in range(2):
        n = 36
        vs = np.array([[k * c for c in rand_unit()] for k in [R.choice([1.0, 0.3, 17.0]) for _ in range(n)]])
        ws = np.array([R.choice([0.0, 0.5, 1.0, 3.0, 7.5]) for _ in range(n)])
        ws[1] = 25.0
        res, sigma = [(9, 6), (12, 0)][trial]
        log = trial == 0
        rep = {"n": n, "resolution": res, "sigma": sigma, "log": log, "weights": ws.tolist(), "v": vs.tolist()}
        st("pdf/plot-entry/both-hemispheres")
        fig = Vector3d(vs.copy()).pole_density_function(resolution=res, sigma=sigma, weights=ws.copy(), hemisphere="both", log=log,
                                                        colorbar=False, return_figure=True)
        axs = [ax for ax in fig.axes if getattr(ax, "hemisphere", None) in ("upper", "lower")]
        if sorted(ax.hemisphere for ax in axs) != ["lower", "upper"]:
            fail("pdf:plot-entry:both:axes", "Vector3d.pole_density_function(hemisphere='both') did not draw one upper and one lower "
                 "hemisphere", rep)
        for ax in axs:
            ref, _ = pole_density_function(Vector3d(vs.copy()), resolution=res, sigma=sigma, weights=ws.copy(),
                                           hemisphere=ax.hemisphere, log=log)
            if mesh_differs(mesh_of(ax), ref):
                fail("pdf:plot-entry:both:differs-from-measure", f"the {ax.hemisphere} density drawn by Vector3d.pole_density_function("
                     f"hemisphere='both', log={log}) is not the histogram of orix.measure.pole_density_function", rep)
        plt.close(fig)
        for hemi in ("upper", "lower"):
            st("pdf/plot-entry/axes-method-vector")
            fig, ax = plt.subplots(subplot_kw=dict(projection="stereographic"))
            ax.hemisphere = hemi
            ax.pole_density_function(Vector3d(vs.copy()), resolution=res, sigma=sigma, weights=ws.copy(), log=log, colorbar=False)
            ref, _ = pole_density_function(Vector3d(vs.copy()), resolution=res, sigma=sigma, weights=ws.copy(), hemisphere=hemi,
                                           log=log)
            if mesh_differs(mesh_of(ax), ref):
                fail("pdf:plot-entry:axes-method:differs-from-measure", f"StereographicPlot.pole_density_function(Vector3d, weights=..., "
                     f"log={log}) on the {hemi} hemisphere does not draw the histogram of orix.measure.pole_density_function", rep)
            plt.close(fig)
        for pg in ([osym.Oh, osym.D6h] if trial == 0 else [osym.C2h, osym.D3d]):
            st("pdf/plot-entry/ipf")
            rep2 = dict(rep, group=pg.name)
            fig = Vector3d(vs.copy()).inverse_pole_density_function(resolution=res, sigma=sigma, weights=ws.copy(), symmetry=pg,
                                                                    log=log, colorbar=False, return_figure=True)
            axs = [ax for ax in fig.axes if getattr(ax, "hemisphere", None) in ("upper", "lower")]
            az, po, _ = Vector3d(vs.copy()).unit.to_polar()
            ref, _ = pole_density_function(az, po, resolution=res, sigma=sigma, weights=ws.copy(), symmetry=pg, log=log)
            refv = pole_density_function(Vector3d(vs.copy()), resolution=res, sigma=sigma, weights=ws.copy(), symmetry=pg, log=log)[0]
            if not axs or mesh_differs(mesh_of(axs[0]), ref):
                fail("pdf:plot-entry:ipf:differs-from-measure", f"the inverse pole density ({pg.name}) drawn by "
                     f"Vector3d.inverse_pole_density_function(weights=..., log={log}) is not the folded histogram of "
                     f"orix.measure.pole_density_function", rep2)
            elif mesh_differs(np.ma.filled(np.ma.masked_invalid(ref), np.nan).reshape(-1), refv):
                fail("pdf:symmetry:angles-entry", f"pole_density_function(azimuth, polar, symmetry={pg.name}) differs from "
                     f"pole_density_function(Vector3d, symmetry={pg.name}) for the same directions", rep2)
            plt.close(fig)
except ImportError:
    st("pdf/plot-entry:matplotlib-missing")

emit({"cases": cases, "fails": fails, "strata": strata})
