"""C20 implementation harness: observations for the Coq correspondence and the
property oracle, both on /repo's working tree.

payload: {"seed": int, "n": int, "tier": "quick"|"thorough"}
output:  {"cases": [...], "fails": [...], "strata": {...}}
"""
import math

import numpy as np
from common import emit, payload, rand_vec, rng

from orix.measure.pole_density_function import pole_density_function
from orix.projections import InverseStereographicProjection, StereographicProjection
from orix.quaternion import symmetry as osym
from orix.sampling.S2_sampling import _sample_S2_equal_area_coordinates
from orix.vector import Vector3d

P = payload()
R = rng(P.get("seed", 0))
N = P.get("n", 200)
TIER = P.get("tier", "quick")

cases, fails, strata = [], [], {}


def st(k, n=1):
    strata[k] = strata.get(k, 0) + n


def fail(sig, what, rep):
    fails.append({"sig": sig, "what": what, "replay": rep})


# ------------------------------------------------------------------ generators
def unit(v):
    n = math.sqrt(sum(c * c for c in v))
    return [c / n for c in v]


def rand_unit():
    while True:
        v = [R.gauss(0, 1) for _ in range(3)]
        if sum(c * c for c in v) > 1e-6:
            return unit(v)


def gen_vector():
    """-> (stratum, [x, y, z]) over the strata of the quantifier"""
    s = R.choice(["unit", "unit", "unit", "pole", "equator", "near-equator", "nonunit", "nonunit",
                  "short", "axis", "snap-band", "zero"])
    if s == "unit":
        return s, rand_unit()
    if s == "pole":
        return s, [0.0, 0.0, R.choice([1.0, -1.0]) * R.choice([1.0, 1.0, 2.5, 1e-3])]
    if s == "equator":
        a = R.choice([R.uniform(0, 2 * math.pi), 0.0, math.pi / 2, math.pi, 1.5 * math.pi])
        k = R.choice([1.0, 1.0, 3.0, 0.01])
        return s, [k * math.cos(a), k * math.sin(a), 0.0]
    if s == "near-equator":
        a = R.uniform(0, 2 * math.pi)
        z = R.choice([1e-10, -1e-10, 5e-10, -5e-10, 2e-9, -2e-9, 1e-7, -1e-7, 9.99e-10, -1.001e-9])
        h = math.sqrt(1 - z * z)
        return s, [h * math.cos(a), h * math.sin(a), z]
    if s == "nonunit":
        k = R.choice([1e-3, 0.3, 2.0, 17.0, 1e4, 1e-6])
        return s, [k * c for c in rand_unit()]
    if s == "short":       # shorter than the 1e-9 tolerance of the hemisphere test
        k = R.choice([1e-10, 5e-10, 3e-12, 9e-10])
        return s, [k * c for c in rand_unit()]
    if s == "axis":
        v = [0.0, 0.0, 0.0]
        v[R.randrange(3)] = R.choice([1.0, -1.0])
        return s, v
    if s == "snap-band":   # x or y inside (0, 1e-8]: the band in which Vector3d.azimuth used to round
        # whatever the length; now only components below 1e-8 |v| are rounded (the short vectors
        # of this stratum are outside that band, the unit vectors inside)
        k = R.choice([1.0, 1.0, 1e-8, 3e-9, 0.5])
        if k < 1e-6:
            return s, [k * c for c in rand_unit()]
        e = R.choice([5e-9, -5e-9, 1e-9, 9.9e-9])
        z = R.uniform(-1, 1)
        h = math.sqrt(max(0.0, 1 - z * z - e * e))
        return s, R.choice([[e, h, z], [h, e, z], [e, -e, R.choice([1.0, -1.0])]])
    return s, [0.0, 0.0, 0.0]


def norm(v):
    return math.sqrt(v[0] ** 2 + v[1] ** 2 + v[2] ** 2)


def in_snap_band(v):
    """the absolute band of the former azimuth rounding (names the stratum of the repaired defect)"""
    return any(0 < abs(c) <= 1e-8 for c in v[:2])


def in_rel_band(v):
    """x or y is rounded by Vector3d.azimuth: 0 < |c| <= 1e-8 |v| (with a margin for float rounding)"""
    n = norm(v)
    return any(0 < abs(c) <= 1.0000001e-8 * n for c in v[:2])


# ------------------------------------------------------------ forward projection
def do_proj():
    pole = R.choice([-1, 1])
    vs, ss = [], []
    for _ in range(R.randint(1, 12)):
        s, v = gen_vector()
        vs.append(v); ss.append(s); st("proj/" + s)
    sp = StereographicProjection(pole)
    x, y = sp.vector2xy(Vector3d(np.array(vs, dtype=float)))
    out = [[float(a), float(b)] for a, b in zip(x, y)]
    cases.append({"k": "proj", "pole": pole, "vs": vs, "out": out})
    # ---- oracle: which vectors must be returned, where, and the round trip
    inv = InverseStereographicProjection(pole)
    V = Vector3d(np.array(vs, dtype=float))
    # the documented selection: the hemisphere test on the UNIT vectors
    mask = np.atleast_1d(V.unit <= sp.region)
    rep = {"pole": pole, "vs": vs, "out": out}
    if int(mask.sum()) != len(out):
        raw = np.atleast_1d(V <= sp.region)
        if int(raw.sum()) == len(out):
            # the implementation tests the vectors as given: name the first vector it gets wrong
            for v, m, mr in zip(vs, mask, raw):
                if bool(m) != bool(mr):
                    n = norm(v)
                    tag = ":unnormalised-test" if n < 1 and abs(v[2]) < 1e-9 else ""
                    fail("vector2xy:selection" + tag,
                         f"vector {v} (unit z = {v[2] / n if n else 0.0}) is {'returned' if mr else 'not returned'} by "
                         f"vector2xy(pole={pole}): the hemisphere test -pole*z > -1e-9 is made on the un-normalised "
                         f"vector", rep)
                    return
        fail("vector2xy:selection", f"vector2xy(pole={pole}) returned {len(out)} points, {int(mask.sum())} unit vectors "
             f"satisfy v <= region", rep)
        return
    k = 0
    for v, m in zip(vs, mask):
        n = norm(v)
        u = [c / n for c in v] if n > 0 else [0.0, 0.0, 0.0]
        side = -pole * u[2]          # >= 0: on the hemisphere that is projected
        if n > 0 and ((side >= 0 and not m) or (side < -1e-9 and m)):
            tag = ":unnormalised-test" if n < 1 and abs(v[2]) < 1e-9 else ""
            fail("vector2xy:selection" + tag,
                 f"vector {v} (unit z = {u[2]}) is {'returned' if m else 'not returned'} by vector2xy(pole={pole}): "
                 f"the hemisphere test -pole*z > -1e-9 is made on the un-normalised vector", rep)
            return
        if not m:
            continue
        X, Y = out[k]; k += 1
        if n == 0 or side < 0:
            continue
        if not (X * X + Y * Y <= 1 + 1e-12):
            fail("vector2xy:disk", f"projected point ({X}, {Y}) of {v} is outside the unit disk", rep)
            return
        w = inv.xy2vector(np.array([X]), np.array([Y])).data[0]
        if not n_close(w, u, 1e-9):
            fail("vector2xy:roundtrip", f"xy2vector(vector2xy(v)) = {w.tolist()} != unit v = {u} (pole {pole})", rep)
            return


def n_close(a, b, tol=1e-9):
    return all(abs(float(x) - float(y)) <= tol * max(1.0, abs(float(y))) for x, y in zip(a, b))


# ------------------------------------------------------------ inverse projection
def do_inv():
    pole = R.choice([-1, 1])
    pts = []
    for _ in range(R.randint(1, 10)):
        s = R.choice(["disk", "disk", "circle", "outside", "origin", "far", "axis"])
        st("inv/" + s)
        a = R.uniform(0, 2 * math.pi)
        if s == "disk":
            r = math.sqrt(R.random())
        elif s == "circle":
            r = 1.0
        elif s == "outside":
            r = R.uniform(1.0, 5.0)
        elif s == "origin":
            r = 0.0
        elif s == "far":
            r = R.choice([1e3, 1e6])
        else:
            r = R.choice([0.5, 1.0]); a = R.choice([0.0, math.pi / 2, math.pi])
        pts.append([r * math.cos(a), r * math.sin(a)])
    inv = InverseStereographicProjection(pole)
    X = np.array([p[0] for p in pts]); Y = np.array([p[1] for p in pts])
    v = inv.xy2vector(X, Y)
    out = v.data.tolist()
    cases.append({"k": "inv", "pole": pole, "pts": pts, "out": out})
    sp = StereographicProjection(pole)
    for p, w in zip(pts, out):
        if abs(norm(w) - 1) > 1e-9:
            fail("xy2vector:unit", f"xy2vector({p}) is not a unit vector: {w}", {"pole": pole, "pts": pts})
            return
        r2 = p[0] ** 2 + p[1] ** 2
        if (r2 <= 1) != (-pole * w[2] >= -1e-12) and abs(r2 - 1) > 1e-9:
            fail("xy2vector:hemisphere", f"xy2vector({p}) = {w} is on the wrong hemisphere for pole {pole}",
                 {"pole": pole, "pts": pts})
            return
        if r2 <= 1:
            x, y = sp.vector2xy(Vector3d(np.array([w])))
            if len(x) != 1 or not n_close([x[0], y[0]], p, 1e-9):
                fail("xy2vector:roundtrip", f"vector2xy(xy2vector({p})) = {x.tolist(), y.tolist()} (pole {pole})",
                     {"pole": pole, "pts": pts})
                return


# -------------------------------------------------------------------------- split
def do_split():
    vs, ss = [], []
    for _ in range(R.randint(1, 12)):
        s, v = gen_vector()
        vs.append(v); ss.append(s); st("split/" + s)
    xu, yu, xl, yl = StereographicProjection.vector2xy_split(Vector3d(np.array(vs, dtype=float)))
    up = [[float(a), float(b)] for a, b in zip(xu, yu)]
    lo = [[float(a), float(b)] for a, b in zip(xl, yl)]
    cases.append({"k": "split", "vs": vs, "up": up, "lo": lo})
    if len(up) + len(lo) < len(vs):
        fail("split:assignment", f"vector2xy_split dropped vectors: {len(up)} upper + {len(lo)} lower < {len(vs)}",
             {"vs": vs, "up": up, "lo": lo})
        return
    V = Vector3d(np.array(vs, dtype=float))
    from orix.projections.stereographic import _LOWER_HEMISPHERE, _UPPER_HEMISPHERE
    # the documented assignment: the hemisphere tests on the UNIT vectors
    mu = np.atleast_1d(V.unit <= _UPPER_HEMISPHERE)
    ml = np.atleast_1d(V.unit <= _LOWER_HEMISPHERE)
    if (int(mu.sum()), int(ml.sum())) != (len(up), len(lo)):
        ru = np.atleast_1d(V <= _UPPER_HEMISPHERE)
        rl = np.atleast_1d(V <= _LOWER_HEMISPHERE)
        if (int(ru.sum()), int(rl.sum())) == (len(up), len(lo)):
            # the implementation tests the vectors as given: name the first vector it gets wrong
            for v, a, b, a2, b2 in zip(vs, mu, ml, ru, rl):
                if (bool(a), bool(b)) != (bool(a2), bool(b2)):
                    n = norm(v)
                    tag = ":unnormalised-test" if n < 1 and abs(v[2]) < 1e-9 else ""
                    fail("split:assignment" + tag,
                         f"vector {v} (unit z = {v[2] / n if n else 0.0}) is assigned upper={bool(a2)} "
                         f"lower={bool(b2)} by vector2xy_split (the hemisphere test is made on the un-normalised "
                         f"vector)", {"vs": vs, "up": up, "lo": lo})
                    return
        fail("split:assignment", "vector2xy_split does not return the vectors selected by v.unit <= hemisphere",
             {"vs": vs, "up": up, "lo": lo})
        return
    # coordinates: every selected vector is projected as its UNIT vector (independent reference formula)
    U = np.asarray(V.unit.data, float).reshape(-1, 3)
    for pole, mask, got, tag2 in ((-1, mu, up, "upper"), (1, ml, lo, "lower")):
        ref = []
        for u, m in zip(U, mask):
            if m:
                den = u[2] - pole
                ref.append([0.0, 0.0] if den == 0 else [-pole * u[0] / den, -pole * u[1] / den])
        if len(ref) == len(got) and len(ref) and np.max(np.abs(np.array(ref) - np.array(got))) > 1e-9:
            fail("split:coordinates", f"vector2xy_split {tag2} coordinates differ from the stereographic projection of the "
                                      f"unit vectors (non-unit input is not normalised?)", {"vs": vs, tag2: got, "expected": ref})
            return
    for v, a, b in zip(vs, mu, ml):
        n = norm(v)
        if n == 0:
            continue
        zu = v[2] / n
        wrong = (zu >= 0 and not a) or (zu <= 0 and not b) or (zu < -1e-9 and a) or (zu > 1e-9 and b)
        if wrong:
            tag = ":unnormalised-test" if n < 1 and abs(v[2]) < 1e-9 else ""
            fail("split:assignment" + tag,
                 f"vector {v} (unit z = {zu}) is assigned upper={bool(a)} lower={bool(b)} by vector2xy_split "
                 f"(the hemisphere test is made on the un-normalised vector)", {"vs": vs, "up": up, "lo": lo})
            return


# ------------------------------------------------------------ spherical coordinates
def do_to_polar():
    deg = R.random() < 0.4
    vs = []
    for _ in range(R.randint(1, 10)):
        while True:
            s, v = gen_vector()
            if s != "zero":
                break
        vs.append(v); st("to_polar/" + s)
    a, p, r = Vector3d(np.array(vs, dtype=float)).to_polar(degrees=deg)
    out = [[float(x), float(y), float(z)] for x, y, z in zip(a, p, r)]
    if any(math.isnan(c) for o in out for c in o):
        st("to_polar/nan-output")
    cases.append({"k": "to_polar", "deg": deg, "vs": vs, "out": out})
    # oracle: back to Cartesian
    w = Vector3d.from_polar(a, p, r, degrees=deg).data
    for v, b in zip(vs, w):
        n = norm(v)
        if not all(abs(x - y) <= 1e-7 * n for x, y in zip(b, v)):
            band = in_snap_band(v)
            fail("to_polar:roundtrip" + (":snap-band" if band else ""),
                 f"from_polar(to_polar(v)) = {b.tolist()} != v = {v} (|v| = {n}, degrees={deg})",
                 {"vs": vs, "deg": deg})
            return


def do_from_polar():
    deg = R.random() < 0.4
    apr = []
    for _ in range(R.randint(1, 10)):
        s = R.choice(["generic", "generic", "pole", "equator", "azimuth-edge", "radial"])
        st("from_polar/" + s)
        a = R.uniform(0, 2 * math.pi)
        p = R.uniform(0.05, math.pi - 0.05)
        r = 1.0
        if s == "pole":
            p = R.choice([0.0, math.pi])
        elif s == "equator":
            p = math.pi / 2
        elif s == "azimuth-edge":
            a = R.choice([0.0, math.pi / 2, math.pi, 1.5 * math.pi, 2 * math.pi - 1e-6, 1e-6])
        elif s == "radial":
            r = R.choice([0.5, 3.0, 1e3, 1e-3])
        if deg:
            a, p = math.degrees(a), math.degrees(p)
        apr.append([a, p, r])
    A = np.array(apr)
    outs = []
    for a, p, r in apr:      # radial is a scalar parameter of from_polar
        outs.append(Vector3d.from_polar(np.array([a]), np.array([p]), r, degrees=deg).data[0].tolist())
    cases.append({"k": "from_polar", "deg": deg, "apr": apr, "out": outs})
    for (a, p, r), w in zip(apr, outs):
        a2, p2, r2 = Vector3d(np.array([w])).to_polar(degrees=deg)
        full = 360.0 if deg else 2 * math.pi
        half = full / 2
        if abs(r2[0] - r) > 1e-9 * r or abs(p2[0] - p) > 1e-7 * half:
            fail("from_polar:roundtrip", f"to_polar(from_polar({a}, {p}, {r})) = {a2[0], p2[0], r2[0]} (degrees={deg})",
                 {"apr": apr, "deg": deg})
            return
        if 1e-3 * half < p < half * (1 - 1e-3) and not in_rel_band(w):
            d = abs(a2[0] - a) % full
            if min(d, full - d) > 1e-7 * full:
                fail("from_polar:roundtrip", f"azimuth of from_polar({a}, {p}, {r}) comes back as {a2[0]} (degrees={deg})",
                     {"apr": apr, "deg": deg})
                return


# ------------------------------------------------------------------ pole density
def kernel(sd):
    radius = int(4.0 * sd + 0.5)
    x = np.arange(-radius, radius + 1)
    k = np.exp(-0.5 / (sd * sd) * x ** 2)
    return radius, (k / k.sum()).tolist()


def gen_pdf_vectors(n):
    vs = []
    mode = R.choice(["uniform", "fibre", "cluster", "mixed"])
    c = rand_unit()
    for _ in range(n):
        if mode == "uniform":
            v = rand_unit()
        elif mode == "fibre":
            a = R.uniform(0, 2 * math.pi); z = R.gauss(0.3, 0.1)
            v = [math.cos(a), math.sin(a), z]
        elif mode == "cluster":
            v = [c[i] + R.gauss(0, 0.15) for i in range(3)]
        else:
            _, v = gen_vector()      # all strata, short vectors and the rounding band included
        vs.append(v)
    return mode, vs


def do_pdf():
    res = R.choice([10.0, 15.0, 30.0, 7.5, 45.0, 11.0, 90.0] + ([5.0, 3.7] if TIER == "thorough" else []))
    sigma = R.choice([5.0, 10.0, 2.0, res, 0.6 * res, 20.0])
    hemi = R.choice(["upper", "lower"])
    mrd = R.random() < 0.5
    n = R.choice([1, 5, 40, 150])
    mode, vs = gen_pdf_vectors(n)
    wk = R.choice(["none", "positive", "mixed-scale", "some-zero"])
    if wk == "none":
        ws = None
    elif wk == "positive":
        ws = [R.uniform(0.1, 3) for _ in vs]
    elif wk == "mixed-scale":
        ws = [R.choice([1e-3, 1.0, 250.0]) * R.random() for _ in vs]
    else:
        ws = [R.choice([0.0, 1.0, 2.0]) for _ in vs]
    st(f"pdf/{hemi}/mrd={mrd}/weights={wk}/{mode}")
    V = Vector3d(np.array(vs, dtype=float))
    wa = None if ws is None else np.array(ws)
    hist, _ = pole_density_function(V, resolution=res, sigma=sigma, weights=wa, hemisphere=hemi, mrd=mrd)
    steps = int(np.ceil(90 / res))
    ea, ep = _sample_S2_equal_area_coordinates(res, hemisphere=hemi, azimuth_endpoint=True)
    sd = sigma / res
    radius, kern = kernel(sd)
    data = np.ma.getdata(hist)
    w1 = [1.0] * len(vs) if ws is None else ws
    az, po, _ = Vector3d(np.array(vs, dtype=float)).to_polar()
    aps = [None if (math.isnan(a) or math.isnan(b)) else [float(a), float(b)] for a, b in zip(az, po)]
    case = {"k": "pdf", "lower": hemi == "lower", "steps": steps, "ea": ea.tolist(), "ep": ep.tolist(),
            "sd": sd, "radius": radius, "kern": kern, "mrd": mrd, "vs": vs, "ws": w1, "aps": aps,
            "shape": list(data.shape), "out": data.reshape(-1).tolist(), "res": res, "sigma": sigma}
    if np.ma.getmaskarray(hist).any() or not np.all(np.isfinite(data)):
        # all-masked result (no weight in the hemisphere and mrd): nothing to compare numerically
        st("pdf/degenerate-output")
        case["out"] = None
    cases.append(case)
    # ---- oracle
    h0, _ = pole_density_function(Vector3d(np.array(vs, dtype=float)), resolution=res, sigma=sigma, weights=wa,
                                  hemisphere=hemi, mrd=False)
    inside = 0.0
    for v, w in zip(vs, w1):
        n_ = norm(v)
        if n_ == 0:
            continue
        z = v[2] / n_
        if (z >= 0 if hemi == "upper" else z <= 0):
            inside += w
    tot = float(np.ma.getdata(h0).sum())
    rep = {"vs": vs, "ws": ws, "resolution": res, "sigma": sigma, "hemisphere": hemi}
    if abs(tot - inside) > 1e-9 * max(1.0, abs(inside)):
        fail("pdf:weight-conservation", f"sum of the histogram {tot} != total weight {inside} of the vectors on the "
             f"{hemi} hemisphere (resolution {res}, sigma {sigma})", rep)
    if float(np.ma.getdata(h0).min()) < -1e-12 * max(1.0, abs(inside)):
        fail("pdf:non-negative", f"negative bin {float(np.ma.getdata(h0).min())}", rep)
    if inside > 0:
        h1, _ = pole_density_function(Vector3d(np.array(vs, dtype=float)), resolution=res, sigma=sigma, weights=wa,
                                      hemisphere=hemi, mrd=True)
        m = float(h1.mean())
        if abs(m - 1) > 1e-9:
            fail("pdf:mrd-mean", f"MRD histogram averages to {m} over the valid bins", rep)


def sector_vectors(pg, n):
    """random unit vectors and symmetry-equivalent copies"""
    vs = np.array([rand_unit() for _ in range(n)])
    idx = [R.randrange(pg.size) for _ in range(n)]
    V = Vector3d(vs)
    W = Vector3d(np.array([(pg[i] * V[k]).data.reshape(3) for k, i in enumerate(idx)]))
    return V, W, idx


def do_pdf_sym(pg):
    res = R.choice([10.0, 15.0, 20.0])
    sigma = R.choice([5.0, 10.0])
    n = 60
    V, W, idx = sector_vectors(pg, n)
    ws = np.array([R.uniform(0.2, 2) for _ in range(n)])
    st(f"pdfsym/{pg.name}")
    rep = {"group": pg.name, "vs": V.data.tolist(), "sym_index": idx, "ws": ws.tolist(), "resolution": res,
           "sigma": sigma}
    h1, _ = pole_density_function(Vector3d(V.data.copy()), resolution=res, sigma=sigma, weights=ws, symmetry=pg,
                                  mrd=False)
    h2, _ = pole_density_function(Vector3d(W.data.copy()), resolution=res, sigma=sigma, weights=ws, symmetry=pg,
                                  mrd=False)
    d1, d2 = np.ma.getdata(h1), np.ma.getdata(h2)
    tot = float(ws.sum())
    # (weight conservation is only claimed without symmetry: sectors that reach below the
    #  equator lose the part folded onto the lower hemisphere, by construction of the code)
    if float(d1.min()) < -1e-12:
        fail("pdf:symmetry:non-negative", f"negative folded bin {float(d1.min())}", rep)
    hm, _ = pole_density_function(Vector3d(V.data.copy()), resolution=res, sigma=sigma, weights=ws, symmetry=pg,
                                  mrd=True)
    if np.ma.count(hm) and abs(float(hm.mean()) - 1) > 1e-9:
        fail("pdf:symmetry:mrd-mean", f"MRD folded histogram averages to {float(hm.mean())}", rep)
    if not np.allclose(d1, d2, rtol=1e-7, atol=1e-9 * tot):
        f1 = Vector3d(V.data.copy()).in_fundamental_sector(pg).data
        f2 = Vector3d(W.data.copy()).in_fundamental_sector(pg).data
        bad = np.where(np.abs(f1 - f2).max(axis=1) > 1e-6)[0]
        if bad.size:
            k = int(bad[0])
            fail(f"pdf:symmetry:invariance:{pg.name}",
                 f"pole density with symmetry {pg.name} changes when vectors are replaced by symmetry-equivalent "
                 f"ones: {V.data[k].tolist()} and its equivalent {W.data[k].tolist()} are folded to different "
                 f"directions {f1[k].tolist()} / {f2[k].tolist()}", rep)
        else:
            st("pdfsym/bin-edge-rounding-only")


# ----------------------------------------------------------------------- driver
kinds = [do_proj, do_proj, do_inv, do_split, do_to_polar, do_from_polar]
for i in range(N):
    kinds[i % len(kinds)]()
for i in range(max(6, N // 25)):
    do_pdf()
groups = list(osym._groups)
for pg in groups:
    for _ in range(1 if TIER == "quick" else 4):
        do_pdf_sym(pg)

# ---- secondary entry points: the density drawn by Vector3d.pole_density_function / StereographicPlot.pole_density_function
# must be the histogram orix.measure.pole_density_function computes for the same vectors, weights, resolution and
# smoothing (read back from the QuadMesh of the axes)
try:
    import matplotlib
    matplotlib.use("Agg")
    import matplotlib.pyplot as plt
    from orix import plot as _orix_plot  # noqa: F401  (registers the projections)
    for trial in range(3):
        n = 40
        vs = np.array([rand_vec(R) for _ in range(n)])
        ws = np.array([R.choice([0.0, 0.5, 1.0, 3.0, 7.5]) for _ in range(n)])
        ws[0] = 11.0
        res, sigma = R.choice([(6, 0), (8, 7), (10, 12)])
        for hemi in ("upper", "lower"):
            st("pdf/plot-entry")
            ref, _ = pole_density_function(Vector3d(vs.copy()), resolution=res, sigma=sigma, weights=ws, hemisphere=hemi)
            fig = Vector3d(vs.copy()).pole_density_function(resolution=res, sigma=sigma, weights=ws, hemisphere=hemi,
                                                            return_figure=True)
            qm = [c for ax in fig.axes for c in ax.collections if type(c).__name__ == "QuadMesh"]
            plt.close(fig)
            rep = {"n": n, "resolution": res, "sigma": sigma, "hemisphere": hemi, "weights": ws.tolist(), "v": vs.tolist()}
            if not qm:
                fail("pdf:plot-entry:no-mesh", "Vector3d.pole_density_function drew no density mesh", rep)
                continue
            got = np.ma.filled(np.ma.masked_invalid(qm[0].get_array()), np.nan).reshape(-1)
            want_ = np.ma.filled(np.ma.masked_invalid(ref), np.nan).reshape(-1)
            if got.shape != want_.shape or not np.allclose(np.nan_to_num(got), np.nan_to_num(want_), atol=1e-9):
                fail("pdf:plot-entry:differs-from-measure", "the density drawn by Vector3d.pole_density_function(weights=...) is not the "
                     "histogram of orix.measure.pole_density_function for the same arguments", rep)
except ImportError:
    st("pdf/plot-entry:matplotlib-missing")

emit({"cases": cases, "fails": fails, "strata": strata})
