"""C10 implementation harness: Miller.symmetrise / multiplicity /
angle_with(use_symmetry) / unique(use_symmetry) / round and metadata
propagation on /repo's working tree, for all 38 point groups.

Emits  cases  (input + observed output; compared with the Coq model inside
Coq), fails (property oracle: brute-force reference with the group's matrices
and a tolerance clustering that does not depend on decimal rounding) and
strata."""
import math
from functools import reduce

import numpy as np
from common import emit, payload, rng

from diffpy.structure import Lattice, Structure
from orix.crystal_map import Phase
from orix.quaternion import symmetry as osym
from orix.vector import Miller, Vector3d

P = payload()
R = rng(P.get("seed", 0))
N = P.get("n", 300)          # budget: number of vector sets over all groups
FIXED_ONLY = P.get("fixed_only", False)

cases, fails, strata = [], [], {}
witness = {}
TOL = 1e-7


def st(k):
    strata[k] = strata.get(k, 0) + 1


def fail(sig, what, rep):
    fails.append({"sig": sig, "what": what, "replay": rep})


GROUPS = list(osym._groups)
EXACT_SYSTEMS = ("cubic", "tetragonal", "orthorhombic", "monoclinic", "triclinic")


def lattice_for(g, r):
    s = g.system
    a, b, c = (round(r.uniform(2, 9), 3) for _ in range(3))
    if s == "cubic":
        return Lattice(a, a, a, 90, 90, 90)
    if s in ("hexagonal", "trigonal"):
        return Lattice(a, a, c, 90, 90, 120)
    if s == "tetragonal":
        return Lattice(a, a, c, 90, 90, 90)
    if s == "orthorhombic":
        return Lattice(a, b, c, 90, 90, 90)
    if s == "monoclinic":
        return Lattice(a, b, c, 90, round(r.uniform(95, 120), 2), 90)
    return Lattice(a, b, c, round(r.uniform(70, 110), 2), round(r.uniform(70, 110), 2), round(r.uniform(70, 110), 2))


def group_mats(g):
    """operations as signed 3x3 matrices acting on column vectors"""
    m = g.to_matrix()
    sg = np.where(g.improper, -1.0, 1.0)
    return m * sg[:, None, None]


def ops_json(g):
    return {"q": g.data.reshape(-1, 4).tolist(), "imp": g.improper.reshape(-1).astype(int).tolist()}


# ------------------------------------------------------------- vector strata
SQ3 = math.sqrt(3.0)


def special_dirs(g):
    out = [[0, 0, 1], [1, 0, 0], [0, 1, 0], [1, 1, 0], [1, 1, 1], [1, -1, 0], [0, 1, 1], [1, 0, 1]]
    if g.system in ("hexagonal", "trigonal"):
        out += [[SQ3 / 2, 0.5, 0], [0.5, SQ3 / 2, 0], [-0.5, SQ3 / 2, 0], [SQ3 / 2, -0.5, 0]]
    return out


def gen_vector(g, r, kind):
    if kind == "general":
        return [r.gauss(0, 1) * r.choice([0.3, 1, 5]) for _ in range(3)]
    if kind == "axis":
        d = r.choice(special_dirs(g))
        s = r.choice([1.0, 2.0, 0.5, -1.0, r.uniform(0.2, 4)])
        return [s * x for x in d]
    if kind == "mirror":
        a, b = r.uniform(-3, 3), r.uniform(-3, 3)
        k = r.randrange(6)
        if k == 0:
            return [a, 0.0, b]
        if k == 1:
            return [0.0, a, b]
        if k == 2:
            return [a, b, 0.0]
        if k == 3:
            return [a, a, b]
        if k == 4:
            return [a, -a, b]
        return [a * SQ3 / 2, a * 0.5, b]
    if kind == "lattice":
        return None  # handled by caller (integer indices)
    raise ValueError(kind)


def threshold_vectors(g, r):
    """vectors on special positions whose images have a coordinate within an
    ulp of a half-unit of the 10th decimal"""
    k = r.randrange(10 ** 9, 10 ** 10)
    x = 2 * (k + 0.5) * 1e-10
    c = [[x, 0, 0.3], [0, x, 0.3], [x, 0, 0], [0, x, 0], [x * 0.5, x * SQ3 / 2, 0.1], [x * SQ3 / 2, x * 0.5, 0.2],
         [x * SQ3 / 2, x * 0.5, 0], [x, x, 0.25], [x, x, x]]
    return [r.choice(c) for _ in range(r.choice([1, 2, 3]))]


SHAPES1 = [(1,), (2,), (3,), (4,), (5,)]
SHAPESN = [(2, 2), (2, 3), (3, 2), (1, 3), (3, 1), (2, 1, 2), (2, 2, 2), (1, 2, 3)]


def build_set(g, r, stratum):
    """-> (shape, xyz rows C order, labels per vector)"""
    shape = r.choice(SHAPES1) if r.random() < 0.6 else r.choice(SHAPESN)
    n = int(np.prod(shape))
    rows, labs = [], []
    if stratum == "threshold":
        tv = threshold_vectors(g, r)
        shape = (len(tv),)
        return shape, tv, ["threshold"] * len(tv)
    for _ in range(n):
        if stratum in ("mixed", "parallel", "equivalent"):
            kind = r.choice(["general", "axis", "mirror"])
        else:
            kind = stratum
        rows.append(gen_vector(g, r, kind))
        labs.append(kind)
    if stratum == "equivalent" and n >= 2:
        # symmetry-equivalent copies, computed by the implementation's own rotation
        for _ in range(max(1, n // 2)):
            i, j = r.sample(range(n), 2)
            k = r.randrange(g.size)
            rows[j] = (g[k] * Vector3d(rows[i])).data.reshape(3).tolist()
            labs[j] = labs[i]
    if stratum == "parallel" or (stratum == "mixed" and n >= 2 and r.random() < 0.5):
        # parallel pairs / exact duplicates / antiparallel
        i, j = r.sample(range(n), 2) if n >= 2 else (0, 0)
        f = r.choice([1.0, 2.0, -1.0, 0.5])
        rows[j] = [f * x for x in rows[i]]
        labs[j] = labs[i]
    return shape, rows, labs


# ------------------------------------------------------------------ reference
def cluster_first(imgs, tol=TOL):
    """first-appearance list of tolerance-distinct images"""
    out = []
    for w in imgs:
        if not any(np.max(np.abs(w - u)) <= tol for u in out):
            out.append(w)
    return out


def equivalent(mats, a, b, tol=TOL):
    return bool(np.any(np.max(np.abs(mats @ a - b), axis=-1) <= tol * max(1.0, np.max(np.abs(b)))))


def ambiguous(mats, fl):
    """does some image coordinate lie within float noise of a half-unit of the
    10th decimal (np.round(., 10) of two float evaluations of the same image
    may then differ)?"""
    for v in fl:
        img = (mats @ v).reshape(-1)
        t = np.abs(img) * 1e10
        fr = t - np.floor(t)
        if np.any(np.abs(fr - 0.5) <= 2e-4 * np.maximum(1.0, np.abs(img))):
            return True
    return False


def ang(a, b):
    c = float(np.dot(a, b) / (np.linalg.norm(a) * np.linalg.norm(b)))
    return math.acos(max(-1.0, min(1.0, c)))


def check_symmetrise(g, mats, m, shape, rows, labs, stratum, lat):
    gname = g.name
    rep = {"group": gname, "shape": list(shape), "xyz": rows, "lattice": list(lat.abcABG()), "stratum": stratum}
    flat = m.flatten()
    fl = flat.data.reshape(-1, 3)
    n = fl.shape[0]
    G = mats.shape[0]
    # ---- observed
    v2 = g.outer(flat)
    sa = m.symmetrise()
    su, mult, idx = m.symmetrise(unique=True, return_multiplicity=True, return_index=True)
    mprop = m.multiplicity
    cases.append({"k": "sym", "group": gname, "ops": ops_json(g), "shape": list(shape), "data": rows,
                  "flat": fl.tolist(), "v2": v2.data.reshape(G, n, 3).tolist(),
                  "all": sa.data.reshape(-1, 3).tolist(), "uniq": su.data.reshape(-1, 3).tolist(),
                  "mult": [int(x) for x in mult], "idx": [int(x) for x in idx],
                  "mprop": [int(x) for x in np.asarray(mprop).reshape(-1)], "stratum": stratum})
    # ---- oracle
    zero = [bool(np.all(np.abs(v) <= 1e-8)) for v in fl]
    # all images, per vector in (flattened) input order
    ok_all = sa.shape == (G * n,)
    if ok_all:
        for j in range(n):
            ref = mats @ fl[j]
            if np.max(np.abs(sa.data[j * G:(j + 1) * G] - ref)) > 1e-9 * max(1, np.max(np.abs(fl[j]))):
                ok_all = False
    if not ok_all:
        fail("symmetrise:all", f"symmetrise() is not [g.v for g in G] per vector in input order (group {gname})", rep)
    # flattened input = some enumeration of the input vectors (documented: flattened)
    # unique images
    off = 0
    bad_u, bad_div, bad_idx = None, None, None
    refm = []
    for j in range(n):
        ref = [] if zero[j] else cluster_first(list(mats @ fl[j]))
        refm.append(len(ref))
    thr = ambiguous(mats, fl)
    cases[-1]["amb"] = thr
    for j in range(n):
        l = int(mult[j])
        if l != refm[j]:
            bad_u = (j, l, refm[j])
            break
        blk = su.data[off:off + l]
        ref = cluster_first(list(mats @ fl[j]))
        if len(blk) != l or any(np.max(np.abs(b - r_)) > 2e-10 for b, r_ in zip(blk, ref)):
            bad_u = (j, "block", None)
            break
        if list(idx[off:off + l]) != [j] * l:
            bad_idx = j
            break
        off += l
    for j in range(n):
        if int(mult[j]) != 0 and G % int(mult[j]) != 0:
            bad_div = (j, int(mult[j]))
    tag = "threshold" if thr else ("zero" if any(zero) else "regular")
    if bad_u is not None:
        j = bad_u[0]
        fail(f"symmetrise:unique:{tag}",
             f"symmetrise(unique=True): vector {fl[j].tolist()} in group {gname} (order {G}) gets multiplicity/"
             f"block {bad_u[1]} but has {refm[j]} distinct images", rep)
    elif bad_idx is not None:
        fail(f"symmetrise:index:{tag}", f"symmetrise(return_index=True): idx is not input index repeated multiplicity times (group {gname})", rep)
    elif su.size != sum(refm) or len(idx) != sum(refm):
        fail(f"symmetrise:length:{tag}", "symmetrise(unique=True) sizes inconsistent", rep)
    if bad_div is not None:
        fail(f"symmetrise:divides:{tag}",
             f"multiplicity {bad_div[1]} of vector {fl[bad_div[0]].tolist()} does not divide the order {G} of {gname}", rep)
    # multiplicity property: element-wise on the object's own shape
    mp = np.asarray(mprop)
    if mp.shape != tuple(shape):
        fail("multiplicity:shape", f"multiplicity.shape {mp.shape} != shape {shape}", rep)
    elif not thr:
        arr = np.asarray(rows, float).reshape(tuple(shape) + (3,))
        for ix in np.ndindex(*shape):
            v = arr[ix]
            want = 0 if np.all(np.abs(v) <= 1e-8) else len(cluster_first(list(mats @ v)))
            if int(mp[ix]) != want:
                nd = "1d" if len(shape) == 1 else "nd"
                fail(f"multiplicity:elementwise:{nd}",
                     f"multiplicity{list(ix)} = {int(mp[ix])} but vector {v.tolist()} has {want} distinct images "
                     f"(group {gname}, shape {shape})", rep)
                break
    # metadata
    for name, o in (("symmetrise", sa), ("symmetrise_unique", su)):
        if not (isinstance(o, Miller) and o.phase is m.phase and o.coordinate_format == m.coordinate_format):
            fail(f"meta:{name}", f"{name} does not keep phase / coordinate format", rep)
    check_return_flags(m, su, mult, idx, rep)


def check_return_flags(m, su, mult, idx, rep):
    """the other keyword paths of symmetrise(unique=True): no flag, multiplicity only (the path used by
    Miller.multiplicity), index only -- each must return the same vectors / multiplicities / indices as the call
    with both flags (which is the one judged against the brute-force reference)"""
    st("flags/symmetrise")

    def same_m(o):
        return (isinstance(o, Miller) and o.shape == su.shape and np.array_equal(o.data, su.data)
                and o.phase is m.phase and o.coordinate_format == m.coordinate_format)
    try:
        u0 = m.symmetrise(unique=True)
        t1 = m.symmetrise(unique=True, return_multiplicity=True)
        t2 = m.symmetrise(unique=True, return_index=True)
    except Exception as e:  # noqa
        fail("symmetrise:flags:raises", f"symmetrise(unique=True) with one/no return flag raises {type(e).__name__}: {e}", rep)
        return
    if not same_m(u0):
        fail("symmetrise:flags:unique-only", "symmetrise(unique=True) differs from the vectors of "
                                             "symmetrise(unique=True, return_multiplicity=True, return_index=True)", rep)
    if not (isinstance(t1, tuple) and len(t1) == 2 and same_m(t1[0])
            and np.array_equal(np.asarray(t1[1]), np.asarray(mult))):
        fail("symmetrise:flags:multiplicity-only", "symmetrise(unique=True, return_multiplicity=True) is not "
             "(vectors, multiplicity) of the call with both flags", rep)
    if not (isinstance(t2, tuple) and len(t2) == 2 and same_m(t2[0])
            and np.array_equal(np.asarray(t2[1]), np.asarray(idx))):
        fail("symmetrise:flags:index-only", "symmetrise(unique=True, return_index=True) is not (vectors, idx) of the "
                                            "call with both flags", rep)


ANGLE_ND = [((2, 3), (3,)), ((3,), (2, 3)), ((2, 1), (3,)), ((2, 1), (1, 3)), ((2, 2), (2, 2)), ((2, 3), (1,)),
            ((1,), (2, 2)), ((2, 1, 2), (3, 1))]
ANGLE_BAD = [((3,), (2,)), ((2,), (4,)), ((2, 3), (2,)), ((3, 2), (2, 3))]


def check_angle(g, mats, r, lat, ph):
    gname = g.name
    kind = r.choice(["single", "single", "same", "same", "self1", "nd", "nd", "incompatible"])
    fmt = r.choice(["uvw", "hkl", "xyz"])
    n = r.choice([1, 2, 3, 4])

    def mk(shape):
        k = int(np.prod(shape))
        rows = [gen_vector(g, r, r.choice(["general", "axis", "mirror"])) for _ in range(k)]
        mm = Miller(xyz=np.array(rows, float).reshape(tuple(shape) + (3,)), phase=ph)
        mm.coordinate_format = fmt
        return mm, rows
    if kind == "single":
        sa, sb = (n,), (1,)
    elif kind == "same":
        sa = sb = (max(n, 2),)
    elif kind == "self1":
        sa, sb = (1,), (max(n, 2),)
    elif kind == "nd":
        sa, sb = r.choice(ANGLE_ND)
    else:
        sa, sb = r.choice(ANGLE_BAD)
    a, ar = mk(sa)
    b, br = mk(sb)
    if kind in ("single", "same", "self1") and r.random() < 0.35:
        # parallel / antiparallel pairs: the other vector is a scaled symmetry image of a self vector, so one
        # cosine is +-1 up to rounding (arccos of 1 + 1 ulp is nan)
        src = np.asarray(ar, float).reshape(-1, 3)
        k = int(np.prod(sb))
        br = [(r.choice([1.0, 2.0, -1.0, 0.5, -3.0]) * (mats[r.randrange(len(mats))] @ src[i % len(src)])).tolist()
              for i in range(k)]
        b = Miller(xyz=np.array(br, float).reshape(tuple(sb) + (3,)), phase=ph)
        b.coordinate_format = fmt
        st("angle/parallel-pair")
    rep = {"group": gname, "self": ar, "other": br, "self_shape": list(sa), "other_shape": list(sb), "fmt": fmt,
           "kind": kind}
    case = {"k": "ang", "group": gname, "ops": ops_json(g), "sshape": list(sa), "oshape": list(sb),
            "self": a.data.reshape(-1, 3).tolist(), "other": b.data.reshape(-1, 3).tolist()}
    st(f"angle/{kind}")
    try:
        got = a.angle_with(b, use_symmetry=True)
    except Exception as e:  # noqa
        if kind == "incompatible" and isinstance(e, ValueError):
            # as without symmetry: shapes that cannot be broadcast are rejected
            case.update({"raised": True, "rshape": [], "out": []})
            cases.append(case)
        else:
            fail(f"angle:raises:{kind}", f"angle_with(use_symmetry=True) raises {type(e).__name__}", rep)
        return
    got = np.asarray(got)
    case.update({"raised": False, "rshape": list(got.shape), "out": got.reshape(-1).tolist()})
    cases.append(case)
    if kind == "incompatible":
        fail("angle:incompatible-shapes", f"angle_with(use_symmetry=True) of shapes {sa} and {sb}, which cannot be "
                                          f"broadcast, returns an array of shape {got.shape} (group {gname})", rep)
        return
    A = np.asarray(ar, float).reshape(tuple(sa) + (3,))
    B = np.asarray(br, float).reshape(tuple(sb) + (3,))
    bs = np.broadcast_shapes(A.shape[:-1], B.shape[:-1])
    Ab = np.broadcast_to(A, bs + (3,))
    Bb = np.broadcast_to(B, bs + (3,))
    ref = np.zeros(bs)
    for ix in np.ndindex(*bs):
        ref[ix] = min(ang(Ab[ix], w) for w in mats @ Bb[ix])
    if got.shape == ref.shape and not np.all(np.isfinite(got)):
        fail("angle:not-finite", f"angle_with(use_symmetry=True) = {got.tolist()} is not finite; the minimum over the other "
                                 f"vector's orbit is {ref.tolist()} (group {gname})", rep)
    elif got.shape != ref.shape or np.max(np.abs(got - ref)) > 5e-6:
        sig = {"single": "angle:single", "same": "angle:elementwise", "self1": "angle:elementwise",
               "nd": "angle:broadcast"}[kind]
        fail(sig, f"angle_with(use_symmetry=True) = {got.tolist()} but the minimum over the other vector's orbit "
                  f"is {ref.tolist()} (group {gname}, self {A.shape[:-1]}, other {B.shape[:-1]})", rep)
    # without symmetry the same shape comes out
    plain = np.asarray(a.angle_with(b))
    if plain.shape != got.shape:
        fail("angle:shape", f"angle_with(use_symmetry=True).shape {got.shape} != angle_with().shape {plain.shape}", rep)


def check_unique(g, mats, m, shape, rows, stratum, lat):
    gname = g.name
    rep = {"group": gname, "shape": list(shape), "xyz": rows, "stratum": stratum}
    try:
        u = m.unique(use_symmetry=True)
    except Exception as e:  # noqa
        fail("unique:raises", f"unique(use_symmetry=True) raises {type(e).__name__}: {e}", rep)
        return
    ud = u.data.reshape(-1, 3)
    fl = m.flatten().data.reshape(-1, 3)
    amb = ambiguous(mats, fl)
    # the steps of Miller.unique, for the correspondence: base-class unique,
    # outer product of the kept (rounded) vectors with the group
    vb = Vector3d(m.data).unique()
    nb = vb.size
    orb = g.outer(vb).flatten().reshape(nb, g.size).data if nb else np.zeros((0, g.size, 3))
    cases.append({"k": "uniq", "group": gname, "ops": ops_json(g), "flat": fl.tolist(),
                  "base": vb.data.reshape(-1, 3).tolist(), "orbits": np.asarray(orb).reshape(nb, g.size, 3).tolist(),
                  "out": ud.tolist()})
    tag = "threshold" if amb else "regular"
    exact_ops = "exact-ops" if g.system not in ("trigonal", "hexagonal") else "inexact-ops"
    for a in range(len(ud)):
        for b in range(a + 1, len(ud)):
            if equivalent(mats, ud[a], ud[b]):
                # explained by the double rounding only if the two rounded orbit keys (as the library computed
                # them: rows of orb) differ; with equal keys the documented procedure merges the two vectors
                vbd = vb.data.reshape(-1, 3)
                ia = next((i for i in range(nb) if np.array_equal(vbd[i], ud[a])), None)
                ib = next((i for i in range(nb) if np.array_equal(vbd[i], ud[b])), None)
                if ia is not None and ib is not None:
                    ka = np.round(np.asarray(orb[ia]), 10) + 0.0
                    kb = np.round(np.asarray(orb[ib]), 10) + 0.0
                    dd = np.max(np.abs(ka[:, None, :] - kb[None, :, :]), axis=2)      # the two rounded orbits as SETS
                    if max(np.max(np.min(dd, axis=1)), np.max(np.min(dd, axis=0))) == 0:
                        exact_ops += ":equal-keys"
                fail(f"unique:orbits:two-from-one-orbit:{exact_ops}",
                     f"unique(use_symmetry=True) returns {ud[a].tolist()} and {ud[b].tolist()} which are "
                     f"equivalent under {gname}", rep)
                break
        else:
            continue
        break
    for v in fl:
        if np.all(np.abs(v) <= 1e-8):
            continue
        if not any(equivalent(mats, w, v) for w in ud):
            fail(f"unique:orbits:orbit-lost:{tag}", f"unique(use_symmetry=True): no returned vector is equivalent to input {v.tolist()} ({gname})", rep)
            break
    for w in ud:
        if not any(np.max(np.abs(w - v)) <= 1e-9 for v in fl):
            fail(f"unique:orbits:not-from-input:{tag}", f"unique(use_symmetry=True) returns {w.tolist()} which is not an input vector", rep)
            break
    if not (isinstance(u, Miller) and u.phase is m.phase and u.coordinate_format == m.coordinate_format):
        fail("meta:unique", "unique(use_symmetry=True) does not keep phase / coordinate format", rep)
    check_unique_index(m, ud, fl, rep)


def check_unique_index(m, ud, fl, rep, sig="unique:index"):
    """keyword path unique(use_symmetry=True, return_index=True): the same vectors as without return_index (the
    ones judged one-per-orbit above), and idx points at them in the flattened input"""
    st("flags/unique-index")
    try:
        u2, ix = m.unique(use_symmetry=True, return_index=True)
    except Exception as e:  # noqa
        fail(sig + ":raises", f"unique(use_symmetry=True, return_index=True) raises {type(e).__name__}: {e}", rep)
        return
    ix = np.asarray(ix)
    d2 = u2.data.reshape(-1, 3)
    if not (isinstance(u2, Miller) and d2.shape == ud.shape and np.array_equal(d2, ud) and u2.phase is m.phase
            and u2.coordinate_format == m.coordinate_format):
        fail(sig + ":vectors", "unique(use_symmetry=True, return_index=True)[0] differs from unique(use_symmetry=True)", rep)
    elif not (ix.shape == (len(ud),) and ix.dtype.kind in "iu" and (len(ix) == 0 or (ix.min() >= 0 and ix.max() < len(fl)))
              and np.all(np.abs(fl[ix] - ud) <= 1e-9)):
        fail(sig + ":index", f"unique(use_symmetry=True, return_index=True): flatten()[idx] (idx = {ix.tolist()}) are not "
                             f"the returned vectors {ud.tolist()}", rep)


def gcd3(t):
    return reduce(math.gcd, [abs(int(x)) for x in t])


def check_round(g, r, lat, ph):
    fmt = r.choice(["uvw", "hkl", "UVTW", "hkil"])
    mi = r.choice([12, 20, 20, 30, 40])
    k = r.choice([1, 2, 3])
    prim, idxs = [], []
    for _ in range(k):
        while True:
            t = [r.randint(-min(mi, 9), min(mi, 9)) for _ in range(3)]
            if any(t):
                break
        if r.random() < 0.3:
            t[r.randrange(3)] = r.choice([mi, -mi, mi - 1])
        gg = gcd3(t)
        p = [x // gg for x in t]
        s = r.choice([1.0, 2.0, 3.0, 0.5, 1.5, r.uniform(0.1, 7)])
        if fmt in ("UVTW", "hkil"):
            p4 = [p[0], p[1], -(p[0] + p[1]), p[2]]
            prim.append(p4)
            idxs.append([s * x for x in p4])
        else:
            prim.append(p)
            idxs.append([s * x for x in p])
    m = Miller(**{fmt: idxs, "phase": ph})
    rep = {"group": g.name, "fmt": fmt, "indices": idxs, "max_index": mi, "lattice": list(lat.abcABG())}
    try:
        out = m.round(max_index=mi)
    except Exception as e:  # noqa
        fail("round:raises", f"round raises {type(e).__name__}: {e}", rep)
        return
    coords = np.asarray(m.coordinates)
    from orix.vector.miller import _round_indices
    ri = _round_indices(coords, max_index=mi)
    for row, o in zip(coords.reshape(-1, coords.shape[-1]).tolist(), np.asarray(ri).reshape(-1, coords.shape[-1]).tolist()):
        cases.append({"k": "rnd", "idx": row, "max_index": mi, "out": [int(x) for x in o]})
    st(f"round/{fmt}")
    got = np.asarray(out.coordinates)
    want = np.asarray(prim, float)
    if not (isinstance(out, Miller) and out.phase is m.phase and out.coordinate_format == m.coordinate_format):
        fail("meta:round", "round() does not keep phase / coordinate format", rep)
    if got.shape != want.shape or np.max(np.abs(got - want)) > 1e-6:
        fail("round:primitive", f"round(max_index={mi}) of {idxs} ({fmt}) = {got.tolist()}, expected the parallel "
                                f"coprime indices {prim}", rep)
    # xyz format: deep copy
    mx = Miller(xyz=m.data, phase=ph)
    ox = mx.round()
    if not (np.array_equal(ox.data, mx.data) and ox.coordinate_format == "xyz" and ox is not mx):
        fail("round:xyz", "round() of an xyz-format Miller is not an unchanged copy", rep)


# ----------------------------------------------------------- fixed regressions
FIXED_THRESHOLD = [("-6", [1.6777300495, 0, 0]), ("6/m", [0, 1.3985463103, 0]),
                   ("3m", [1.4896482716760011, 0.86004883065, 0.2]), ("312", [1.5347109885194825, 0.88606580235, 0])]


def fixed():
    # (a) near-threshold images: multiplicity not the number of distinct images
    for gname, v in FIXED_THRESHOLD:
        g = osym.get_point_group  # noqa (not used; keep name lookup below)
        g = [x for x in GROUPS if x.name == gname][0]
        ph = Phase(point_group=g)
        m = Miller(xyz=[v], phase=ph)
        st("fixed/threshold")
        check_symmetrise(g, group_mats(g), m, (1,), [v], ["threshold"], "threshold", ph.structure.lattice)
    mult = {}
    for gname, v in FIXED_THRESHOLD:
        g = [x for x in GROUPS if x.name == gname][0]
        mult[gname] = int(Miller(xyz=[v], phase=Phase(point_group=g)).multiplicity[0])
    witness["threshold_mult"] = mult
    # (b) multiplicity of a 2-d object (repaired defect; Coq: C10_multiplicity_nd, C10_multiplicity_nd_nonvacuous)
    ph = Phase(point_group="m-3m")
    rows = [[1, 0, 0], [1, 1, 0], [1, 1, 1], [1, 2, 3], [0, 0, 1], [1, 1, 2]]
    m = Miller(xyz=np.array(rows, float).reshape(2, 3, 3), phase=ph)
    witness["mult_2x3"] = np.asarray(m.multiplicity).reshape(-1).tolist()
    witness["mult_each"] = [int(Miller(xyz=[v], phase=ph).multiplicity[0]) for v in rows]
    g = ph.point_group
    st("fixed/mult-nd")
    check_symmetrise(g, group_mats(g), m, (2, 3), [[float(x) for x in v] for v in rows], ["axis"] * 6, "fixed-nd",
                     ph.structure.lattice)
    # (c) angle_with(use_symmetry) with two other vectors (repaired defect; Coq: C10_angle_elementwise,
    #     C10_angle_elementwise_nonvacuous)
    a = Miller(xyz=[[1, 0, 0], [1, 1, 0]], phase=ph)
    b = Miller(xyz=[[5, 0, 1], [1, 1, 1]], phase=ph)
    got = a.angle_with(b, use_symmetry=True)
    each = [float(a[i].angle_with(b[i], use_symmetry=True)[0]) for i in range(2)]
    witness["angle_pair"] = [float(x) for x in got]
    witness["angle_each"] = each
    mats = group_mats(g)
    ref = [min(ang(np.array(x, float), w) for w in mats @ np.array(y, float))
           for x, y in zip([[1, 0, 0], [1, 1, 0]], [[5, 0, 1], [1, 1, 1]])]
    st("fixed/angle")
    if np.max(np.abs(np.asarray(got) - np.asarray(ref))) > 5e-6:
        fail("angle:elementwise", f"angle_with(use_symmetry=True) of [100],[110] with [501],[111] in m-3m = "
                                  f"{[float(x) for x in got]} but the per-pair minima over the orbit are {ref}",
             {"group": "m-3m", "self": [[1, 0, 0], [1, 1, 0]], "other": [[5, 0, 1], [1, 1, 1]]})


    # (d) unique(use_symmetry=True) keeps two equivalent vectors (inexact operations)
    g3 = [x for x in GROUPS if x.name == "3"][0]
    ph3 = Phase(point_group=g3)
    v = [0.04740454635871802, -0.4941590699323547, 2.3180960409799796]
    w = (g3[2] * Vector3d(v)).data.reshape(3).tolist()
    m3 = Miller(xyz=[v, w], phase=ph3)
    witness["unique_equiv_pair"] = int(m3.unique(use_symmetry=True).size)
    st("fixed/unique-equivalent")
    check_unique(g3, group_mats(g3), m3, (2,), [v, w], "equivalent", ph3.structure.lattice)


fixed()

# ------------------------------------------------------------------ main loop
STRATA = ["general", "axis", "mirror", "mixed", "parallel", "threshold", "lattice", "equivalent"]
if not FIXED_ONLY:
    per_group = max(1, N // len(GROUPS))
    for g in GROUPS:
        mats = group_mats(g)
        for t in range(per_group):
            lat = lattice_for(g, R)
            ph = Phase(point_group=g, structure=Structure(lattice=lat))
            stratum = STRATA[(t + GROUPS.index(g)) % len(STRATA)] if t < len(STRATA) else R.choice(STRATA)
            if stratum == "threshold" and g.system in EXACT_SYSTEMS and g.system != "monoclinic" and R.random() < 0.5:
                stratum = "mixed"
            fmt = R.choice(["xyz", "uvw", "hkl"])
            if stratum == "lattice":
                shape = R.choice(SHAPES1 + SHAPESN[:4])
                n = int(np.prod(shape))
                idxs = [[R.randint(-3, 3) for _ in range(3)] for _ in range(n)]
                fmt = R.choice(["uvw", "hkl"])
                m0 = Miller(**{fmt: np.array(idxs, float).reshape(tuple(shape) + (3,)), "phase": ph})
                rows = m0.data.reshape(-1, 3).tolist()
                labs = ["lattice"] * n
            else:
                shape, rows, labs = build_set(g, R, stratum)
            m = Miller(xyz=np.array(rows, float).reshape(tuple(shape) + (3,)), phase=ph)
            m.coordinate_format = fmt
            st(f"sym/{stratum}")
            st(f"group/{g.name}")
            st(f"ndim/{len(shape)}")
            check_symmetrise(g, mats, m, shape, rows, labs, stratum, lat)
            check_unique(g, mats, m, shape, rows, stratum, lat)
            if t % 2 == 0:
                check_angle(g, mats, R, lat, ph)
            if t % 2 == 1 or per_group == 1:
                check_round(g, R, lat, ph)


# ------------------------------------------------------------ audit strata
# Oracle-only strata (no correspondence cases) for entry points, keyword paths, input classes and histories
# that the main loop does not reach.  They run AFTER the main loop so that the random stream of the main loop
# (and with it the cases embedded in the Coq correspondence) is unchanged.  Each has its own signature prefix.
FORMATS5 = ["xyz", "uvw", "hkl", "UVTW", "hkil"]
INEXACT = ("trigonal", "hexagonal")


def nav_flatten(arr):
    """vectors of arr (shape + (3,)) in the order of Object3d.flatten(): FIRST navigation axis fastest"""
    shape = arr.shape[:-1]
    return np.array([arr[ix[::-1]] for ix in np.ndindex(*shape[::-1])], float).reshape(-1, 3)


def rand_rows(g, r, n):
    return [gen_vector(g, r, r.choice(["general", "axis", "mirror"])) for _ in range(n)]


def rep_of(gname, arr, lat=None, **kw):
    d = {"group": gname, "shape": list(arr.shape[:-1]), "xyz": np.asarray(arr, float).reshape(-1, 3).tolist()}
    if lat is not None:
        d["lattice"] = list(lat.abcABG())
    d.update(kw)
    return d


def orbit_check(m, arr, mats, sig, rep, gname):
    """m must hold the vectors arr (C order, shape + (3,)); symmetrise(), symmetrise(unique=True, ...), multiplicity
    against the brute-force orbits under mats.  Inputs with an image at the 10th-decimal rounding threshold are
    skipped (known finding, judged by the main loop).  -> True when judged"""
    arr = np.asarray(arr, float)
    shape = arr.shape[:-1]
    fl = nav_flatten(arr)
    n, G = len(fl), len(mats)
    scale = max(1.0, float(np.max(np.abs(arr)))) if arr.size else 1.0
    if tuple(m.shape) != tuple(shape) or (arr.size and np.max(np.abs(np.asarray(m.data, float) - arr)) > 1e-9 * scale):
        fail(sig + ":data", f"derived/constructed object does not hold the expected vectors (shape {tuple(m.shape)}, "
                            f"expected {tuple(shape)}; group {gname})", rep)
        return True
    if n and ambiguous(mats, fl):
        st("audit/skipped-threshold")
        return False
    try:
        sa = m.symmetrise()
        su, mult, idx = m.symmetrise(unique=True, return_multiplicity=True, return_index=True)
        mp = np.asarray(m.multiplicity)
    except Exception as e:  # noqa
        fail(sig + ":raises", f"symmetrise / multiplicity raises {type(e).__name__}: {e} (group {gname}, shape {shape})", rep)
        return True
    want_all = np.concatenate([mats @ v for v in fl]) if n else np.zeros((0, 3))
    if sa.shape != (G * n,) or (n and np.max(np.abs(sa.data - want_all)) > 1e-9 * scale):
        fail(sig + ":all", f"symmetrise() is not [g.v for g in G] per vector in flattened input order (group {gname}, "
                           f"order {G}, shape {shape})", rep)
    refs = [[] if np.all(np.abs(v) <= 1e-8) else cluster_first(list(mats @ v)) for v in fl]
    want_mult = [len(x) for x in refs]
    want_u = np.array([w for x in refs for w in x], float).reshape(-1, 3)
    want_idx = [j for j, x in enumerate(refs) for _ in x]
    if [int(x) for x in np.asarray(mult).reshape(-1)] != want_mult:
        fail(sig + ":multiplicity", f"symmetrise(unique=True) multiplicities {np.asarray(mult).tolist()} but the vectors have "
                                    f"{want_mult} distinct images (group {gname}, order {G}, shape {shape})", rep)
    elif su.shape != (len(want_u),) or (len(want_u) and np.max(np.abs(su.data - want_u)) > 2e-10 * scale):
        fail(sig + ":blocks", f"symmetrise(unique=True) vectors are not the distinct images grouped in input order "
                              f"(group {gname}, shape {shape})", rep)
    elif [int(x) for x in np.asarray(idx).reshape(-1)] != want_idx:
        fail(sig + ":index", f"symmetrise(return_index=True) idx {np.asarray(idx).tolist()} != {want_idx} (group {gname})", rep)
    if any(k and G % k for k in want_mult):
        fail(sig + ":reference", "internal: reference multiplicity does not divide the group order (not a group?)", rep)
    want_mp = np.zeros(shape, int)
    for ix in np.ndindex(*shape):
        v = arr[ix]
        want_mp[ix] = 0 if np.all(np.abs(v) <= 1e-8) else len(cluster_first(list(mats @ v)))
    if mp.shape != tuple(shape) or not np.array_equal(mp, want_mp):
        fail(sig + ":multiplicity-property", f"multiplicity = {mp.tolist()} but element-wise the numbers of distinct images are "
                                             f"{want_mp.tolist()} (group {gname}, shape {shape})", rep)
    for o in (sa, su):
        if not (isinstance(o, Miller) and o.phase is m.phase and o.coordinate_format == m.coordinate_format):
            fail(sig + ":meta", "symmetrise does not keep phase / coordinate format", rep)
            break
    return True


def orbit_count(mats, fl):
    reps = []
    for v in fl:
        if np.all(np.abs(v) <= 1e-8):
            continue
        if not any(equivalent(mats, w, v) for w in reps):
            reps.append(v)
    return len(reps)


def unique_check(m, arr, mats, sig, rep, gname, exact):
    """unique(use_symmetry=True): exactly one input vector per orbit (for groups with inexact operations, where
    keeping two of one orbit is a known finding judged by the main loop: at least one per orbit, all from the input)"""
    arr = np.asarray(arr, float)
    fl = nav_flatten(arr)
    if len(fl) and ambiguous(mats, fl):
        return
    try:
        u = m.unique(use_symmetry=True)
    except Exception as e:  # noqa
        fail(sig + ":unique-raises", f"unique(use_symmetry=True) raises {type(e).__name__}: {e} (group {gname})", rep)
        return
    ud = u.data.reshape(-1, 3)
    want = orbit_count(mats, fl)
    from_input = all(any(np.max(np.abs(w - v)) <= 1e-9 for v in fl) for w in ud)
    cover = all(np.all(np.abs(v) <= 1e-8) or any(equivalent(mats, w, v) for w in ud) for v in fl)
    count_ok = len(ud) == want if exact else len(ud) >= want
    if not (from_input and cover and count_ok and u.shape == (len(ud),)):
        fail(sig + ":unique-sym", f"unique(use_symmetry=True) returns {len(ud)} vector(s) {ud.tolist()} for an input with {want} "
                                  f"orbit(s) (group {gname}; from input: {from_input}, every orbit kept: {cover})", rep)
    if not (isinstance(u, Miller) and u.phase is m.phase and u.coordinate_format == m.coordinate_format):
        fail(sig + ":unique-meta", "unique(use_symmetry=True) does not keep phase / coordinate format", rep)
    check_unique_index(m, ud, np.asarray(m.flatten().data, float).reshape(-1, 3), rep, sig=sig + ":unique-index")


def angle_check(a, b, A, B, mats, sig, rep, gname, degrees=False):
    A, B = np.asarray(A, float), np.asarray(B, float)
    try:
        got = np.asarray(a.angle_with(b, use_symmetry=True, degrees=True) if degrees else a.angle_with(b, use_symmetry=True))
    except Exception as e:  # noqa
        fail(sig + ":raises", f"angle_with(use_symmetry=True) raises {type(e).__name__}: {e} (group {gname})", rep)
        return
    bs = np.broadcast_shapes(A.shape[:-1], B.shape[:-1])
    Ab, Bb = np.broadcast_to(A, bs + (3,)), np.broadcast_to(B, bs + (3,))
    ref = np.zeros(bs)
    for ix in np.ndindex(*bs):
        ref[ix] = min(ang(Ab[ix], w) for w in mats @ Bb[ix])
    if degrees:
        ref = ref * 180.0 / math.pi
    tol = 5e-6 * (180.0 / math.pi if degrees else 1.0)
    if got.shape != ref.shape or not np.all(np.isfinite(got)) or (ref.size and np.max(np.abs(got - ref)) > tol):
        fail(sig, f"angle_with(use_symmetry=True{', degrees=True' if degrees else ''}) = {got.tolist()} but the minimum angle "
                  f"over the other vector's orbit is {ref.tolist()} {'degrees' if degrees else 'rad'} (group {gname}, self "
                  f"{A.shape[:-1]}, other {B.shape[:-1]})", rep)


def like(m, xyz):
    """Miller with the phase and coordinate format (hence space) of m"""
    o = Miller(xyz=np.asarray(xyz, float), phase=m.phase)
    o.coordinate_format = m.coordinate_format
    return o


def group_named(name):
    return [x for x in GROUPS if x.name == name][0]


# space group number -> name of its point group (only numbers whose point group has ONE setting among orix's names)
SG_TABLE = [(2, "-1"), (14, "2/m"), (16, "222"), (25, "mm2"), (47, "mmm"), (62, "mmm"), (75, "4"), (81, "-4"), (83, "4/m"),
            (89, "422"), (99, "4mm"), (123, "4/mmm"), (139, "4/mmm"), (143, "3"), (147, "-3"), (168, "6"), (174, "-6"),
            (175, "6/m"), (177, "622"), (183, "6mm"), (191, "6/mmm"), (194, "6/mmm"), (195, "23"), (200, "m-3"),
            (207, "432"), (215, "-43m"), (221, "m-3m"), (225, "m-3m"), (227, "m-3m"), (229, "m-3m")]
AUDIT_SHAPES = [(1,), (3,), (2, 2), (1, 3), (2, 1, 2), (3, 1), (2, 1, 1, 2), (1, 1)]


def audit_space_group(r, i):
    """Phase given by space_group= (point group derived by the Phase.point_group property, Phase._point_group is None)"""
    num, pg = SG_TABLE[i % len(SG_TABLE)]
    g = group_named(pg)
    mats = group_mats(g)
    lat = lattice_for(g, r)
    ph = Phase(space_group=num, structure=Structure(lattice=lat))
    shape = AUDIT_SHAPES[i % len(AUDIT_SHAPES)]
    n = int(np.prod(shape))
    arr = np.array(rand_rows(g, r, n), float).reshape(tuple(shape) + (3,))
    m = Miller(xyz=arr, phase=ph)
    m.coordinate_format = FORMATS5[i % 3]
    rep = rep_of(pg, arr, lat, space_group=num, entry="Phase(space_group=...)")
    st("audit/space-group")
    orbit_check(m, arr, mats, "space-group:symmetrise", rep, f"{pg} (space group {num})")
    unique_check(m, arr, mats, "space-group", rep, pg, g.system not in INEXACT)
    B = np.array(rand_rows(g, r, 1), float)
    angle_check(m, like(m, B), arr, B, mats, "space-group:angle", dict(rep, other=B.tolist()), pg)


UNNAMED = ["C3x", "C3y", "C4x", "C4y", "C3z", "C4z"]


def audit_unnamed_group(r, i):
    """Symmetry objects that are not among the 38 named groups (rotation axes along x / y)"""
    nm = UNNAMED[i % len(UNNAMED)]
    g = getattr(osym, nm)
    mats = group_mats(g)
    lat = lattice_for(g, r)
    ph = Phase(point_group=g, structure=Structure(lattice=lat))
    shape = AUDIT_SHAPES[(i // len(UNNAMED)) % len(AUDIT_SHAPES)]
    n = int(np.prod(shape))
    rows = rand_rows(g, r, n)
    ax = {"x": [1.0, 0, 0], "y": [0, 1.0, 0], "z": [0, 0, 1.0]}[nm[-1]]
    rows[r.randrange(n)] = [r.choice([1.0, -2.0, 0.5]) * x for x in ax]          # a vector on the group's own axis
    arr = np.array(rows, float).reshape(tuple(shape) + (3,))
    m = Miller(xyz=arr, phase=ph)
    m.coordinate_format = FORMATS5[i % 3]
    rep = rep_of(f"orix.quaternion.symmetry.{nm}", arr, lat)
    st("audit/unnamed-group")
    orbit_check(m, arr, mats, "unnamed-group:symmetrise", rep, nm)
    unique_check(m, arr, mats, "unnamed-group", rep, nm, nm.startswith("C4"))
    B = np.array(rand_rows(g, r, 1), float)
    angle_check(m, like(m, B), arr, B, mats, "unnamed-group:angle", dict(rep, other=B.tolist()), nm)


def audit_int_dtype(g, r, i):
    """integer-typed input arrays (xyz / uvw / hkl), small lattice indices incl. special positions"""
    mats = group_mats(g)
    lat = lattice_for(g, r)
    ph = Phase(point_group=g, structure=Structure(lattice=lat))
    fmt = ["xyz", "uvw", "hkl"][i % 3]
    shape = AUDIT_SHAPES[(i // 3) % len(AUDIT_SHAPES)]
    n = int(np.prod(shape))
    ints = np.array([[r.randint(-3, 3) for _ in range(3)] for _ in range(n)], dtype=[np.int64, np.int32][i % 2])
    ints = ints.reshape(tuple(shape) + (3,))
    m = Miller(**{fmt: ints, "phase": ph})
    if fmt == "xyz":
        arr = ints.astype(float)
    else:
        # the same indices given as floats define the expected Cartesian vectors
        arr = np.asarray(Miller(**{fmt: ints.astype(float), "phase": ph}).data, float)
    rep = rep_of(g.name, arr, lat, fmt=fmt, indices=ints.reshape(-1, 3).tolist(), dtype=str(ints.dtype))
    st(f"audit/int-dtype/{fmt}")
    orbit_check(m, arr, mats, "int-dtype:symmetrise", rep, g.name)
    unique_check(m, arr, mats, "int-dtype", rep, g.name, g.system not in INEXACT)
    keep = [k for k in range(n) if np.any(ints.reshape(-1, 3)[k] != 0)]
    if keep:
        sel = ints.reshape(-1, 3)[keep]
        a = Miller(**{fmt: sel, "phase": ph})
        b = Miller(**{fmt: sel[::-1].copy(), "phase": ph})
        A = np.asarray(Miller(**{fmt: sel.astype(float), "phase": ph}).data, float)
        angle_check(a, b, A, A[::-1], mats, "int-dtype:angle", rep, g.name)


def audit_shapes(g, r, i):
    """empty objects, size-1 axes, four axes"""
    mats = group_mats(g)
    lat = lattice_for(g, r)
    ph = Phase(point_group=g, structure=Structure(lattice=lat))
    shape = [(0,), (2, 0), (1, 1), (2, 1, 1, 2), (1, 1, 1), (0, 3), (1, 2, 1, 2), (1,)][i % 8]
    n = int(np.prod(shape))
    arr = np.array(rand_rows(g, r, n), float).reshape(tuple(shape) + (3,))
    m = Miller(xyz=arr, phase=ph)
    m.coordinate_format = FORMATS5[i % 3]
    rep = rep_of(g.name, arr, lat)
    kind = "empty" if n == 0 else "axes"
    st(f"audit/shape/{kind}")
    orbit_check(m, arr, mats, f"shape-{kind}:symmetrise", rep, g.name)
    unique_check(m, arr, mats, f"shape-{kind}", rep, g.name, g.system not in INEXACT)
    B = np.array(rand_rows(g, r, 1), float)
    angle_check(m, like(m, B), arr, B, mats, f"shape-{kind}:angle", dict(rep, other=B.tolist()), g.name)


HISTORY = ["transpose", "reshape", "getitem-reverse", "getitem-mask", "neg", "unit", "flatten", "squeeze",
           "symmetrise-twice", "phase-replaced", "point-group-set", "format-changed"]


def audit_history(g, r, i):
    """the object is DERIVED (views / non-contiguous data / copies) or its phase / format is changed after a first
    symmetrise call; then symmetrise, multiplicity, unique are judged on what the object holds now"""
    step = HISTORY[i % len(HISTORY)]
    lat = lattice_for(g, r)
    ph = Phase(point_group=g, structure=Structure(lattice=lat))
    shape = [(2, 3), (2, 2, 2), (3, 1, 2), (1, 4)][(i // len(HISTORY)) % 4]
    n = int(np.prod(shape))
    rows = [gen_vector(g, r, "general") for _ in range(n)]
    # a third of the positions (at random) hold the special direction with the smallest orbit, so that the
    # multiplicities differ between positions and any mis-ordering of the derived object's vectors shows
    m_g = group_mats(g)
    sp = min(special_dirs(g), key=lambda d: len(cluster_first(list(m_g @ np.array(d, float)))))
    for j in r.sample(range(n), max(1, n // 3)):
        rows[j] = [r.choice([1.0, 2.0, -0.5]) * x for x in sp]
    arr = np.array(rows, float).reshape(tuple(shape) + (3,))
    m0 = Miller(xyz=arr.copy(), phase=ph)
    m0.coordinate_format = FORMATS5[i % 3]
    m0.symmetrise(unique=True)            # a first call (anything cached by it must not leak into the second)
    _ = m0.multiplicity
    g2 = g
    nd = len(shape)
    if step == "transpose":
        axes = tuple(range(nd))[::-1] if nd == 2 else ((2, 0, 1) if i % 2 else (1, 2, 0))
        m, want = (m0.transpose() if nd == 2 else m0.transpose(*axes)), arr.transpose(*axes, nd)
    elif step == "reshape":
        new = (n,) if i % 2 else ((n // 2, 2) if n % 2 == 0 else (1, n))
        m, want = m0.reshape(*new), arr.reshape(tuple(new) + (3,))
    elif step == "getitem-reverse":
        key = (slice(None, None, -1),) + (slice(None),) * (nd - 2) + (slice(1, None),)
        m, want = m0[key], arr[key]
    elif step == "getitem-mask":
        mask = np.array([r.random() < 0.6 for _ in range(n)]).reshape(shape)
        mask[tuple(0 for _ in shape)] = True
        m, want = m0[mask], arr[mask]
    elif step == "neg":
        m, want = -m0, -arr
    elif step == "unit":
        m, want = m0.unit, arr / np.linalg.norm(arr, axis=-1, keepdims=True)
    elif step == "flatten":
        m, want = m0.flatten(), nav_flatten(arr)
    elif step == "squeeze":
        m, want = m0.squeeze(), np.atleast_2d(arr.squeeze())
    elif step == "symmetrise-twice":
        m = m0.symmetrise(unique=True)
        want = np.asarray(m.data, float).copy()       # (the first result itself is judged by the main loop)
    elif step == "phase-replaced":
        g2 = GROUPS[(GROUPS.index(g) + 7 + i) % len(GROUPS)]
        m, want = m0, arr
        m.phase = Phase(point_group=g2, structure=Structure(lattice=lattice_for(g2, r)))
    elif step == "point-group-set":
        g2 = GROUPS[(GROUPS.index(g) + 11 + i) % len(GROUPS)]
        m, want = m0, arr
        ph.point_group = g2
    else:
        m, want = m0, arr
        m.coordinate_format = FORMATS5[(i + 1) % 3]
    mats = group_mats(g2)
    rep = rep_of(g.name, arr, lat, step=step, group_after=g2.name)
    st(f"audit/history/{step}")
    if not (isinstance(m, Miller) and m.coordinate_format in FORMATS5 and m.phase is not None
            and m.phase.point_group is not None and m.phase.point_group.name == g2.name):
        fail(f"history:{step}:meta", f"object after '{step}' is not a Miller with the phase's point group {g2.name}", rep)
        return
    orbit_check(m, want, mats, f"history:{step}:symmetrise", rep, g2.name)
    unique_check(m, want, mats, f"history:{step}", rep, g2.name, g2.system not in INEXACT)


def same_phase(p, q):
    return p is q or (p is not None and q is not None and p.point_group is not None and q.point_group is not None
                      and p.point_group.name == q.point_group.name
                      and np.allclose(p.structure.lattice.abcABG(), q.structure.lattice.abcABG()))


def audit_meta(g, r, i):
    """'derived objects keep the phase and coordinate format' for every public method/operator that returns a Miller,
    with each of the five coordinate formats"""
    lat = lattice_for(g, r)
    ph = Phase(point_group=g, structure=Structure(lattice=lat))
    fmt = FORMATS5[i % 5]
    arr = np.array(rand_rows(g, r, 4), float).reshape(2, 2, 3)
    m = Miller(xyz=arr, phase=ph)
    m.coordinate_format = fmt
    other = Miller(xyz=np.array(rand_rows(g, r, 4), float).reshape(2, 2, 3), phase=ph)
    other.coordinate_format = fmt
    cross_fmt = dict(hkl="uvw", uvw="hkl", hkil="UVTW", UVTW="hkil", xyz="xyz")[fmt]
    derived = [
        ("unit", lambda: m.unit, fmt), ("neg", lambda: -m, fmt), ("getitem", lambda: m[0], fmt),
        ("getitem-mask", lambda: m[np.array([[True, False], [True, True]])], fmt),
        ("deepcopy", lambda: m.deepcopy(), fmt), ("flatten", lambda: m.flatten(), fmt),
        ("transpose", lambda: m.transpose(), fmt), ("reshape", lambda: m.reshape(4), fmt),
        ("squeeze", lambda: m.reshape(1, 4).squeeze(), fmt), ("mean", lambda: m.mean(), fmt),
        ("in_fundamental_sector", lambda: m.in_fundamental_sector(), fmt), ("cross", lambda: m.cross(other), cross_fmt),
        ("unique", lambda: m.unique(), fmt), ("unique-index", lambda: m.unique(return_index=True)[0], fmt),
        ("unique-sym", lambda: m.unique(use_symmetry=True), fmt),
        ("unique-sym-index", lambda: m.unique(use_symmetry=True, return_index=True)[0], fmt),
        ("symmetrise", lambda: m.symmetrise(), fmt), ("symmetrise-unique", lambda: m.symmetrise(unique=True), fmt),
        ("symmetrise-mult", lambda: m.symmetrise(unique=True, return_multiplicity=True)[0], fmt),
        ("symmetrise-index", lambda: m.symmetrise(unique=True, return_index=True)[0], fmt),
        ("rotation-mul", lambda: g[g.size - 1] * m, fmt), ("rotation-outer", lambda: g.outer(m), fmt),
    ]
    if i % 4 == 0:      # (dask start-up makes this one slow: every fourth case; 4 and the 5 formats are coprime)
        derived.append(("rotation-outer-lazy", lambda: g.outer(m, lazy=True, progressbar=False), fmt))
    rep = rep_of(g.name, arr, lat, fmt=fmt)
    st(f"audit/meta/{fmt}")
    for name, f, want_fmt in derived:
        try:
            o = f()
        except Exception as e:  # noqa
            fail(f"meta:{name}:raises", f"{name} raises {type(e).__name__}: {e} (group {g.name}, format {fmt})", rep)
            continue
        if not (isinstance(o, Miller) and same_phase(o.phase, ph) and o.coordinate_format == want_fmt):
            fail(f"meta:{name}", f"{name} of a Miller with format {fmt} returns {type(o).__name__} with format "
                                 f"{getattr(o, 'coordinate_format', None)} / phase kept: "
                                 f"{same_phase(getattr(o, 'phase', None), ph)} (expected format {want_fmt}; group {g.name})", rep)
    if m.coordinate_format != fmt or m.phase is not ph or not np.array_equal(m.data, arr):
        fail("meta:input-changed", "a derived-object method changed its input's data, phase or coordinate format", rep)


ANGLE_FMT_PAIRS = [("uvw", "UVTW"), ("xyz", "uvw"), ("UVTW", "xyz"), ("hkl", "hkil"), ("uvw", "xyz"), ("hkil", "hkl"),
                   ("xyz", "UVTW"), ("UVTW", "uvw")]
ANGLE_SHAPE_PAIRS = [((3,), (1,)), ((2,), (2,)), ((2, 2), (2,)), ((1,), (3,)), ((2, 1), (1, 2))]


def audit_angle_variants(g, r, i):
    """angle_with(use_symmetry=True): degrees=True, and the two operands with DIFFERENT coordinate formats of the same
    space and (every second case) an equal but not identical Phase object"""
    import copy
    mats = group_mats(g)
    lat = lattice_for(g, r)
    ph = Phase(point_group=g, structure=Structure(lattice=lat))
    fa, fb = ANGLE_FMT_PAIRS[i % len(ANGLE_FMT_PAIRS)]
    sa, sb = ANGLE_SHAPE_PAIRS[(i // 2) % len(ANGLE_SHAPE_PAIRS)]
    degrees = (i // len(ANGLE_FMT_PAIRS)) % 2 == 0
    A = np.array(rand_rows(g, r, int(np.prod(sa))), float).reshape(tuple(sa) + (3,))
    B = np.array(rand_rows(g, r, int(np.prod(sb))), float).reshape(tuple(sb) + (3,))
    a = Miller(xyz=A, phase=ph)
    a.coordinate_format = fa
    b = Miller(xyz=B, phase=copy.deepcopy(ph) if i % 2 else ph)
    b.coordinate_format = fb
    rep = {"group": g.name, "self": A.reshape(-1, 3).tolist(), "other": B.reshape(-1, 3).tolist(), "self_shape": list(sa),
           "other_shape": list(sb), "self_fmt": fa, "other_fmt": fb, "degrees": degrees, "other_phase_is_copy": bool(i % 2),
           "lattice": list(lat.abcABG())}
    st(f"audit/angle/{'degrees' if degrees else 'radians'}")
    st(f"audit/angle/fmt/{fa}-{fb}")
    angle_check(a, b, A, B, mats, "angle:degrees" if degrees else "angle:formats", rep, g.name, degrees=degrees)


ROUND_SHAPES = [(2, 2), (1, 3), (2, 1, 2), (3, 1), (1, 1), (2, 3)]
ROUND_FMTS = ["uvw", "hkl", "UVTW", "hkil"]


def audit_round(g, r, i):
    """round(): index arrays with two or more axes, the default max_index (20; _round_indices alone defaults to 12),
    negative scale factors, integer-typed indices"""
    lat = lattice_for(g, r)
    ph = Phase(point_group=g, structure=Structure(lattice=lat))
    fmt = ROUND_FMTS[i % 4]
    mode = ["nd", "default-max-index", "negative-scale", "int-dtype"][(i // 4) % 4]
    shape = ROUND_SHAPES[i % len(ROUND_SHAPES)] if mode != "default-max-index" else [(2,), (1, 2)][i % 2]
    n = int(np.prod(shape))
    prim, idxs = [], []
    for _ in range(n):
        while True:
            t = [r.randint(-9, 9) for _ in range(3)]
            if mode == "default-max-index":
                t[r.randrange(3)] = r.choice([13, 17, 19, 20, -14, -20, 16, -18])
            gg = gcd3(t) if any(t) else 0
            if gg and (mode != "default-max-index" or max(abs(x) // gg for x in t) > 12):
                break          # default-max-index: the coprime indices need a multiplier in 13..20
        p = [x // gg for x in t]
        if mode == "negative-scale":
            s = r.choice([-1.0, -2.0, -0.5, -1.5, -r.uniform(0.1, 7)])
        elif mode == "int-dtype":
            s = r.choice([1, 2, 3, -2])
        else:
            s = r.choice([1.0, 2.0, 3.0, 0.5, 1.5, r.uniform(0.1, 7)])
        sgn = -1 if s < 0 else 1
        if fmt in ("UVTW", "hkil"):
            p = [p[0], p[1], -(p[0] + p[1]), p[2]]
        prim.append([sgn * x for x in p])
        idxs.append([s * x for x in p])
    k = len(prim[0])
    ia = np.array(idxs, dtype=int if mode == "int-dtype" else float).reshape(tuple(shape) + (k,))
    want = np.array(prim, float).reshape(tuple(shape) + (k,))
    m = Miller(**{fmt: ia, "phase": ph})
    rep = {"group": g.name, "fmt": fmt, "indices": ia.reshape(-1, k).tolist(), "shape": list(shape), "mode": mode,
           "lattice": list(lat.abcABG()), "expected": want.reshape(-1, k).tolist()}
    st(f"audit/round/{mode}")
    try:
        out = m.round() if mode == "default-max-index" else m.round(max_index=[12, 20, 30][i % 3])
    except Exception as e:  # noqa
        fail(f"round:{mode}:raises", f"round raises {type(e).__name__}: {e}", rep)
        return
    got = np.asarray(out.coordinates)
    if not (isinstance(out, Miller) and out.phase is m.phase and out.coordinate_format == fmt):
        fail(f"round:{mode}:meta", "round() does not keep phase / coordinate format", rep)
    if got.shape != want.shape or np.max(np.abs(got - want)) > 1e-6:
        fail(f"round:{mode}", f"round() [{mode}] of {fmt} indices {ia.tolist()} = {got.tolist()}, expected the parallel coprime "
                              f"indices {want.tolist()} in the same array shape", rep)


def audit_neardup(g, r, i):
    """near-duplicates: two vectors 3e-12 apart (far from a rounding boundary of the 10th decimal) are ONE vector
    for unique()/unique(use_symmetry); two vectors 3e-6 .. 1e-4 apart are two vectors with two orbits and are kept
    apart by symmetrise(unique=True), unique() and unique(use_symmetry=True)"""
    mats = group_mats(g)
    G = len(mats)
    lat = lattice_for(g, r)
    ph = Phase(point_group=g, structure=Structure(lattice=lat))
    on_axis = i % 3 == 2
    for _ in range(200):
        if on_axis:
            d = r.choice(special_dirs(g))
            v = np.array(d, float) * round(r.uniform(0.6, 2.5), 3)
        else:
            v = np.array([round(r.uniform(-2, 2), 3) for _ in range(3)])
        if np.max(np.abs(v)) < 0.3:
            continue
        if on_axis or len(cluster_first(list(mats @ v), tol=1e-3)) == G:
            break
    merged = i % 2 == 0 and not on_axis
    if merged:
        delta = 3e-12
        w = v.copy()
        w[r.randrange(3)] += delta
    else:
        delta = [3e-6, 1e-4, 1e-5][(i // 2) % 3]
        w = v * (1 + delta / np.max(np.abs(v))) if on_axis else v + delta * np.eye(3)[r.randrange(3)]
    order = [v, w] if (i // 2) % 2 == 0 else [w, v]
    extra = np.array(rand_rows(g, r, 1), float)[0]
    arr = np.array(order + [extra], float)
    m = Miller(xyz=arr, phase=ph)
    rep = rep_of(g.name, arr, lat, delta=delta, kind="merged" if merged else "distinct", on_axis=on_axis)
    st(f"audit/neardup/{'merged' if merged else 'distinct'}")
    if ambiguous(mats, arr):
        st("audit/skipped-threshold")
        return
    pair = Miller(xyz=np.array(order, float), phase=ph)
    n_plain = pair.unique().size
    n_sym = pair.unique(use_symmetry=True).size
    want = 1 if merged else 2
    exact = g.system not in INEXACT
    if n_plain != want:
        fail(f"neardup:{'merged' if merged else 'distinct'}:unique", f"unique() of two vectors {delta:g} apart returns {n_plain} "
             f"vector(s), expected {want} (group {g.name})", rep)
    if n_sym != want:
        fail(f"neardup:{'merged' if merged else 'distinct'}:unique-sym", f"unique(use_symmetry=True) of two vectors {delta:g} "
             f"apart returns {n_sym} vector(s), expected {want} (group {g.name})", rep)
    if not merged:
        # well-separated near-duplicates: each has its own block of distinct images
        su, mult, idx = pair.symmetrise(unique=True, return_multiplicity=True, return_index=True)
        wm = [len(cluster_first(list(mats @ x))) for x in order]
        if [int(x) for x in mult] != wm or su.size != sum(wm) or [int(x) for x in idx] != [0] * wm[0] + [1] * wm[1]:
            fail("neardup:distinct:symmetrise", f"symmetrise(unique=True) of two vectors {delta:g} apart: multiplicities "
                 f"{np.asarray(mult).tolist()}, expected {wm} (group {g.name})", rep)
        # the orbit of the pair's second vector must not be lost among three vectors either
        unique_check(m, arr, mats, "neardup:distinct", rep, g.name, exact)


AUDITS = [audit_int_dtype, audit_shapes, audit_history, audit_meta, audit_angle_variants, audit_round, audit_neardup]
if not FIXED_ONLY:
    reps = max(1, N // 380)
    k_sg = k_un = 0
    for rnd in range(reps):
        for gi, g in enumerate(GROUPS):
            i = rnd * len(GROUPS) + gi
            # every audit for every group; the index i cycles each audit's own parameter combinations, offset per
            # audit so that the combinations are not tied to particular groups in the same way
            for ai, f in enumerate(AUDITS):
                f(g, R, i + ai * 5 + rnd)
            audit_history(g, R, i + 17 + rnd)          # a second, different history step for the same group
            audit_space_group(R, k_sg)
            k_sg += 1
            audit_unnamed_group(R, k_un)
            k_un += 1

emit({"cases": cases, "fails": fails, "strata": strata, "witness": witness})
