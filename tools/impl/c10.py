"""C10 implementation harness: Miller.symmetrise / multiplicity /
angle_with(use_symmetry) / unique(use_symmetry) / round and metadata
propagation on /repo's working tree, for all 38 point groups.

Emits  cases  (input + observed output; compared with the Coq model inside
Coq), fails (property oracle: brute-force reference with the group's matrices
and a tolerance clustering that does not depend on decimal rounding) and
strata."""
import math
from functools import reduce

import numpy as np
from common import emit, payload, rng

from diffpy.structure import Lattice, Structure
from orix.crystal_map import Phase
from orix.quaternion import symmetry as osym
from orix.vector import Miller, Vector3d

P = payload()
R = rng(P.get("seed", 0))
N = P.get("n", 300)          # budget: number of vector sets over all groups
FIXED_ONLY = P.get("fixed_only", False)

cases, fails, strata = [], [], {}
witness = {}
TOL = 1e-7


def st(k):
    strata[k] = strata.get(k, 0) + 1


def fail(sig, what, rep):
    fails.append({"sig": sig, "what": what, "replay": rep})


GROUPS = list(osym._groups)
EXACT_SYSTEMS = ("cubic", "tetragonal", "orthorhombic", "monoclinic", "triclinic")


def lattice_for(g, r):
    s = g.system
    a, b, c = (round(r.uniform(2, 9), 3) for _ in range(3))
    if s == "cubic":
        return Lattice(a, a, a, 90, 90, 90)
    if s in ("hexagonal", "trigonal"):
        return Lattice(a, a, c, 90, 90, 120)
    if s == "tetragonal":
        return Lattice(a, a, c, 90, 90, 90)
    if s == "orthorhombic":
        return Lattice(a, b, c, 90, 90, 90)
    if s == "monoclinic":
        return Lattice(a, b, c, 90, round(r.uniform(95, 120), 2), 90)
    return Lattice(a, b, c, round(r.uniform(70, 110), 2), round(r.uniform(70, 110), 2), round(r.uniform(70, 110), 2))


def group_mats(g):
    """operations as signed 3x3 matrices acting on column vectors"""
    m = g.to_matrix()
    sg = np.where(g.improper, -1.0, 1.0)
    return m * sg[:, None, None]


def ops_json(g):
    return {"q": g.data.reshape(-1, 4).tolist(), "imp": g.improper.reshape(-1).astype(int).tolist()}


# ------------------------------------------------------------- vector strata
SQ3 = math.sqrt(3.0)


def special_dirs(g):
    out = [[0, 0, 1], [1, 0, 0], [0, 1, 0], [1, 1, 0], [1, 1, 1], [1, -1, 0], [0, 1, 1], [1, 0, 1]]
    if g.system in ("hexagonal", "trigonal"):
        out += [[SQ3 / 2, 0.5, 0], [0.5, SQ3 / 2, 0], [-0.5, SQ3 / 2, 0], [SQ3 / 2, -0.5, 0]]
    return out


def gen_vector(g, r, kind):
    if kind == "general":
        return [r.gauss(0, 1) * r.choice([0.3, 1, 5]) for _ in range(3)]
    if kind == "axis":
        d = r.choice(special_dirs(g))
        s = r.choice([1.0, 2.0, 0.5, -1.0, r.uniform(0.2, 4)])
        return [s * x for x in d]
    if kind == "mirror":
        a, b = r.uniform(-3, 3), r.uniform(-3, 3)
        k = r.randrange(6)
        if k == 0:
            return [a, 0.0, b]
        if k == 1:
            return [0.0, a, b]
        if k == 2:
            return [a, b, 0.0]
        if k == 3:
            return [a, a, b]
        if k == 4:
            return [a, -a, b]
        return [a * SQ3 / 2, a * 0.5, b]
    if kind == "lattice":
        return None  # handled by caller (integer indices)
    raise ValueError(kind)


def threshold_vectors(g, r):
    """vectors on special positions whose images have a coordinate within an
    ulp of a half-unit of the 10th decimal"""
    k = r.randrange(10 ** 9, 10 ** 10)
    x = 2 * (k + 0.5) * 1e-10
    c = [[x, 0, 0.3], [0, x, 0.3], [x, 0, 0], [0, x, 0], [x * 0.5, x * SQ3 / 2, 0.1], [x * SQ3 / 2, x * 0.5, 0.2],
         [x * SQ3 / 2, x * 0.5, 0], [x, x, 0.25], [x, x, x]]
    return [r.choice(c) for _ in range(r.choice([1, 2, 3]))]


SHAPES1 = [(1,), (2,), (3,), (4,), (5,)]
SHAPESN = [(2, 2), (2, 3), (3, 2), (1, 3), (3, 1), (2, 1, 2), (2, 2, 2), (1, 2, 3)]


def build_set(g, r, stratum):
    """-> (shape, xyz rows C order, labels per vector)"""
    shape = r.choice(SHAPES1) if r.random() < 0.6 else r.choice(SHAPESN)
    n = int(np.prod(shape))
    rows, labs = [], []
    if stratum == "threshold":
        tv = threshold_vectors(g, r)
        shape = (len(tv),)
        return shape, tv, ["threshold"] * len(tv)
    for _ in range(n):
        if stratum in ("mixed", "parallel", "equivalent"):
            kind = r.choice(["general", "axis", "mirror"])
        else:
            kind = stratum
        rows.append(gen_vector(g, r, kind))
        labs.append(kind)
    if stratum == "equivalent" and n >= 2:
        # symmetry-equivalent copies, computed by the implementation's own rotation
        for _ in range(max(1, n // 2)):
            i, j = r.sample(range(n), 2)
            k = r.randrange(g.size)
            rows[j] = (g[k] * Vector3d(rows[i])).data.reshape(3).tolist()
            labs[j] = labs[i]
    if stratum == "parallel" or (stratum == "mixed" and n >= 2 and r.random() < 0.5):
        # parallel pairs / exact duplicates / antiparallel
        i, j = r.sample(range(n), 2) if n >= 2 else (0, 0)
        f = r.choice([1.0, 2.0, -1.0, 0.5])
        rows[j] = [f * x for x in rows[i]]
        labs[j] = labs[i]
    return shape, rows, labs


# ------------------------------------------------------------------ reference
def cluster_first(imgs, tol=TOL):
    """first-appearance list of tolerance-distinct images"""
    out = []
    for w in imgs:
        if not any(np.max(np.abs(w - u)) <= tol for u in out):
            out.append(w)
    return out


def equivalent(mats, a, b, tol=TOL):
    return bool(np.any(np.max(np.abs(mats @ a - b), axis=-1) <= tol * max(1.0, np.max(np.abs(b)))))


def ambiguous(mats, fl):
    """does some image coordinate lie within float noise of a half-unit of the
    10th decimal (np.round(., 10) of two float evaluations of the same image
    may then differ)?"""
    for v in fl:
        img = (mats @ v).reshape(-1)
        t = np.abs(img) * 1e10
        fr = t - np.floor(t)
        if np.any(np.abs(fr - 0.5) <= 2e-4 * np.maximum(1.0, np.abs(img))):
            return True
    return False


def ang(a, b):
    c = float(np.dot(a, b) / (np.linalg.norm(a) * np.linalg.norm(b)))
    return math.acos(max(-1.0, min(1.0, c)))


def check_symmetrise(g, mats, m, shape, rows, labs, stratum, lat):
    gname = g.name
    rep = {"group": gname, "shape": list(shape), "xyz": rows, "lattice": list(lat.abcABG()), "stratum": stratum}
    flat = m.flatten()
    fl = flat.data.reshape(-1, 3)
    n = fl.shape[0]
    G = mats.shape[0]
    # ---- observed
    v2 = g.outer(flat)
    sa = m.symmetrise()
    su, mult, idx = m.symmetrise(unique=True, return_multiplicity=True, return_index=True)
    mprop = m.multiplicity
    cases.append({"k": "sym", "group": gname, "ops": ops_json(g), "shape": list(shape), "data": rows,
                  "flat": fl.tolist(), "v2": v2.data.reshape(G, n, 3).tolist(),
                  "all": sa.data.reshape(-1, 3).tolist(), "uniq": su.data.reshape(-1, 3).tolist(),
                  "mult": [int(x) for x in mult], "idx": [int(x) for x in idx],
                  "mprop": [int(x) for x in np.asarray(mprop).reshape(-1)], "stratum": stratum})
    # ---- oracle
    zero = [bool(np.all(np.abs(v) <= 1e-8)) for v in fl]
    # all images, per vector in (flattened) input order
    ok_all = sa.shape == (G * n,)
    if ok_all:
        for j in range(n):
            ref = mats @ fl[j]
            if np.max(np.abs(sa.data[j * G:(j + 1) * G] - ref)) > 1e-9 * max(1, np.max(np.abs(fl[j]))):
                ok_all = False
    if not ok_all:
        fail("symmetrise:all", f"symmetrise() is not [g.v for g in G] per vector in input order (group {gname})", rep)
    # flattened input = some enumeration of the input vectors (documented: flattened)
    # unique images
    off = 0
    bad_u, bad_div, bad_idx = None, None, None
    refm = []
    for j in range(n):
        ref = [] if zero[j] else cluster_first(list(mats @ fl[j]))
        refm.append(len(ref))
    thr = ambiguous(mats, fl)
    cases[-1]["amb"] = thr
    for j in range(n):
        l = int(mult[j])
        if l != refm[j]:
            bad_u = (j, l, refm[j])
            break
        blk = su.data[off:off + l]
        ref = cluster_first(list(mats @ fl[j]))
        if len(blk) != l or any(np.max(np.abs(b - r_)) > 2e-10 for b, r_ in zip(blk, ref)):
            bad_u = (j, "block", None)
            break
        if list(idx[off:off + l]) != [j] * l:
            bad_idx = j
            break
        off += l
    for j in range(n):
        if int(mult[j]) != 0 and G % int(mult[j]) != 0:
            bad_div = (j, int(mult[j]))
    tag = "threshold" if thr else ("zero" if any(zero) else "regular")
    if bad_u is not None:
        j = bad_u[0]
        fail(f"symmetrise:unique:{tag}",
             f"symmetrise(unique=True): vector {fl[j].tolist()} in group {gname} (order {G}) gets multiplicity/"
             f"block {bad_u[1]} but has {refm[j]} distinct images", rep)
    elif bad_idx is not None:
        fail(f"symmetrise:index:{tag}", f"symmetrise(return_index=True): idx is not input index repeated multiplicity times (group {gname})", rep)
    elif su.size != sum(refm) or len(idx) != sum(refm):
        fail(f"symmetrise:length:{tag}", "symmetrise(unique=True) sizes inconsistent", rep)
    if bad_div is not None:
        fail(f"symmetrise:divides:{tag}",
             f"multiplicity {bad_div[1]} of vector {fl[bad_div[0]].tolist()} does not divide the order {G} of {gname}", rep)
    # multiplicity property: element-wise on the object's own shape
    mp = np.asarray(mprop)
    if mp.shape != tuple(shape):
        fail("multiplicity:shape", f"multiplicity.shape {mp.shape} != shape {shape}", rep)
    elif not thr:
        arr = np.asarray(rows, float).reshape(tuple(shape) + (3,))
        for ix in np.ndindex(*shape):
            v = arr[ix]
            want = 0 if np.all(np.abs(v) <= 1e-8) else len(cluster_first(list(mats @ v)))
            if int(mp[ix]) != want:
                nd = "1d" if len(shape) == 1 else "nd"
                fail(f"multiplicity:elementwise:{nd}",
                     f"multiplicity{list(ix)} = {int(mp[ix])} but vector {v.tolist()} has {want} distinct images "
                     f"(group {gname}, shape {shape})", rep)
                break
    # metadata
    for name, o in (("symmetrise", sa), ("symmetrise_unique", su)):
        if not (isinstance(o, Miller) and o.phase is m.phase and o.coordinate_format == m.coordinate_format):
            fail(f"meta:{name}", f"{name} does not keep phase / coordinate format", rep)


ANGLE_ND = [((2, 3), (3,)), ((3,), (2, 3)), ((2, 1), (3,)), ((2, 1), (1, 3)), ((2, 2), (2, 2)), ((2, 3), (1,)),
            ((1,), (2, 2)), ((2, 1, 2), (3, 1))]
ANGLE_BAD = [((3,), (2,)), ((2,), (4,)), ((2, 3), (2,)), ((3, 2), (2, 3))]


def check_angle(g, mats, r, lat, ph):
    gname = g.name
    kind = r.choice(["single", "single", "same", "same", "self1", "nd", "nd", "incompatible"])
    fmt = r.choice(["uvw", "hkl", "xyz"])
    n = r.choice([1, 2, 3, 4])

    def mk(shape):
        k = int(np.prod(shape))
        rows = [gen_vector(g, r, r.choice(["general", "axis", "mirror"])) for _ in range(k)]
        mm = Miller(xyz=np.array(rows, float).reshape(tuple(shape) + (3,)), phase=ph)
        mm.coordinate_format = fmt
        return mm, rows
    if kind == "single":
        sa, sb = (n,), (1,)
    elif kind == "same":
        sa = sb = (max(n, 2),)
    elif kind == "self1":
        sa, sb = (1,), (max(n, 2),)
    elif kind == "nd":
        sa, sb = r.choice(ANGLE_ND)
    else:
        sa, sb = r.choice(ANGLE_BAD)
    a, ar = mk(sa)
    b, br = mk(sb)
    if kind in ("single", "same", "self1") and r.random() < 0.35:
        # parallel / antiparallel pairs: the other vector is a scaled symmetry image of a self vector, so one
        # cosine is +-1 up to rounding (arccos of 1 + 1 ulp is nan)
        src = np.asarray(ar, float).reshape(-1, 3)
        k = int(np.prod(sb))
        br = [(r.choice([1.0, 2.0, -1.0, 0.5, -3.0]) * (mats[r.randrange(len(mats))] @ src[i % len(src)])).tolist()
              for i in range(k)]
        b = Miller(xyz=np.array(br, float).reshape(tuple(sb) + (3,)), phase=ph)
        b.coordinate_format = fmt
        st("angle/parallel-pair")
    rep = {"group": gname, "self": ar, "other": br, "self_shape": list(sa), "other_shape": list(sb), "fmt": fmt,
           "kind": kind}
    case = {"k": "ang", "group": gname, "ops": ops_json(g), "sshape": list(sa), "oshape": list(sb),
            "self": a.data.reshape(-1, 3).tolist(), "other": b.data.reshape(-1, 3).tolist()}
    st(f"angle/{kind}")
    try:
        got = a.angle_with(b, use_symmetry=True)
    except Exception as e:  # noqa
        if kind == "incompatible" and isinstance(e, ValueError):
            # as without symmetry: shapes that cannot be broadcast are rejected
            case.update({"raised": True, "rshape": [], "out": []})
            cases.append(case)
        else:
            fail(f"angle:raises:{kind}", f"angle_with(use_symmetry=True) raises {type(e).__name__}", rep)
        return
    got = np.asarray(got)
    case.update({"raised": False, "rshape": list(got.shape), "out": got.reshape(-1).tolist()})
    cases.append(case)
    if kind == "incompatible":
        fail("angle:incompatible-shapes", f"angle_with(use_symmetry=True) of shapes {sa} and {sb}, which cannot be "
                                          f"broadcast, returns an array of shape {got.shape} (group {gname})", rep)
        return
    A = np.asarray(ar, float).reshape(tuple(sa) + (3,))
    B = np.asarray(br, float).reshape(tuple(sb) + (3,))
    bs = np.broadcast_shapes(A.shape[:-1], B.shape[:-1])
    Ab = np.broadcast_to(A, bs + (3,))
    Bb = np.broadcast_to(B, bs + (3,))
    ref = np.zeros(bs)
    for ix in np.ndindex(*bs):
        ref[ix] = min(ang(Ab[ix], w) for w in mats @ Bb[ix])
    if got.shape == ref.shape and not np.all(np.isfinite(got)):
        fail("angle:not-finite", f"angle_with(use_symmetry=True) = {got.tolist()} is not finite; the minimum over the other "
                                 f"vector's orbit is {ref.tolist()} (group {gname})", rep)
    elif got.shape != ref.shape or np.max(np.abs(got - ref)) > 5e-6:
        sig = {"single": "angle:single", "same": "angle:elementwise", "self1": "angle:elementwise",
               "nd": "angle:broadcast"}[kind]
        fail(sig, f"angle_with(use_symmetry=True) = {got.tolist()} but the minimum over the other vector's orbit "
                  f"is {ref.tolist()} (group {gname}, self {A.shape[:-1]}, other {B.shape[:-1]})", rep)
    # without symmetry the same shape comes out
    plain = np.asarray(a.angle_with(b))
    if plain.shape != got.shape:
        fail("angle:shape", f"angle_with(use_symmetry=True).shape {got.shape} != angle_with().shape {plain.shape}", rep)


def check_unique(g, mats, m, shape, rows, stratum, lat):
    gname = g.name
    rep = {"group": gname, "shape": list(shape), "xyz": rows, "stratum": stratum}
    try:
        u = m.unique(use_symmetry=True)
    except Exception as e:  # noqa
        fail("unique:raises", f"unique(use_symmetry=True) raises {type(e).__name__}: {e}", rep)
        return
    ud = u.data.reshape(-1, 3)
    fl = m.flatten().data.reshape(-1, 3)
    amb = ambiguous(mats, fl)
    # the steps of Miller.unique, for the correspondence: base-class unique,
    # outer product of the kept (rounded) vectors with the group
    vb = Vector3d(m.data).unique()
    nb = vb.size
    orb = g.outer(vb).flatten().reshape(nb, g.size).data if nb else np.zeros((0, g.size, 3))
    cases.append({"k": "uniq", "group": gname, "ops": ops_json(g), "flat": fl.tolist(),
                  "base": vb.data.reshape(-1, 3).tolist(), "orbits": np.asarray(orb).reshape(nb, g.size, 3).tolist(),
                  "out": ud.tolist()})
    tag = "threshold" if amb else "regular"
    exact_ops = "exact-ops" if g.system not in ("trigonal", "hexagonal") else "inexact-ops"
    for a in range(len(ud)):
        for b in range(a + 1, len(ud)):
            if equivalent(mats, ud[a], ud[b]):
                # explained by the double rounding only if the two rounded orbit keys (as the library computed
                # them: rows of orb) differ; with equal keys the documented procedure merges the two vectors
                vbd = vb.data.reshape(-1, 3)
                ia = next((i for i in range(nb) if np.array_equal(vbd[i], ud[a])), None)
                ib = next((i for i in range(nb) if np.array_equal(vbd[i], ud[b])), None)
                if ia is not None and ib is not None:
                    ka = np.round(np.asarray(orb[ia]), 10) + 0.0
                    kb = np.round(np.asarray(orb[ib]), 10) + 0.0
                    dd = np.max(np.abs(ka[:, None, :] - kb[None, :, :]), axis=2)      # the two rounded orbits as SETS
                    if max(np.max(np.min(dd, axis=1)), np.max(np.min(dd, axis=0))) == 0:
                        exact_ops += ":equal-keys"
                fail(f"unique:orbits:two-from-one-orbit:{exact_ops}",
                     f"unique(use_symmetry=True) returns {ud[a].tolist()} and {ud[b].tolist()} which are "
                     f"equivalent under {gname}", rep)
                break
        else:
            continue
        break
    for v in fl:
        if np.all(np.abs(v) <= 1e-8):
            continue
        if not any(equivalent(mats, w, v) for w in ud):
            fail(f"unique:orbits:orbit-lost:{tag}", f"unique(use_symmetry=True): no returned vector is equivalent to input {v.tolist()} ({gname})", rep)
            break
    for w in ud:
        if not any(np.max(np.abs(w - v)) <= 1e-9 for v in fl):
            fail(f"unique:orbits:not-from-input:{tag}", f"unique(use_symmetry=True) returns {w.tolist()} which is not an input vector", rep)
            break
    if not (isinstance(u, Miller) and u.phase is m.phase and u.coordinate_format == m.coordinate_format):
        fail("meta:unique", "unique(use_symmetry=True) does not keep phase / coordinate format", rep)


def gcd3(t):
    return reduce(math.gcd, [abs(int(x)) for x in t])


def check_round(g, r, lat, ph):
    fmt = r.choice(["uvw", "hkl", "UVTW", "hkil"])
    mi = r.choice([12, 20, 20, 30, 40])
    k = r.choice([1, 2, 3])
    prim, idxs = [], []
    for _ in range(k):
        while True:
            t = [r.randint(-min(mi, 9), min(mi, 9)) for _ in range(3)]
            if any(t):
                break
        if r.random() < 0.3:
            t[r.randrange(3)] = r.choice([mi, -mi, mi - 1])
        gg = gcd3(t)
        p = [x // gg for x in t]
        s = r.choice([1.0, 2.0, 3.0, 0.5, 1.5, r.uniform(0.1, 7)])
        if fmt in ("UVTW", "hkil"):
            p4 = [p[0], p[1], -(p[0] + p[1]), p[2]]
            prim.append(p4)
            idxs.append([s * x for x in p4])
        else:
            prim.append(p)
            idxs.append([s * x for x in p])
    m = Miller(**{fmt: idxs, "phase": ph})
    rep = {"group": g.name, "fmt": fmt, "indices": idxs, "max_index": mi, "lattice": list(lat.abcABG())}
    try:
        out = m.round(max_index=mi)
    except Exception as e:  # noqa
        fail("round:raises", f"round raises {type(e).__name__}: {e}", rep)
        return
    coords = np.asarray(m.coordinates)
    from orix.vector.miller import _round_indices
    ri = _round_indices(coords, max_index=mi)
    for row, o in zip(coords.reshape(-1, coords.shape[-1]).tolist(), np.asarray(ri).reshape(-1, coords.shape[-1]).tolist()):
        cases.append({"k": "rnd", "idx": row, "max_index": mi, "out": [int(x) for x in o]})
    st(f"round/{fmt}")
    got = np.asarray(out.coordinates)
    want = np.asarray(prim, float)
    if not (isinstance(out, Miller) and out.phase is m.phase and out.coordinate_format == m.coordinate_format):
        fail("meta:round", "round() does not keep phase / coordinate format", rep)
    if got.shape != want.shape or np.max(np.abs(got - want)) > 1e-6:
        fail("round:primitive", f"round(max_index={mi}) of {idxs} ({fmt}) = {got.tolist()}, expected the parallel "
                                f"coprime indices {prim}", rep)
    # xyz format: deep copy
    mx = Miller(xyz=m.data, phase=ph)
    ox = mx.round()
    if not (np.array_equal(ox.data, mx.data) and ox.coordinate_format == "xyz" and ox is not mx):
        fail("round:xyz", "round() of an xyz-format Miller is not an unchanged copy", rep)


# ----------------------------------------------------------- fixed regressions
FIXED_THRESHOLD = [("-6", [1.6777300495, 0, 0]), ("6/m", [0, 1.3985463103, 0]),
                   ("3m", [1.4896482716760011, 0.86004883065, 0.2]), ("312", [1.5347109885194825, 0.88606580235, 0])]


def fixed():
    # (a) near-threshold images: multiplicity not the number of distinct images
    for gname, v in FIXED_THRESHOLD:
        g = osym.get_point_group  # noqa (not used; keep name lookup below)
        g = [x for x in GROUPS if x.name == gname][0]
        ph = Phase(point_group=g)
        m = Miller(xyz=[v], phase=ph)
        st("fixed/threshold")
        check_symmetrise(g, group_mats(g), m, (1,), [v], ["threshold"], "threshold", ph.structure.lattice)
    mult = {}
    for gname, v in FIXED_THRESHOLD:
        g = [x for x in GROUPS if x.name == gname][0]
        mult[gname] = int(Miller(xyz=[v], phase=Phase(point_group=g)).multiplicity[0])
    witness["threshold_mult"] = mult
    # (b) multiplicity of a 2-d object (repaired defect; Coq: C10_multiplicity_nd, C10_multiplicity_nd_nonvacuous)
    ph = Phase(point_group="m-3m")
    rows = [[1, 0, 0], [1, 1, 0], [1, 1, 1], [1, 2, 3], [0, 0, 1], [1, 1, 2]]
    m = Miller(xyz=np.array(rows, float).reshape(2, 3, 3), phase=ph)
    witness["mult_2x3"] = np.asarray(m.multiplicity).reshape(-1).tolist()
    witness["mult_each"] = [int(Miller(xyz=[v], phase=ph).multiplicity[0]) for v in rows]
    g = ph.point_group
    st("fixed/mult-nd")
    check_symmetrise(g, group_mats(g), m, (2, 3), [[float(x) for x in v] for v in rows], ["axis"] * 6, "fixed-nd",
                     ph.structure.lattice)
    # (c) angle_with(use_symmetry) with two other vectors (repaired defect; Coq: C10_angle_elementwise,
    #     C10_angle_elementwise_nonvacuous)
    a = Miller(xyz=[[1, 0, 0], [1, 1, 0]], phase=ph)
    b = Miller(xyz=[[5, 0, 1], [1, 1, 1]], phase=ph)
    got = a.angle_with(b, use_symmetry=True)
    each = [float(a[i].angle_with(b[i], use_symmetry=True)[0]) for i in range(2)]
    witness["angle_pair"] = [float(x) for x in got]
    witness["angle_each"] = each
    mats = group_mats(g)
    ref = [min(ang(np.array(x, float), w) for w in mats @ np.array(y, float))
           for x, y in zip([[1, 0, 0], [1, 1, 0]], [[5, 0, 1], [1, 1, 1]])]
    st("fixed/angle")
    if np.max(np.abs(np.asarray(got) - np.asarray(ref))) > 5e-6:
        fail("angle:elementwise", f"angle_with(use_symmetry=True) of [100],[110] with [501],[111] in m-3m = "
                                  f"{[float(x) for x in got]} but the per-pair minima over the orbit are {ref}",
             {"group": "m-3m", "self": [[1, 0, 0], [1, 1, 0]], "other": [[5, 0, 1], [1, 1, 1]]})


    # (d) unique(use_symmetry=True) keeps two equivalent vectors (inexact operations)
    g3 = [x for x in GROUPS if x.name == "3"][0]
    ph3 = Phase(point_group=g3)
    v = [0.04740454635871802, -0.4941590699323547, 2.3180960409799796]
    w = (g3[2] * Vector3d(v)).data.reshape(3).tolist()
    m3 = Miller(xyz=[v, w], phase=ph3)
    witness["unique_equiv_pair"] = int(m3.unique(use_symmetry=True).size)
    st("fixed/unique-equivalent")
    check_unique(g3, group_mats(g3), m3, (2,), [v, w], "equivalent", ph3.structure.lattice)


fixed()

# ------------------------------------------------------------------ main loop
STRATA = ["general", "axis", "mirror", "mixed", "parallel", "threshold", "lattice", "equivalent"]
if not FIXED_ONLY:
    per_group = max(1, N // len(GROUPS))
    for g in GROUPS:
        mats = group_mats(g)
        for t in range(per_group):
            lat = lattice_for(g, R)
            ph = Phase(point_group=g, structure=Structure(lattice=lat))
            stratum = STRATA[(t + GROUPS.index(g)) % len(STRATA)] if t < len(STRATA) else R.choice(STRATA)
            if stratum == "threshold" and g.system in EXACT_SYSTEMS and g.system != "monoclinic" and R.random() < 0.5:
                stratum = "mixed"
            fmt = R.choice(["xyz", "uvw", "hkl"])
            if stratum == "lattice":
                shape = R.choice(SHAPES1 + SHAPESN[:4])
                n = int(np.prod(shape))
                idxs = [[R.randint(-3, 3) for _ in range(3)] for _ in range(n)]
                fmt = R.choice(["uvw", "hkl"])
                m0 = Miller(**{fmt: np.array(idxs, float).reshape(tuple(shape) + (3,)), "phase": ph})
                rows = m0.data.reshape(-1, 3).tolist()
                labs = ["lattice"] * n
            else:
                shape, rows, labs = build_set(g, R, stratum)
            m = Miller(xyz=np.array(rows, float).reshape(tuple(shape) + (3,)), phase=ph)
            m.coordinate_format = fmt
            st(f"sym/{stratum}")
            st(f"group/{g.name}")
            st(f"ndim/{len(shape)}")
            check_symmetrise(g, mats, m, shape, rows, labs, stratum, lat)
            check_unique(g, mats, m, shape, rows, stratum, lat)
            if t % 2 == 0:
                check_angle(g, mats, R, lat, ph)
            if t % 2 == 1 or per_group == 1:
                check_round(g, R, lat, ph)

emit({"cases": cases, "fails": fails, "strata": strata, "witness": witness})
