"""C05 implementation harness: fundamental-zone reduction."""
import numpy as np
from common import emit, payload, rand_unit_quat, rng

from orix.quaternion import Misorientation, Orientation, OrientationRegion, Rotation
from orix.quaternion import symmetry as S
from orix.quaternion.orientation_region import get_proper_groups

P = payload()
R = rng(P.get("seed", 0))
N = P.get("n", 30)
THOROUGH = P.get("thorough", False)
cases, fails, strata = [], [], {}
GROUPS = list(S._groups)
BYNAME = {g.name: g for g in GROUPS}
PROPER = [g for g in GROUPS if g.is_proper]


def st(k):
    strata[k] = strata.get(k, 0) + 1


def fail(sig, what, rep):
    fails.append({"sig": sig, "what": what, "replay": rep})


def qmul(p, q):
    a, b, c, d = p[..., 0], p[..., 1], p[..., 2], p[..., 3]
    e, f, g, h = q[..., 0], q[..., 1], q[..., 2], q[..., 3]
    return np.stack([a * e - b * f - c * g - d * h, b * e + a * f - d * g + c * h,
                     c * e + d * f + a * g - b * h, d * e - c * f + b * g + a * h], -1)


def proper_elems(G):
    return G.data.reshape(-1, 4)[~G.improper.reshape(-1)]


def gclass(G):
    if G.is_proper:
        return "proper"
    return "inversion" if G.contains_inversion else "improper-noinv"


def code_pairs(Gl, Gr):
    """the pairs (gl, gr) of quaternion parts the reduction runs over, in the code's order: proper x proper, then
    improper x improper (two improper operations map a misorientation to an equivalent proper one; repair 91fe48e)"""
    D1, I1 = Gl.data.reshape(-1, 4), Gl.improper.reshape(-1)
    D2, I2 = Gr.data.reshape(-1, 4), Gr.improper.reshape(-1)
    out = []
    for flag in (False, True):
        for a in D1[I1 == flag]:
            for b in D2[I2 == flag]:
                out.append((a, b))
    return out


def orbit(Gl, Gr, m):
    """all gl*m*gr with gl, gr both proper or both improper -> (n, 4)"""
    return np.array([qmul(qmul(a, m), b) for a, b in code_pairs(Gl, Gr)])


def check_pair(Gl, Gr, ms, label):
    """ms: (n,4) unit quaternions"""
    cl = f"{gclass(Gl)}+{gclass(Gr)}"
    if "improper-noinv" in cl:
        cl += f":{Gl.name},{Gr.name}"     # one root cause per group: name it
    try:
        region = OrientationRegion.from_symmetry(Gl, Gr)
    except NotImplementedError:
        st("no-region-defined")
        return
    M = Misorientation(ms, symmetry=(Gl, Gr))
    red = M.map_into_symmetry_reduced_zone()
    rep = {"Gl": Gl.name, "Gr": Gr.name, "m": ms.tolist()}
    st(f"{label}/{cl}")
    if red.shape != M.shape or red.symmetry[0].name != Gl.name or red.symmetry[1].name != Gr.name:
        fail("reduce:shape-symmetry", "reduction does not preserve shape / assigned symmetries", rep)
        return
    if red.improper.any():
        fail("reduce:improper-result", "reduction returns an improper rotation", rep)
    inside = red < region
    again = red.map_into_symmetry_reduced_zone()
    # the loop runs over the pairs of two proper or two improper operations (repairs cae3bbd, 91fe48e)
    cp = code_pairs(Gl, Gr)
    try:
        pa, pb = get_proper_groups(Gl, Gr)
        pnames = [pa.name, pb.name]
    except NotImplementedError:
        pnames = ["", ""]
    cases.append({"Gl": {"q": Gl.data.reshape(-1, 4).tolist(), "imp": Gl.improper.reshape(-1).astype(int).tolist()},
                  "Gr": {"q": Gr.data.reshape(-1, 4).tolist(), "imp": Gr.improper.reshape(-1).astype(int).tolist()},
                  "pnames": pnames,
                  "N": region.data.reshape(-1, 4).tolist(), "m": ms.tolist(), "out": red.data.reshape(-1, 4).tolist(),
                  "inside_in": (M < region).reshape(-1).astype(int).tolist(), "pair": [Gl.name, Gr.name]})
    for k in range(len(ms)):
        orb = orbit(Gl, Gr, ms[k])
        best = np.max(np.abs(orb[:, 0]))
        r = red.data.reshape(-1, 4)[k]
        rk = dict(rep, k=k)
        in_orbit = np.max(np.abs(orb @ r)) > 1 - 1e-9
        if not in_orbit:
            fail(f"reduce:not-in-orbit:{cl}", f"result is not gl*M*gr for two proper or two improper operations gl, gr of ({Gl.name}, {Gr.name})", rk)
        if abs(r[0]) < best - 1e-7:
            fail(f"reduce:not-minimal:{cl}", f"result angle {np.rad2deg(2*np.arccos(min(1,abs(r[0])))):.3f} deg is not the smallest in the orbit ({np.rad2deg(2*np.arccos(min(1,best))):.3f}) for ({Gl.name}, {Gr.name})", rk)
        if not inside.reshape(-1)[k]:
            fail(f"reduce:outside-region:{cl}", f"result lies outside OrientationRegion.from_symmetry({Gl.name}, {Gr.name})", rk)
        if not (abs(float(np.dot(again.data.reshape(-1, 4)[k], r))) > 1 - 1e-9):
            fail(f"reduce:not-idempotent:{cl}", "reducing twice changes the result", rk)
    # same representative for the whole orbit, except on region boundaries
    eq = []
    for m in ms:
        a, b = cp[R.randrange(len(cp))]
        eq.append(qmul(qmul(a, m), b))
    eq = np.array(eq)
    red2 = Misorientation(eq, symmetry=(Gl, Gr)).map_into_symmetry_reduced_zone()
    nd = np.abs(region.data.reshape(-1, 4) @ red.data.reshape(-1, 4).T) if region.size else np.ones((1, len(ms)))
    for k in range(len(ms)):
        if region.size and nd[:, k].min() < 1e-6:
            continue    # on a boundary: the statement allows several representatives
        if abs(float(np.dot(red2.data.reshape(-1, 4)[k], red.data.reshape(-1, 4)[k]))) < 1 - 1e-7:
            fail(f"reduce:orbit-representative:{cl}", f"two members of one orbit reduce to different representatives for ({Gl.name}, {Gr.name})", dict(rep, k=k))


# orientations: (C1, G) for all groups
gsel = GROUPS if THOROUGH else R.sample(GROUPS, 12) + [BYNAME[n] for n in ("432", "m-3m", "-4", "622", "mm2", "-43m")]
for G in gsel:
    ms = np.array([rand_unit_quat(R) for _ in range(6 if not THOROUGH else 20)])
    check_pair(S.C1, G, ms, "orientation")
    # Orientation class API
    O = Orientation(ms, symmetry=G)
    try:
        red = O.map_into_symmetry_reduced_zone()
        if red.symmetry.name != G.name or red.shape != O.shape:
            fail("reduce:shape-symmetry", "Orientation reduction does not preserve shape/symmetry", {"G": G.name})
    except NotImplementedError:
        pass

# misorientations: ordered pairs of proper groups (+ some improper)
pairs = [(a, b) for a in PROPER for b in PROPER]
psel = pairs if THOROUGH else R.sample(pairs, 14) + [(BYNAME["432"], BYNAME["622"]), (BYNAME["622"], BYNAME["432"]),
                                                     (BYNAME["23"], BYNAME["6"]), (BYNAME["432"], BYNAME["432"])]
for Gl, Gr in psel:
    npts = 40 if {Gl.system, Gr.system} & {"cubic"} and {Gl.system, Gr.system} & {"hexagonal", "trigonal"} else 6
    ms = np.array([rand_unit_quat(R) for _ in range(npts)])
    check_pair(Gl, Gr, ms, "misorientation")
# every combination of group classes (proper / with inversion / improper without inversion; a region is defined for
# all but the last with itself), each with a cubic x hexagonal-or-trigonal pair in BOTH orders: only there do the
# two groups not commute as sets, so that a region built for the swapped or the wrong pair of groups shows
CUBIC = {"proper": ["432", "23"], "inversion": ["m-3m", "m-3"], "improper-noinv": ["-43m"]}
HEXTRIG = {"proper": ["622", "32", "6", "312"], "inversion": ["6/mmm", "-3m", "6/m"], "improper-noinv": ["-6m2", "3m", "6mm", "-6"]}
OTHER = {"proper": ["422", "222", "1"], "inversion": ["4/mmm", "mmm", "-1"], "improper-noinv": ["-42m", "mm2", "m11", "-4", "4mm"]}
for ca in ("proper", "inversion", "improper-noinv"):
    for cb in ("proper", "inversion", "improper-noinv"):
        if ca == cb == "improper-noinv":
            continue
        sel = []
        ncub = 1 if not THOROUGH else len(CUBIC[ca]) * len(HEXTRIG[cb])
        allab = [(a, b) for a in CUBIC[ca] for b in HEXTRIG[cb]]
        allba = [(a, b) for a in HEXTRIG[ca] for b in CUBIC[cb]]
        sel += (allab if THOROUGH else [allab[0]] + R.sample(allab[1:], min(1, len(allab) - 1)))
        sel += (allba if THOROUGH else [allba[0]] + R.sample(allba[1:], min(1, len(allba) - 1)))
        oth = [(a, b) for a in OTHER[ca] + CUBIC[ca][:1] for b in OTHER[cb] + HEXTRIG[cb][:1]]
        sel += (oth if THOROUGH else R.sample(oth, 2))
        for na, nb in sel:
            Gl, Gr = BYNAME[na], BYNAME[nb]
            hard = {Gl.system, Gr.system} & {"cubic"} and {Gl.system, Gr.system} & {"hexagonal", "trigonal"}
            npts = (80 if hard else 12) if not THOROUGH else (200 if hard else 30)
            ms = np.array([rand_unit_quat(R) for _ in range(npts)])
            check_pair(Gl, Gr, ms, "misorientation-classes")
if THOROUGH:
    # every ordered pair of the 38 groups for which a region is defined
    for Gl in GROUPS:
        for Gr in GROUPS:
            ms = np.array([rand_unit_quat(R) for _ in range(8)])
            check_pair(Gl, Gr, ms, "misorientation-all")

# boundary strata: points on / within 1e-9 of faces and vertices of a region
for G in (BYNAME["432"], BYNAME["622"], BYNAME["222"]):
    region = OrientationRegion.from_symmetry(G)
    V = region.vertices()
    pts = []
    for v in V.data.reshape(-1, 4)[:6]:
        pts.append(v)
        w = v + 1e-9 * np.array([0, 1, -1, 0.5])
        pts.append(w / np.linalg.norm(w))
    if pts:
        check_pair(S.C1, G, np.array(pts), "boundary")

# shapes
for shape in [(1,), (2, 3), (2, 1, 2)]:
    n = int(np.prod(shape))
    q = np.array([rand_unit_quat(R) for _ in range(n)]).reshape(shape + (4,))
    M = Misorientation(q, symmetry=(BYNAME["432"], BYNAME["422"]))
    red = M.map_into_symmetry_reduced_zone()
    st(f"shape{shape}")
    flat = Misorientation(q.reshape(-1, 4), symmetry=(BYNAME["432"], BYNAME["422"])).map_into_symmetry_reduced_zone()
    if red.shape != shape or not np.allclose(red.data.reshape(-1, 4), flat.data):
        fail("reduce:shape-symmetry", f"reduction of shape {shape} differs from the element-wise reduction", {"shape": shape})

# get_proper_groups on ALL ordered pairs of named groups (compared with the definition translated from its source)
gpg = []
for Gl in GROUPS:
    for Gr in GROUPS:
        try:
            a, b = get_proper_groups(Gl, Gr)
            gpg.append([Gl.name, Gr.name, a.name, b.name])
        except NotImplementedError:
            gpg.append([Gl.name, Gr.name, None, None])
st("get_proper_groups:all-pairs")

emit({"cases": cases, "fails": fails, "strata": strata, "gpg": gpg})
