"""C09 implementation harness: observations for the Coq correspondence and the
property oracle, both on the working tree named by PYTHONPATH (/repo).

Cases (for the Coq model):   conv4  align  phase  trans  make  coords  length  cross  dot
Oracle (numpy references computed from the lattice PARAMETERS, not from diffpy's
matrices): canonical aligned base, metric tensors, triclinic d-spacing formula,
zone law in integer arithmetic, index cross products."""
import math

import numpy as np
from common import emit, payload, rand_unit_quat, rng

from diffpy.structure import Atom, Lattice, Structure
from orix.crystal_map import Phase, PhaseList
from orix.crystal_map.phase_list import _new_structure_matrix_from_alignment
from orix.vector import Miller
from orix.vector import miller as MM

P = payload()
R = rng(P.get("seed", 0))
N = P.get("n", 60)               # number of lattices
ONLY = P.get("only")             # replay: a single lattice spec

cases = []
fails = []
strata = {}
EXC = ("ValueError", "KeyError", "LatticeError")


def st(k):
    strata[k] = strata.get(k, 0) + 1


def fail(sig, what, rep):
    fails.append({"sig": sig, "what": what, "replay": rep})


def exc_of(e):
    n = type(e).__name__
    return n if n in EXC else "Other:" + n


def close(a, b, tol=1e-8, scale=None):
    a, b = np.asarray(a, float), np.asarray(b, float)
    if a.shape != b.shape:
        return False
    if a.size == 0:
        return True
    s = scale if scale is not None else max(float(np.max(np.abs(b))), 1e-300)
    return bool(np.all(np.abs(a - b) <= tol * s))


# ------------------------------------------------------------------ generators
def quat2mat(q):
    a, b, c, d = q
    return np.array([[a * a + b * b - c * c - d * d, 2 * (b * c - a * d), 2 * (b * d + a * c)],
                     [2 * (b * c + a * d), a * a - b * b + c * c - d * d, 2 * (c * d - a * b)],
                     [2 * (b * d - a * c), 2 * (c * d + a * b), a * a - b * b - c * c + d * d]])


def vol_factor(al, be, ga):
    ca, cb, cg = (math.cos(math.radians(x)) for x in (al, be, ga))
    v2 = 1 - ca * ca - cb * cb - cg * cg + 2 * ca * cb * cg
    return math.sqrt(v2) if v2 > 0 else 0.0


def gen_lattice(k):
    fam = ["cubic", "tetragonal", "orthorhombic", "hexagonal", "rhombohedral", "monoclinic",
           "triclinic", "triclinic", "near-degenerate"][k % 9]
    scale = ["normal", "normal", "normal", "normal", "large-cell", "small-cell", "normal"][(k // 9 + k) % 7]
    lo, hi = {"normal": (0.2, 30.0), "large-cell": (600.0, 3000.0), "small-cell": (3e-4, 1.5e-3)}[scale]

    def ln():
        return math.exp(R.uniform(math.log(lo), math.log(hi)))
    a, b, c = ln(), ln(), ln()
    al = be = ga = 90.0
    if fam == "cubic":
        b = c = a
    elif fam == "tetragonal":
        b = a
    elif fam == "hexagonal":
        b = a
        ga = 120.0
    elif fam == "rhombohedral":
        b = c = a
        al = be = ga = R.uniform(45, 112)
    elif fam == "monoclinic":
        be = R.uniform(60, 130)
    elif fam in ("triclinic", "near-degenerate"):
        while True:
            al, be, ga = R.uniform(50, 130), R.uniform(50, 130), R.uniform(50, 130)
            v = vol_factor(al, be, ga)
            if (fam == "triclinic" and v > 0.3) or (fam == "near-degenerate" and 0.03 < v < 0.12):
                break
    rot = R.choice(["identity", "random", "random", "axis-swap"])
    if rot == "identity":
        rm = np.eye(3)
    elif rot == "random":
        rm = quat2mat(rand_unit_quat(R))
    else:
        rm = np.array(R.choice([[[0, 1, 0], [0, 0, 1], [1, 0, 0]], [[0, 0, 1], [1, 0, 0], [0, 1, 0]],
                                [[0, -1, 0], [1, 0, 0], [0, 0, 1]], [[-1, 0, 0], [0, -1, 0], [0, 0, 1]]]), float)
    natoms = R.choice([0, 1, 2, 3])
    atoms = [[R.uniform(-1, 2) for _ in range(3)] for _ in range(natoms)]
    return {"family": fam, "scale": scale, "rot": rot, "abc": [a, b, c], "ang": [al, be, ga],
            "baserot": rm.tolist(), "atoms": atoms}


SHAPES = [(), (1,), (3,), (2, 2), (1, 3), (4,), (0,)]


def gen_indices(n_last, kind, shape):
    n = int(np.prod(shape)) if shape != () else 1
    out = []
    for _ in range(n):
        if kind == "int-small":
            v = [R.randint(-5, 5) for _ in range(3)]
        elif kind == "int-large":
            v = [R.randint(-40, 40) for _ in range(3)]
        elif kind == "real":
            v = [R.gauss(0, 3) for _ in range(3)]
        elif kind == "axis":
            v = [0, 0, 0]
            v[R.randrange(3)] = R.choice([1, -1, 2])
        else:  # zero
            v = [0, 0, 0]
        if n_last == 4:
            v = [v[0], v[1], -(v[0] + v[1]), v[2]]   # U+V+T = 0 (exact for ints; to 1 ulp for reals)
        out.append(v)
    arr = np.array(out, dtype=float if kind == "real" else int).reshape(shape + (n_last,))
    return arr


KINDS = ["int-small", "int-small", "int-large", "real", "real", "axis", "zero"]
FORMATS = ["xyz", "uvw", "UVTW", "hkl", "hkil"]
NL = {"xyz": 3, "uvw": 3, "UVTW": 4, "hkl": 3, "hkil": 4}


def flat(a, n):
    return np.asarray(a, float).reshape(-1, n).tolist()


def mk(fmt, arr, phase):
    return Miller(**{fmt: arr, "phase": phase})


# ------------------------------------------------------------------ references
def ref_metric(abc, ang):
    a, b, c = abc
    ca, cb, cg = (math.cos(math.radians(x)) for x in ang)
    return np.array([[a * a, a * b * cg, a * c * cb], [a * b * cg, b * b, b * c * ca], [a * c * cb, b * c * ca, c * c]])


def ref_base(abc, ang):
    """a along x, c* along z (b in the x-y plane), right-handed: textbook form"""
    a, b, c = abc
    ca, cb, cg = (math.cos(math.radians(x)) for x in ang)
    sg = math.sin(math.radians(ang[2]))
    v = a * b * c * vol_factor(*ang)
    return np.array([[a, 0, 0], [b * cg, b * sg, 0], [c * cb, c * (ca - cb * cg) / sg, v / (a * b * sg)]])


def ref_inv_d2(hkl, abc, ang):
    """1/d^2 for a triclinic cell (International Tables formula)"""
    a, b, c = abc
    al, be, ga = (math.radians(x) for x in ang)
    ca, cb, cg = math.cos(al), math.cos(be), math.cos(ga)
    sa, sb, sg = math.sin(al), math.sin(be), math.sin(ga)
    v2 = (a * b * c) ** 2 * (1 - ca * ca - cb * cb - cg * cg + 2 * ca * cb * cg)
    h, k, l = hkl[..., 0], hkl[..., 1], hkl[..., 2]
    s11, s22, s33 = (b * c * sa) ** 2, (a * c * sb) ** 2, (a * b * sg) ** 2
    s12 = a * b * c * c * (ca * cb - cg)
    s23 = a * a * b * c * (cb * cg - ca)
    s13 = a * b * b * c * (cg * ca - cb)
    return (s11 * h * h + s22 * k * k + s33 * l * l + 2 * s12 * h * k + 2 * s23 * k * l + 2 * s13 * h * l) / v2


# ------------------------------------------------------------------ 4-index kernels
def conv4_cases(n):
    for i in range(n):
        kind = R.choice(KINDS)
        shape = R.choice(SHAPES)
        uvw = gen_indices(3, kind, shape)
        U = MM._uvw2UVTW(uvw)
        Um = MM._uvw2UVTW(uvw, convention="mtex")
        back = MM._UVTW2uvw(U)
        backm = MM._UVTW2uvw(Um, convention="mtex")
        hkil = MM._hkl2hkil(uvw)
        hkl = MM._hkil2hkl(hkil)
        q = gen_indices(4, kind, shape)           # a 4-index input of its own
        q_uvw = MM._UVTW2uvw(q)
        q_hkl = MM._hkil2hkl(q)
        cases.append({"k": "conv4", "uvw": flat(uvw, 3), "UVTW": flat(U, 4), "UVTWm": flat(Um, 4),
                      "back": flat(back, 3), "backm": flat(backm, 3), "hkil": flat(hkil, 4),
                      "hkl": flat(hkl, 3), "q": flat(q, 4), "q_uvw": flat(q_uvw, 3), "q_hkl": flat(q_hkl, 3)})
        st(f"conv4/{kind}/ndim={len(shape)}")
        rep = {"uvw": uvw.tolist()}
        if U.shape != shape + (4,) or back.shape != shape + (3,) or hkil.shape != shape + (4,):
            fail("conv4:shape", f"4-index conversion changes the array shape for input shape {shape}", rep)
            continue
        if not close(back, uvw, 1e-12, 1 + np.max(np.abs(uvw), initial=0)):
            fail("conv4:uvw->UVTW->uvw", "uvw -> UVTW -> uvw is not the identity", rep)
        if not close(backm, uvw, 1e-12, 1 + np.max(np.abs(uvw), initial=0)):
            fail("conv4:mtex:uvw->UVTW->uvw", "uvw -> UVTW -> uvw (mtex convention) is not the identity", rep)
        if not close(hkl, uvw, 1e-12, 1 + np.max(np.abs(uvw), initial=0)):
            fail("conv4:hkl->hkil->hkl", "hkl -> hkil -> hkl is not the identity", rep)
        if U.size and np.max(np.abs(U[..., :3].sum(-1))) > 1e-12 * (1 + np.max(np.abs(uvw))):
            fail("conv4:U+V+T", "U + V + T != 0", rep)
        if hkil.size and np.max(np.abs(hkil[..., :3].sum(-1))) > 1e-12 * (1 + np.max(np.abs(uvw))):
            fail("conv4:h+k+i", "h + k + i != 0", rep)
        u, v, w = (uvw[..., j].astype(float) for j in range(3))
        refU = np.stack([(2 * u - v) / 3, (2 * v - u) / 3, -(u + v) / 3, w], -1)
        if not close(U, refU, 1e-12, 1 + np.max(np.abs(uvw), initial=0)):
            fail("conv4:UVTW-definition", "UVTW differs from ((2u-v)/3, (2v-u)/3, -(u+v)/3, w)", rep)
        if not close(MM._uvw2UVTW(q_uvw), q, 1e-12, 1 + np.max(np.abs(q), initial=0)):
            fail("conv4:UVTW->uvw->UVTW", "UVTW -> uvw -> UVTW is not the identity for U+V+T=0", {"UVTW": q.tolist()})
        if not close(MM._hkl2hkil(q_hkl), q, 1e-12, 1 + np.max(np.abs(q), initial=0)):
            fail("conv4:hkil->hkl->hkil", "hkil -> hkl -> hkil is not the identity for h+k+i=0", {"hkil": q.tolist()})


# ------------------------------------------------------------------ one lattice
PAIRS = [("uvw", "uvw"), ("hkl", "hkl"), ("UVTW", "UVTW"), ("hkil", "hkil"), ("xyz", "xyz"),
         ("uvw", "UVTW"), ("hkil", "hkl"), ("uvw", "hkl"), ("xyz", "uvw"), ("hkl", "xyz")]


def lattice_block(spec, nvec):
    fam, scale = spec["family"], spec["scale"]
    abc, ang = spec["abc"], spec["ang"]
    tag = f"{fam}/{scale}/rot={spec['rot']}"
    st("lattice/" + tag)
    rep0 = {"lattice": spec}
    lat0 = Lattice(*abc, *ang, baserot=np.array(spec["baserot"]))
    A0 = lat0.base.copy()
    atoms = [Atom("Al", xyz) for xyz in spec["atoms"]]
    s0 = Structure(atoms=atoms, lattice=lat0)
    cart0 = np.array(s0.xyz_cartn).reshape(-1, 3).copy()
    frac0 = np.array(s0.xyz).reshape(-1, 3).copy()
    vscale = max(abc)

    # --- direct calls of the alignment function, several axis choices
    for _ in range(3):
        choice = R.choice([("a", None, "c*"), ("a", "b*", None), (None, "b", "c*"), ("b", None, "a*"),
                           ("c", "a*", None), ("a*", "b", None), ("a", "b", "c"), ("a", None, None),
                           (None, None, "c*"), ("b*", None, "c"), (None, "c*", "a")])
        try:
            out = _new_structure_matrix_from_alignment(A0.copy(), x=choice[0], y=choice[1], z=choice[2])
            res = {"ok": np.asarray(out, float).tolist()}
        except Exception as e:  # noqa
            res = {"err": exc_of(e)}
        cases.append({"k": "align", "A": A0.tolist(), "axes": list(choice), "res": res, "lattice": spec})
        st("align/" + "-".join(str(x) for x in choice))

    # --- Phase(structure=...)
    try:
        ph = Phase(point_group="1", structure=s0)
        err = None
    except Exception as e:  # noqa
        ph, err = None, exc_of(e)
    if not np.array_equal(lat0.base, A0) or not np.array_equal(np.array(s0.xyz).reshape(-1, 3), frac0):
        fail("align:input-mutated", "Phase(structure=...) modified the caller's structure", rep0)
    if err is not None:
        cases.append({"k": "phase", "A": A0.tolist(), "fracs": frac0.tolist(), "res": {"err": err}, "lattice": spec})
        st("phase/raises/" + err)
        fail(f"phase:raises:{err}:{scale}",
             f"Phase(structure=...) raises {err} for a non-degenerate {fam} lattice ({scale})", rep0)
        return
    L = ph.structure.lattice
    B = np.array(L.base)
    try:
        recm = {"ok": np.array(L.reciprocal().metrics).tolist()}
    except Exception as e:  # noqa
        recm = {"err": exc_of(e)}
    frac1 = np.array(ph.structure.xyz).reshape(-1, 3)
    cases.append({"k": "phase", "A": A0.tolist(), "fracs": frac0.tolist(), "lattice": spec,
                  "res": {"ok": {"base": B.tolist(), "recbase": np.array(L.recbase).tolist(),
                                 "metrics": np.array(L.metrics).tolist(), "recmetrics": recm,
                                 "fracs": frac1.tolist()}}})
    st("phase/ok/atoms=%d" % len(atoms))

    # --- oracle: alignment
    G = ref_metric(abc, ang)
    Aref = ref_base(abc, ang)
    Bref = np.linalg.inv(Aref)
    V = abc[0] * abc[1] * abc[2] * vol_factor(*ang)
    tol = 1e-8
    if not (close(B[0], [abc[0], 0, 0], tol, vscale)):
        fail("align:a-along-e1", "after Phase(structure), the base vector a is not (|a|, 0, 0)", rep0)
    cs = np.array(L.recbase)[:, 2]
    if not (abs(cs[0]) <= tol * abs(cs[2]) and abs(cs[1]) <= tol * abs(cs[2]) and cs[2] > 0):
        fail("align:cstar-along-e3", "after Phase(structure), c* is not along +e3", rep0)
    if not (np.linalg.det(B) > 0 and close(np.linalg.det(B), V, tol)):
        fail("align:right-handed-volume", "aligned base is not right-handed with the cell volume", rep0)
    if not close(B @ B.T, G, tol):
        fail("align:lattice-parameters", "aligned base changes lengths/angles (Gram matrix)", rep0)
    p1 = np.array(L.abcABG())
    if not (close(p1[:3], abc, tol) and np.all(np.abs(p1[3:] - np.array(ang)) <= 1e-6)):
        fail("align:lattice-parameters", "lattice parameters changed by Phase(structure)", rep0)
    if not close(B, Aref, tol, vscale):
        fail("align:canonical-base", "aligned base differs from the textbook a||x, c*||z base", rep0)
    cart1 = np.array(ph.structure.xyz_cartn).reshape(-1, 3)
    # same atoms, now expressed in the rotated frame: positions relative to the lattice are what
    # must be kept -> fractional coordinates unchanged, i.e. cart1 = cart0 * R.  The CODE keeps the
    # Cartesian triples instead (documented in the property): check exactly that.
    if not close(cart1, cart0, tol, max(vscale, 1e-300) * 3):
        fail("align:atoms-cartesian", "atoms' Cartesian coordinates changed by Phase(structure)", rep0)
    if not close(frac1 @ B, cart0, tol, max(vscale, 1e-300) * 3):
        fail("align:atoms-cartesian", "new fractional coordinates x new base != old Cartesian positions", rep0)
    if not (close(B @ np.array(L.recbase), np.eye(3), tol) and close(np.array(L.recbase) @ B, np.eye(3), tol)):
        fail("duality:base-recbase", "base . recbase != identity", rep0)
    axd = [ph.a_axis, ph.b_axis, ph.c_axis]
    axr = [ph.ar_axis, ph.br_axis, ph.cr_axis]
    D = np.array([[float(np.sum(x.data * y.data)) for y in axr] for x in axd])
    if not close(D, np.eye(3), tol, 1.0):
        fail("duality:axes", "a_i . a*_j != delta_ij for the phase's axes", rep0)
    if not close(np.array(L.metrics), G, tol):
        fail("metric:direct", "lattice.metrics differs from the parameter formula", rep0)

    # --- _transform_space, all nine pairs
    refM = {("d", "c"): Aref, ("c", "d"): Bref, ("r", "c"): Bref.T, ("c", "r"): Aref.T,
            ("d", "r"): G, ("r", "d"): np.linalg.inv(G)}
    for si in "drc":
        for so in "drc":
            kind = R.choice(KINDS)
            shape = R.choice(SHAPES)
            v = gen_indices(3, kind, shape)
            try:
                w = MM._transform_space(v, si, so, L)
                res = {"ok": flat(w, 3)}
            except Exception as e:  # noqa
                w, res = None, {"err": exc_of(e)}
            cases.append({"k": "trans", "A": B.tolist(), "si": si, "so": so, "v": flat(v, 3), "res": res,
                          "lattice": spec})
            st(f"trans/{si}->{so}")
            rep = dict(rep0, v=v.tolist(), space_in=si, space_out=so)
            if w is None:
                fail(f"transform:{si}->{so}:raises:{res['err']}:{scale}",
                     f"_transform_space raises {res['err']} converting {si}->{so} on a {scale} lattice", rep)
                continue
            if w.shape != v.shape:
                fail(f"transform:{si}->{so}:shape", "conversion changes the array shape", rep)
                continue
            ref = v.astype(float) if si == so else v.astype(float) @ refM[(si, so)]
            if not close(w, ref, tol, max(float(np.max(np.abs(ref), initial=0)), 1e-300)):
                fail(f"transform:{si}->{so}", f"conversion {si}->{so} differs from the reference linear map", rep)

    # --- Miller objects
    for _ in range(nvec):
        f1 = R.choice(FORMATS)
        kind = R.choice(KINDS)
        shape = R.choice(SHAPES)
        c1 = gen_indices(NL[f1], kind, shape)
        rep = dict(rep0, format=f1, coords=c1.tolist())
        try:
            m = mk(f1, c1, ph)
            res = {"ok": flat(m.data, 3)}
        except Exception as e:  # noqa
            m, res = None, {"err": exc_of(e)}
        cases.append({"k": "make", "A": B.tolist(), "f": f1, "c": flat(c1, NL[f1]), "res": res, "lattice": spec})
        st(f"make/{f1}/{kind}/ndim={len(shape)}")
        if m is None:
            fail(f"make:{f1}:raises:{res['err']}", f"Miller({f1}=...) raises {res['err']} on well-formed input", rep)
            continue
        if m.shape != shape and not (shape == () and m.shape == (1,)):
            fail(f"shape:make:{f1}", f"Miller({f1}=array of shape {shape}+(n,)) has shape {m.shape}", rep)
        cscale = 1 + float(np.max(np.abs(c1), initial=0))
        # every format out, back in, and back to f1
        outs = {}
        for f2 in FORMATS:
            try:
                c2 = getattr(m, "data" if f2 == "xyz" else f2)
                outs[f2] = np.array(c2)
            except Exception as e:  # noqa
                fail(f"coords:{f2}:raises:{exc_of(e)}", f"reading .{f2} raises {exc_of(e)}", rep)
                continue
            if c2.shape != m.shape + (NL[f2],):
                fail(f"shape:coords:{f2}", f".{f2} has shape {c2.shape} for vectors of shape {m.shape}", rep)
                continue
            try:
                m2 = mk(f2, c2, ph)
                c1b = np.array(getattr(m2, "data" if f1 == "xyz" else f1)).reshape(c1.shape if shape != () else (1, NL[f1]))
            except Exception as e:  # noqa
                fail(f"roundtrip:{f1}->{f2}:raises:{exc_of(e)}",
                     f"{f1} -> {f2} -> {f1} raises {exc_of(e)}", rep)
                continue
            if not close(m2.data, m.data, tol, max(float(np.max(np.abs(m.data), initial=0)), 1e-300)):
                fail(f"roundtrip:{f1}->{f2}", f"vector rebuilt from its {f2} coordinates differs", rep)
            if not close(c1b.reshape(-1), np.asarray(c1, float).reshape(-1), tol, cscale):
                fail(f"roundtrip:{f1}->{f2}", f"{f1} -> {f2} -> {f1} changes the coordinates", rep)
            # setter path
            if f2 != "xyz":
                m3 = Miller(xyz=np.zeros(m.shape + (3,)), phase=ph)
                try:
                    setattr(m3, f2, c2)
                    if not close(m3.data, m.data, tol, max(float(np.max(np.abs(m.data), initial=0)), 1e-300)):
                        fail(f"setter:{f2}", f"setting .{f2} does not reproduce the vector", rep)
                except Exception as e:  # noqa
                    fail(f"setter:{f2}:raises:{exc_of(e)}", f"setting .{f2} raises {exc_of(e)}", rep)
        cases.append({"k": "coords", "A": B.tolist(), "x": flat(m.data, 3), "lattice": spec,
                      "out": {f: flat(outs[f], NL[f]) for f in outs}})
        st("coords")
        if "UVTW" in outs and outs["UVTW"].size and np.max(np.abs(outs["UVTW"][..., :3].sum(-1))) > 1e-9 * (
                1 + np.max(np.abs(outs["UVTW"]))):
            fail("UVTW:sum", "U + V + T != 0 on a Miller object", rep)
        if "hkil" in outs and outs["hkil"].size and np.max(np.abs(outs["hkil"][..., :3].sum(-1))) > 1e-9 * (
                1 + np.max(np.abs(outs["hkil"]))):
            fail("hkil:sum", "h + k + i != 0 on a Miller object", rep)
        # metric forms / lengths (independent of diffpy's matrices)
        x2 = np.sum(m.data ** 2, -1)
        if "uvw" in outs:
            u = outs["uvw"]
            if not close(np.einsum("...i,ij,...j", u, G, u), x2, tol, max(float(np.max(x2, initial=0)), 1e-300)):
                fail("length:direct-metric", "|uvw A|^2 != uvw G uvw^T", rep)
        if "hkl" in outs:
            h = outs["hkl"]
            if not close(ref_inv_d2(h, abc, ang), x2, tol, max(float(np.max(x2, initial=0)), 1e-300)):
                fail("length:reciprocal-dspacing", "|hkl B^T|^2 != 1/d_hkl^2 (triclinic formula)", rep)
        lens = {}
        for f2 in FORMATS:
            m.coordinate_format = f2
            try:
                ln = np.array(m.length, float)
                lens[f2] = ln.reshape(-1).tolist()
                if not close(ln, np.sqrt(x2), tol, max(float(np.max(np.sqrt(x2), initial=0)), 1e-300)):
                    fail(f"length:{f2}", f"Miller.length in format {f2} is not the vector length", rep)
            except Exception as e:  # noqa
                fail(f"length:{f2}:raises:{exc_of(e)}", f"Miller.length raises {exc_of(e)} in format {f2}", rep)
        m.coordinate_format = f1
        cases.append({"k": "length", "A": B.tolist(), "x": flat(m.data, 3), "out": lens, "lattice": spec})
        st("length")

    # --- zone law, cross, dot
    for _ in range(max(nvec // 2, 2)):
        kind = R.choice(["int-small", "int-large", "real", "axis"])
        shape = R.choice([(1,), (3,), (2, 2)])
        u1, u2 = gen_indices(3, kind, shape), gen_indices(3, kind, shape)
        rep = dict(rep0, i1=u1.tolist(), i2=u2.tolist())
        md, mr = Miller(uvw=u1, phase=ph), Miller(hkl=u2, phase=ph)
        z = np.sum(md.data * mr.data, -1)
        zref = np.sum(u1.astype(float) * u2.astype(float), -1)
        if not close(z, zref, tol, 1 + float(np.max(np.abs(zref), initial=0))):
            fail("zone-law", "<uvw, hkl> (Cartesian data) != uh + vk + wl", rep)
        st(f"zone-law/{kind}")
        for fa, fb in R.sample(PAIRS, 4):
            ma, mb = Miller(uvw=u1, phase=ph), Miller(uvw=u2, phase=ph)
            if fa in ("hkl", "hkil"):
                ma = Miller(hkl=u1, phase=ph)
            if fb in ("hkl", "hkil"):
                mb = Miller(hkl=u2, phase=ph)
            ma.coordinate_format, mb.coordinate_format = fa, fb
            same_space = ma.space == mb.space
            try:
                mc = ma.cross(mb)
                res = {"ok": {"f": mc.coordinate_format, "x": flat(mc.data, 3)}}
            except Exception as e:  # noqa
                mc, res = None, {"err": exc_of(e)}
            cases.append({"k": "cross", "fa": fa, "fb": fb, "xa": flat(ma.data, 3), "xb": flat(mb.data, 3),
                          "res": res, "lattice": spec})
            st(f"cross/{fa}x{fb}")
            try:
                dres = {"ok": np.array(ma.dot(mb), float).reshape(-1).tolist()}
            except Exception as e:  # noqa
                dres = {"err": exc_of(e)}
            cases.append({"k": "dot", "fa": fa, "fb": fb, "xa": flat(ma.data, 3), "xb": flat(mb.data, 3),
                          "res": dres, "lattice": spec})
            if not same_space:
                if mc is not None:
                    fail(f"cross:mixed-space:{fa}x{fb}", "cross of a direct and a reciprocal vector did not raise", rep)
                continue
            if mc is None:
                fail(f"cross:raises:{fa}:{res['err']}",
                     f"Miller.cross raises {res['err']} for vectors in format {fa}", dict(rep, fa=fa, fb=fb))
                continue
            xs = max(float(np.max(np.abs(ma.data), initial=0)) * float(np.max(np.abs(mb.data), initial=0)), 1e-300)
            if not (close(np.sum(mc.data * ma.data, -1), 0 * z, tol, xs * max(float(np.max(np.abs(ma.data))), 1e-300))
                    and close(np.sum(mc.data * mb.data, -1), 0 * z, tol, xs * max(float(np.max(np.abs(mb.data))), 1e-300))):
                fail("cross:perpendicular", "cross product is not perpendicular to its factors", rep)
            # lattice formats go to the dual space; Cartesian vectors stay Cartesian
            dual = {"uvw": "hkl", "hkl": "uvw", "UVTW": "hkil", "hkil": "UVTW", "xyz": "xyz"}
            if mc.coordinate_format != dual[fa]:
                fail(f"cross:format:{fa}", f"cross of {fa} vectors is reported as {mc.coordinate_format}", rep)
            if mc.shape != ma.shape:
                fail("shape:cross", "cross product changes the shape", rep)
            ic = np.cross(u1.astype(float), u2.astype(float))
            if fa in ("uvw", "UVTW"):
                if not close(mc.hkl, V * ic, tol, max(V * float(np.max(np.abs(ic), initial=0)), 1e-300)):
                    fail("cross:dual-indices", "(hkl) of [u1]x[u2] != V (u1 x u2)", rep)
            elif fa in ("hkl", "hkil"):
                if not close(mc.uvw, ic / V, tol, max(float(np.max(np.abs(ic), initial=0)) / V, 1e-300)):
                    fail("cross:dual-indices", "[uvw] of (h1)x(h2) != (h1 x h2) / V", rep)
            else:  # xyz: the Cartesian cross product of the Cartesian data
                if not close(mc.data, np.cross(ma.data, mb.data), tol, xs):
                    fail("cross:xyz-data", "cross of xyz vectors is not the Cartesian cross product", rep)

    # --- inconsistent 4-index input must be rejected by the constructor
    for f in ("UVTW", "hkil"):
        bad = np.array([[1, 1, 1, 0], [1, 0, -1, 2]])
        try:
            mk(f, bad, ph)
            res = {"ok": []}
            fail(f"make:{f}:inconsistent-accepted", f"Miller({f}=...) accepts indices whose first three do not sum to 0", rep0)
        except Exception as e:  # noqa
            res = {"err": exc_of(e)}
        cases.append({"k": "make", "A": B.tolist(), "f": f, "c": flat(bad, 4), "res": res, "lattice": spec})
        st(f"make/{f}/inconsistent")


# ================================================================== audit strata
# Oracle-only additions (no Coq cases) for entry points / keyword paths / input classes /
# parameter combinations / histories that the block above does not reach.  Every parameter
# that matters is CYCLED deterministically (global counters with pairwise coprime periods), the
# random generator R only draws the numbers.
SHAPES_X = [(2, 1, 3), (1, 1), (2, 3, 2), (3, 0), (1, 2, 1, 2), (0, 2), (2, 1)]
KINDS_X = ["int-small", "real", "int-large", "axis", "real", "zero"]
SGS = [1, 2, 14, 62, 123, 166, 194, 225, 150, 229, 75]
PGS = ["1", "m-3m", "6/mmm", None, "-3m", "mmm", "4/mmm", "2/m", "432", "-1", "622", "32", "m-3"]
ENTRIES = ["space_group", "setter", "setter-twice", "realign", "deepcopy", "phaselist-structures",
           "phaselist-phases", "phaselist-add", "phaselist-deepcopy", "lattice-from-base", "space_group+setter"]
CONTAINERS = ["ndarray", "list", "tuple", "ndarray-noncontiguous", "float32"]
BSHAPES = [((3,), (1,)), ((2, 1), (1, 3)), ((2, 2), (2, 2)), ((1,), (4,)), ((2, 1, 2), (3, 1)), ((3,), (3,)),
           ((0,), (1,))]
HISTORIES = ["native", "xyz-then-format", "setter", "other-format-then-format"]
OTHERPH = ["same", "deepcopy", "rebuilt"]
OPS = ["reshape", "transpose", "flatten", "getitem-int", "getitem-slice", "neg", "deepcopy", "unit", "mean",
       "squeeze", "getitem-mask"]
DUAL = {"uvw": "hkl", "hkl": "uvw", "UVTW": "hkil", "hkil": "UVTW", "xyz": "xyz"}
SPACE = {"xyz": "d", "uvw": "d", "UVTW": "d", "hkl": "r", "hkil": "r"}
CTR = {"obj": 0, "cross": 0, "dot": 0, "hist": 0, "trans": 0}


def nz(x):
    return max(float(np.max(np.abs(x), initial=0)), 1e-300)


def to_cart(fmt, c, Aref, Bref):
    """reference: coordinates in a format -> Cartesian (textbook base from the parameters)"""
    c = np.asarray(c, float)
    if fmt == "xyz":
        return c
    if fmt == "uvw":
        return c @ Aref
    if fmt == "UVTW":
        return np.stack([2 * c[..., 0] + c[..., 1], c[..., 0] + 2 * c[..., 1], c[..., 3]], -1) @ Aref
    if fmt == "hkl":
        return c @ Bref.T
    return np.stack([c[..., 0], c[..., 1], c[..., 3]], -1) @ Bref.T


def from_cart(fmt, x, Aref, Bref):
    """reference: Cartesian -> coordinates in a format"""
    x = np.asarray(x, float)
    if fmt == "xyz":
        return x
    if fmt in ("uvw", "UVTW"):
        t = x @ Bref
        if fmt == "uvw":
            return t
        u, v, w = t[..., 0], t[..., 1], t[..., 2]
        return np.stack([(2 * u - v) / 3, (2 * v - u) / 3, -(u + v) / 3, w], -1)
    t = x @ Aref.T
    if fmt == "hkl":
        return t
    return np.stack([t[..., 0], t[..., 1], -(t[..., 0] + t[..., 1]), t[..., 2]], -1)


def idx3(fmt, c):
    """3-index triple of lattice coordinates (uvw of UVTW, hkl of hkil)"""
    c = np.asarray(c, float)
    if fmt == "UVTW":
        return np.stack([2 * c[..., 0] + c[..., 1], c[..., 0] + 2 * c[..., 1], c[..., 3]], -1)
    if fmt == "hkil":
        return np.stack([c[..., 0], c[..., 1], c[..., 3]], -1)
    return c


def contain(arr, how):
    """the same numbers in another container / memory layout / dtype"""
    if arr.size == 0:
        return arr                           # a nested empty list would lose the trailing axes
    if how == "list":
        return arr.tolist()
    if how == "tuple":
        def tup(x):
            return tuple(tup(y) for y in x) if isinstance(x, list) else x
        return tup(arr.tolist())
    if how == "ndarray-noncontiguous":
        big = np.zeros(arr.shape[:-1] + (2 * arr.shape[-1],), dtype=arr.dtype)
        big[..., ::2] = arr
        return big[..., ::2]
    if how == "float32" and arr.dtype.kind == "i":
        return arr.astype(np.float32)        # small integers are exact in float32
    return arr


def other_structure():
    return Structure(atoms=[Atom("Fe", [0.25, 0.5, 0.75])], lattice=Lattice(2.0, 3.0, 7.0, 70.0, 100.0, 115.0))


def make_entry(entry, s0, A0, sg, pg):
    """a Phase holding s0, obtained through a secondary entry point / a multi-step history"""
    if entry == "space_group":
        return Phase(name="q", space_group=sg, structure=s0)
    if entry == "setter":
        ph = Phase(name="q", point_group=pg)
        ph.structure = s0
        return ph
    if entry == "setter-twice":
        ph = Phase(name="q", point_group=pg, structure=other_structure())
        ph.structure = s0
        return ph
    if entry == "space_group+setter":
        ph = Phase(name="q", space_group=sg)
        ph.structure = other_structure()
        ph.structure = s0
        return ph
    if entry == "realign":
        return Phase(point_group=pg, structure=Phase(point_group=pg, structure=s0).structure)
    if entry == "deepcopy":
        return Phase(point_group=pg, structure=s0).deepcopy()
    if entry == "phaselist-structures":
        return PhaseList(names=["o", "q"], point_groups=["m-3m", pg], structures=[other_structure(), s0])["q"]
    if entry == "phaselist-phases":
        return PhaseList([Phase("o", point_group="m-3m", structure=other_structure()),
                          Phase("q", space_group=sg, structure=s0)])[1]
    if entry == "phaselist-add":
        pl = PhaseList(Phase("o", point_group="m-3m", structure=other_structure()))
        pl.add(Phase("q", point_group=pg, structure=s0))
        return pl["q"]
    if entry == "phaselist-deepcopy":
        return PhaseList(names=["q", "o"], space_groups=[sg, 225], structures=[s0, other_structure()]).deepcopy()[0]
    if entry == "lattice-from-base":
        s1 = Structure(atoms=[Atom(a.element, a.xyz) for a in s0], lattice=Lattice(base=A0))
        return Phase(point_group=pg, structure=s1)
    raise ValueError(entry)


def check_phase(tag, ph, spec, cart0, rep0):
    """the phase's lattice is the textbook aligned one; atoms kept; conversions through it are the reference maps"""
    abc, ang = spec["abc"], spec["ang"]
    Aref = ref_base(abc, ang)
    Bref = np.linalg.inv(Aref)
    vscale = max(abc)
    tol = 1e-8
    L = ph.structure.lattice
    B = np.array(L.base)
    if not close(B, Aref, tol, vscale):
        fail(f"entry:{tag}:base", f"lattice base of a phase obtained via '{tag}' is not the a||e1, c*||e3 base", rep0)
    if not close(np.array(L.recbase), Bref, tol):
        fail(f"entry:{tag}:recbase", f"reciprocal base of a phase obtained via '{tag}' is not the dual of the aligned base", rep0)
    p1 = np.array(L.abcABG())
    if not (close(p1[:3], abc, tol) and np.all(np.abs(p1[3:] - np.array(ang)) <= 1e-6)):
        fail(f"entry:{tag}:lattice-parameters", f"lattice parameters changed ('{tag}')", rep0)
    frac1 = np.array(ph.structure.xyz).reshape(-1, 3)
    cart1 = np.array(ph.structure.xyz_cartn).reshape(-1, 3)
    if not (close(cart1, cart0, tol, vscale * 3) and close(frac1 @ B, cart0, tol, vscale * 3)):
        fail(f"entry:{tag}:atoms", f"atoms' Cartesian positions changed ('{tag}')", rep0)
    v = gen_indices(3, "int-small", (3,))
    x = np.array([[R.gauss(0, 1) * vscale for _ in range(3)] for _ in range(2)])
    rep = dict(rep0, v=v.tolist(), x=x.tolist())
    try:
        ok = (close(Miller(uvw=v, phase=ph).data, v @ Aref, tol) and close(Miller(hkl=v, phase=ph).data, v @ Bref.T, tol)
              and close(Miller(xyz=x, phase=ph).uvw, x @ Bref, tol) and close(Miller(xyz=x, phase=ph).hkl, x @ Aref.T, tol))
        if not ok:
            fail(f"entry:{tag}:conversion", f"Miller conversions through a phase obtained via '{tag}' are not the reference maps", rep)
        ax = [ph.a_axis, ph.b_axis, ph.c_axis, ph.ar_axis, ph.br_axis, ph.cr_axis]
        refax = [Aref[0], Aref[1], Aref[2], Bref[:, 0], Bref[:, 1], Bref[:, 2]]
        for nm, a, r, f in zip(["a", "b", "c", "ar", "br", "cr"], ax, refax, ["uvw"] * 3 + ["hkl"] * 3):
            if not (a.shape == (1,) and close(a.data[0], r, tol, nz(r))):
                fail(f"axes:{nm}_axis", f"Phase.{nm}_axis is not the {nm} base vector of the aligned lattice", rep0)
            if a.coordinate_format != f:
                fail(f"axes:{nm}_axis:format", f"Phase.{nm}_axis is reported as {a.coordinate_format}", rep0)
    except Exception as e:  # noqa
        fail(f"entry:{tag}:raises:{exc_of(e)}", f"Miller / axes on a phase obtained via '{tag}' raise {exc_of(e)}", rep)


def build(fmt, c, ph, hist, Aref, Bref):
    """a Miller object with coordinates c in format fmt, reached through different histories"""
    if hist == "native":
        return mk(fmt, c, ph)
    x = to_cart(fmt, c, Aref, Bref)
    if hist == "xyz-then-format" or fmt == "xyz":
        m = Miller(xyz=x, phase=ph)
    elif hist == "setter":
        m = Miller(xyz=np.ones(x.shape), phase=ph)
        setattr(m, fmt, c)
    else:  # built in a format of the OTHER space, then switched
        of = {"uvw": "hkl", "UVTW": "hkil", "hkl": "uvw", "hkil": "UVTW"}[fmt]
        m = mk(of, from_cart(of, x, Aref, Bref), ph)
    m.coordinate_format = fmt
    return m


def extra_block(spec, k):
    abc, ang = spec["abc"], spec["ang"]
    scale = spec["scale"]
    rep0 = {"lattice": spec}
    lat0 = Lattice(*abc, *ang, baserot=np.array(spec["baserot"]))
    A0 = lat0.base.copy()
    s0 = Structure(atoms=[Atom("Al", xyz) for xyz in spec["atoms"]], lattice=lat0)
    cart0 = np.array(s0.xyz_cartn).reshape(-1, 3).copy()
    Aref = ref_base(abc, ang)
    Bref = np.linalg.inv(Aref)
    G = ref_metric(abc, ang)
    Gi = np.linalg.inv(G)
    V = abc[0] * abc[1] * abc[2] * vol_factor(*ang)
    tol = 1e-8
    pg = PGS[k % len(PGS)]
    sg = SGS[k % len(SGS)]
    try:
        ph = Phase(point_group=pg, structure=s0)
    except Exception:  # noqa  (small cells: reported by lattice_block as phase:raises:...)
        st("x/skipped-phase-raises")
        return

    # --- (1) secondary entry points / histories that lead to a phase with this structure
    entry = ENTRIES[k % len(ENTRIES)]
    st(f"x/entry/{entry}")
    st(f"x/point_group/{pg}")
    try:
        phe = make_entry(entry, s0, A0, sg, pg)
    except Exception as e:  # noqa
        phe = None
        fail(f"entry:{entry}:raises:{exc_of(e)}:{scale}", f"obtaining a phase via '{entry}' raises {exc_of(e)}", rep0)
    if not np.array_equal(lat0.base, A0) or not close(np.array(s0.xyz_cartn).reshape(-1, 3), cart0, 0, 1):
        fail(f"entry:{entry}:input-mutated", f"'{entry}' modified the caller's structure", rep0)
    if phe is not None:
        check_phase(entry, phe, spec, cart0, dict(rep0, entry=entry, space_group=sg, point_group=pg))
    check_phase("point_group=" + str(pg), ph, spec, cart0, dict(rep0, point_group=pg))
    if phe is not None and k % 2:
        ph = phe                       # use the secondary-entry phase for the vector strata half of the time

    # --- (2) Miller objects: >= 3 axes / size-1 / empty axes, containers, single-index properties, .coordinates
    for _ in range(3):
        n = CTR["obj"]
        CTR["obj"] += 1
        f1 = FORMATS[n % 5]
        shape = SHAPES_X[n % 7]
        kind = KINDS_X[(n // 5 + n) % 6]
        how = CONTAINERS[(n // 7 + n) % 5]
        c1 = gen_indices(NL[f1], kind, shape)
        rep = dict(rep0, format=f1, coords=c1.tolist(), shape=list(shape), container=how, point_group=pg)
        st(f"x/make/{f1}/shape={shape}")
        st(f"x/make/{f1}/{how}")
        xref = to_cart(f1, c1, Aref, Bref)
        try:
            m = mk(f1, contain(c1, how), ph)
        except Exception as e:  # noqa
            fail(f"makex:{f1}:{how}:raises:{exc_of(e)}", f"Miller({f1}=<{how} of shape {shape}+(n,)>) raises {exc_of(e)}", rep)
            continue
        if m.shape != shape:
            fail(f"shape:makex:{f1}", f"Miller({f1}=array of shape {shape}+(n,)) has shape {m.shape}", rep)
            continue
        if not close(m.data, xref, tol, nz(xref)):
            fail(f"makex:{f1}:data", f"Miller({f1}=...) of shape {shape} ({how}) is not the reference linear image", rep)
            continue
        try:
            want = {f: from_cart(f, xref, Aref, Bref) for f in FORMATS}
            for f2 in FORMATS:
                got = np.array(getattr(m, "data" if f2 == "xyz" else f2))
                if got.shape != shape + (NL[f2],):
                    fail(f"shape:coordsx:{f2}", f".{f2} has shape {got.shape} for vectors of shape {shape}", rep)
                elif not close(got, want[f2], tol, nz(want[f2])):
                    fail(f"coordsx:{f2}", f".{f2} of vectors of shape {shape} differs from the reference map", rep)
                m.coordinate_format = f2
                got = np.array(m.coordinates)
                if got.shape != shape + (NL[f2],) or not close(got, want[f2], tol, nz(want[f2])):
                    fail(f"coordinates:{f2}", f".coordinates in format {f2} differs from the reference {f2} coordinates", rep)
                ln = np.array(m.length, float)
                lref = np.sqrt(np.sum(xref ** 2, -1))
                if ln.shape != shape or not close(ln, lref, tol, nz(lref)):
                    fail(f"lengthx:{f2}", f"Miller.length in format {f2} for shape {shape} is not the vector length", rep)
            m.coordinate_format = f1
            for nm, f2, j in [("h", "hkl", 0), ("k", "hkl", 1), ("l", "hkl", 2), ("i", "hkil", 2),
                              ("u", "uvw", 0), ("v", "uvw", 1), ("w", "uvw", 2),
                              ("U", "UVTW", 0), ("V", "UVTW", 1), ("T", "UVTW", 2), ("W", "UVTW", 3)]:
                got = np.array(getattr(m, nm))
                if got.shape != shape or not close(got, want[f2][..., j], tol, nz(want[f2])):
                    fail(f"index:{nm}", f"Miller.{nm} is not component {j} of the reference {f2} coordinates", rep)
            # write path with the same container, then read back in the first format
            for f2 in FORMATS[1:]:
                m3 = Miller(xyz=np.ones(shape + (3,)), phase=ph)
                arr = want[f2]
                setattr(m3, f2, contain(arr, how if how != "float32" else "ndarray"))
                if m3.shape != shape or not close(m3.data, xref, tol, nz(xref)):
                    fail(f"setterx:{f2}", f"setting .{f2} (shape {shape}, {how}) does not reproduce the vector", rep)
        except Exception as e:  # noqa
            fail(f"coordsx:raises:{exc_of(e)}", f"reading/writing coordinates of a shape {shape} Miller raises {exc_of(e)}", rep)

    # --- (3) _transform_space on the extra shapes / containers, all nine pairs cycled
    refM = {("d", "c"): Aref, ("c", "d"): Bref, ("r", "c"): Bref.T, ("c", "r"): Aref.T, ("d", "r"): G, ("r", "d"): Gi}
    L = ph.structure.lattice
    for _ in range(3):
        n = CTR["trans"]
        CTR["trans"] += 1
        si, so = "drc"[(n % 9) // 3], "drc"[n % 3]
        shape = SHAPES_X[n % 7]
        how = CONTAINERS[n % 5]
        v = gen_indices(3, KINDS_X[(n // 9 + n) % 6], shape)
        rep = dict(rep0, v=v.tolist(), space_in=si, space_out=so, container=how)
        st(f"x/trans/{si}->{so}")
        try:
            w = np.asarray(MM._transform_space(contain(v, how), si, so, L))
        except Exception as e:  # noqa
            fail(f"transformx:{si}->{so}:raises:{exc_of(e)}", f"_transform_space raises {exc_of(e)} for a {how} of shape {shape}+(3,)", rep)
            continue
        ref = v.astype(float) if si == so else v.astype(float) @ refM[(si, so)]
        if w.shape != ref.shape:
            fail(f"transformx:{si}->{so}:shape", f"conversion changes the array shape {shape}+(3,) -> {w.shape}", rep)
        elif not close(w, ref, tol, nz(ref)):
            fail(f"transformx:{si}->{so}", f"conversion {si}->{so} of a {how} of shape {shape}+(3,) differs from the reference map", rep)

    # --- (4) dot / dot_outer within a space (metric forms), broadcasting shapes; 4-index zone law
    for _ in range(2):
        n = CTR["dot"]
        CTR["dot"] += 1
        fa, fb = [("uvw", "uvw"), ("hkl", "hkl"), ("UVTW", "uvw"), ("hkil", "hkl"), ("uvw", "UVTW"), ("hkl", "hkil"),
                  ("UVTW", "UVTW"), ("hkil", "hkil"), ("xyz", "uvw"), ("uvw", "xyz"), ("xyz", "xyz")][n % 11]
        sa, sb = BSHAPES[n % 7]
        if (n // 7) % 2:
            sa, sb = sb, sa
        kind = ["int-small", "real", "int-large"][n % 3]
        ca, cb = gen_indices(NL[fa], kind, sa), gen_indices(NL[fb], kind, sb)
        rep = dict(rep0, fa=fa, fb=fb, ca=ca.tolist(), cb=cb.tolist(), point_group=pg)
        st(f"x/dot/{fa}.{fb}")
        st(f"x/dot/shapes={sa}.{sb}")
        xa, xb = to_cart(fa, ca, Aref, Bref), to_cart(fb, cb, Aref, Bref)
        if "xyz" in (fa, fb):
            dref = np.sum(xa * xb, -1)
            oref = np.einsum("...i,...ji->...j", xa.reshape(sa + (1,) * len(sb) + (3,)), xb.reshape((-1, 3))).reshape(sa + sb) \
                if xb.size else np.zeros(sa + sb)
        else:
            M = G if SPACE[fa] == "d" else Gi      # u1 G u2^T  /  h1 G* h2^T from the 3-index triples
            ia, ib = idx3(fa, ca), idx3(fb, cb)
            dref = np.einsum("...i,ij,...j->...", ia, M, ib)
            oref = np.einsum("ai,ij,bj->ab", ia.reshape(-1, 3), M, ib.reshape(-1, 3)).reshape(sa + sb)
        try:
            ma, mb = mk(fa, ca, ph), mk(fb, cb, ph)
            d = np.asarray(ma.dot(mb), float)
            do = np.asarray(ma.dot_outer(mb), float)
        except Exception as e:  # noqa
            fail(f"dotx:{fa}.{fb}:raises:{exc_of(e)}", f"dot / dot_outer of {fa} with {fb} (shapes {sa}, {sb}) raises {exc_of(e)}", rep)
            continue
        sc = nz(xa) * nz(xb)
        if d.shape != dref.shape or not close(d, dref, tol, sc):
            fail(f"dotx:{SPACE[fa]}:metric", f"dot of {fa} with {fb} vectors (shapes {sa}, {sb}) is not the metric form of the indices", rep)
        if do.shape != oref.shape or not close(do, oref, tol, sc):
            fail(f"dot_outer:{SPACE[fa]}:metric", f"dot_outer of {fa} with {fb} vectors (shapes {sa}, {sb}) is not the metric form of all index pairs", rep)
    q1, q2 = gen_indices(4, ["int-small", "real"][k % 2], (3,)), gen_indices(4, ["int-small", "real"][k % 2], (3,))
    st("x/zone-law/4-index")
    try:
        z = np.sum(Miller(UVTW=q1, phase=ph).data * Miller(hkil=q2, phase=ph).data, -1)
        zref = np.sum(q1.astype(float) * q2.astype(float), -1)      # Uh + Vk + Ti + Wl
        z3 = np.sum(idx3("UVTW", q1) * idx3("hkil", q2), -1)        # uh + vk + wl
        if not (close(z, zref, tol, 1 + nz(zref)) and close(z, z3, tol, 1 + nz(z3))):
            fail("zone-law:4-index", "<UVTW, hkil> (Cartesian data) != Uh + Vk + Ti + Wl = uh + vk + wl", dict(rep0, UVTW=q1.tolist(), hkil=q2.tolist()))
    except Exception as e:  # noqa
        fail(f"zone-law:4-index:raises:{exc_of(e)}", f"4-index zone law raises {exc_of(e)}", dict(rep0, UVTW=q1.tolist(), hkil=q2.tolist()))

    # --- (5) cross: all 25 ordered format pairs x construction history x other's phase object x broadcasting
    ph_same = {"same": ph, "deepcopy": ph.deepcopy(),
               "rebuilt": Phase(point_group=ph.point_group, structure=s0)}
    for _ in range(5):
        n = CTR["cross"]
        CTR["cross"] += 1
        fa, fb = FORMATS[(n % 25) // 5], FORMATS[n % 5]
        hist = HISTORIES[n % 4]
        oth = OTHERPH[n % 3]
        sa, sb = BSHAPES[n % 7]
        if (n // 25) % 2:
            sa, sb = sb, sa
        kind = ["int-small", "real", "int-large", "axis"][(n // 25 + n) % 4]
        ca, cb = gen_indices(NL[fa], kind, sa), gen_indices(NL[fb], kind, sb)
        rep = dict(rep0, fa=fa, fb=fb, ca=ca.tolist(), cb=cb.tolist(), history=hist, other_phase=oth, point_group=pg)
        st(f"x/cross/{fa}x{fb}")
        st(f"x/cross/history={hist}/other={oth}")
        xa, xb = to_cart(fa, ca, Aref, Bref), to_cart(fb, cb, Aref, Bref)
        try:
            ma, mb = build(fa, ca, ph, hist, Aref, Bref), build(fb, cb, ph_same[oth], HISTORIES[(n + 1) % 4], Aref, Bref)
        except Exception as e:  # noqa
            fail(f"cross25:build:{hist}:raises:{exc_of(e)}", f"building the operands ({hist}) raises {exc_of(e)}", rep)
            continue
        try:
            mc, err = ma.cross(mb), None
        except Exception as e:  # noqa
            mc, err = None, exc_of(e)
        if SPACE[fa] != SPACE[fb]:
            if mc is not None:
                fail(f"cross25:mixed-space:{fa}x{fb}", "cross of a direct and a reciprocal vector did not raise", rep)
            continue
        if mc is None:
            fail(f"cross25:raises:{fa}x{fb}:{err}", f"Miller.cross raises {err} for {fa} x {fb} (other's phase: {oth}, history: {hist})", rep)
            continue
        cref = np.cross(xa, xb)
        sc = nz(xa) * nz(xb)
        if mc.coordinate_format != DUAL[fa]:
            fail(f"cross25:format:{fa}x{fb}", f"cross of {fa} x {fb} vectors is reported as {mc.coordinate_format}", rep)
        if mc.shape != cref.shape[:-1]:
            fail("cross25:shape", f"cross of shapes {sa} x {sb} has shape {mc.shape}", rep)
            continue
        if not close(mc.data, cref, tol, sc):
            fail("cross25:data", f"cross of {fa} x {fb} is not the Cartesian cross product of the reference vectors", rep)
        if not (close(np.sum(mc.data * xa, -1), np.zeros(cref.shape[:-1]), tol, sc * nz(xa))
                and close(np.sum(mc.data * xb, -1), np.zeros(cref.shape[:-1]), tol, sc * nz(xb))):
            fail("cross25:perpendicular", "cross product is not perpendicular to its factors", rep)
        if fa != "xyz" and fb != "xyz":
            ic = np.cross(idx3(fa, ca), idx3(fb, cb))
            # (parallel factors give an exactly zero reference: the scale is then the rounding of the
            #  Cartesian product carried into the dual indices)
            if SPACE[fa] == "d":
                dual, dref, dsc = mc.hkl, V * ic, sc * nz(Aref)
            else:
                dual, dref, dsc = mc.uvw, ic / V, sc * nz(Bref)
            if not close(dual, dref, tol, max(nz(dref), dsc)):
                fail("cross25:dual-indices", f"dual-space indices of {fa} x {fb} != (i1 x i2) * V^(+-1)", rep)
            got = np.array(mc.coordinates)
            wantc = from_cart(DUAL[fa], cref, Aref, Bref)
            if got.shape != wantc.shape or not close(got, wantc, tol, max(nz(wantc), dsc)):
                fail(f"cross25:coordinates:{fa}", f".coordinates of {fa} x {fb} are not the {DUAL[fa]} coordinates of the product", rep)

    # --- (6) histories: shape operations keep phase + format and act on the coordinates component-wise
    for _ in range(2):
        n = CTR["hist"]
        CTR["hist"] += 1
        op = OPS[n % 11]
        f1 = FORMATS[n % 5]
        shape = [(2, 3), (2, 1, 3), (4,), (1, 2)][n % 4]
        c1 = gen_indices(NL[f1], ["int-small", "real", "int-large"][n % 3], shape)
        if op == "unit":      # avoid the zero vector
            c1[..., -1] = np.where(np.all(c1 == 0, -1), 1, c1[..., -1])
        rep = dict(rep0, op=op, format=f1, coords=c1.tolist(), point_group=pg)
        st(f"x/history/{op}")
        c = np.asarray(c1, float)
        try:
            m = mk(f1, c1, ph)
            if op == "reshape":
                d, cr = m.reshape(*shape[::-1]), c.reshape(shape[::-1] + (NL[f1],))
            elif op == "transpose":
                axes = tuple(range(len(shape)))[::-1]
                d = m.transpose(*axes) if len(shape) != 1 else m.transpose()
                cr = c.transpose(axes + (len(shape),))
            elif op == "flatten":
                d, cr = m.flatten(), c.T.reshape(NL[f1], -1).T      # orix flattens the navigation axes in F order
            elif op == "getitem-int":
                d, cr = m[-1], c[-1]
                if cr.ndim == 1:
                    cr = cr[None]
            elif op == "getitem-slice":
                d, cr = m[..., ::-1], c[..., ::-1, :]
            elif op == "getitem-mask":
                mask = np.zeros(shape, bool)
                mask.flat[::2] = True
                d, cr = m[mask], c[mask]
            elif op == "neg":
                d, cr = -m, -c
            elif op == "deepcopy":
                d, cr = m.deepcopy(), c
            elif op == "unit":
                nrm = np.sqrt(np.sum(to_cart(f1, c, Aref, Bref) ** 2, -1))
                d, cr = m.unit, c / nrm[..., None]
            elif op == "mean":
                d, cr = m.mean(), c.reshape(-1, NL[f1]).mean(0)[None]
            else:  # squeeze
                d, cr = m.squeeze(), np.atleast_2d(c.squeeze())
        except Exception as e:  # noqa
            fail(f"history:{op}:raises:{exc_of(e)}", f"Miller.{op} raises {exc_of(e)} (format {f1}, shape {shape})", rep)
            continue
        if d.coordinate_format != f1:
            fail(f"history:{op}:format", f"after {op}, a {f1} Miller is reported as {d.coordinate_format}", rep)
        if d.phase is None or not close(np.array(d.phase.structure.lattice.base), Aref, tol, max(abc)):
            fail(f"history:{op}:phase", f"after {op}, the Miller's phase lattice is not the aligned lattice", rep)
            continue
        got = np.array(getattr(d, "data" if f1 == "xyz" else f1))
        if got.shape != cr.shape or not close(got, cr, tol, 1 + nz(cr)):
            fail(f"history:{op}:coords", f"after {op}, the {f1} coordinates are not the {op} of the coordinates", rep)
        f2 = FORMATS[(n // 5 + n + 1) % 5]
        got2 = np.array(getattr(d, "data" if f2 == "xyz" else f2))
        want2 = from_cart(f2, to_cart(f1, cr, Aref, Bref), Aref, Bref)
        if got2.shape != want2.shape or not close(got2, want2, tol, nz(want2)):
            fail(f"history:{op}:convert:{f2}", f"after {op}, .{f2} is not the reference conversion of the {f1} coordinates", rep)


def conv4_extra():
    """4-index kernels: list/tuple input, shapes with >= 3 / empty axes, spelling of the convention keyword"""
    for n in range(35):
        shape = SHAPES_X[n % 7]
        how = CONTAINERS[n % 5]
        kind = KINDS_X[n % 6]
        uvw = gen_indices(3, kind, shape)
        q = gen_indices(4, kind, shape)
        rep = {"uvw": uvw.tolist(), "UVTW": q.tolist(), "container": how}
        st(f"x/conv4/{how}/shape={shape}")
        sc = 1 + nz(uvw)
        t12 = 1e-6 if (how == "float32" and uvw.dtype.kind == "i") else 1e-12   # float32 input: float32 arithmetic
        u, v, w = (uvw[..., j].astype(float) for j in range(3))
        refU = np.stack([(2 * u - v) / 3, (2 * v - u) / 3, -(u + v) / 3, w], -1)
        refH = np.stack([u, v, -(u + v), w], -1)
        qf = q.astype(float)
        try:
            for conv, f in [(None, 1.0), ("mtex", 3.0), ("MTEX", 3.0), ("Mtex", 3.0), ("degraef", 1.0)]:
                U = MM._uvw2UVTW(contain(uvw, how), convention=conv)
                if U.shape != refU.shape or not close(U, f * refU, t12, sc):
                    fail(f"conv4x:uvw2UVTW:convention={conv}", f"_uvw2UVTW(convention={conv!r}) of a {how} of shape {shape}+(3,) is not {f} x the definition", rep)
                b = MM._UVTW2uvw(contain(q, how), convention=conv)
                refb = np.stack([2 * qf[..., 0] + qf[..., 1], qf[..., 0] + 2 * qf[..., 1], qf[..., 3]], -1) / f
                if b.shape != refb.shape or not close(b, refb, t12, 1 + nz(q)):
                    fail(f"conv4x:UVTW2uvw:convention={conv}", f"_UVTW2uvw(convention={conv!r}) of a {how} of shape {shape}+(4,) is not the definition / {f}", rep)
                bb = MM._uvw2UVTW(b, convention=conv)
                if not close(bb, qf, t12, 1 + nz(q)):
                    fail(f"conv4x:UVTW->uvw->UVTW:convention={conv}", f"UVTW -> uvw -> UVTW (convention={conv!r}) is not the identity for U+V+T=0", rep)
            H = MM._hkl2hkil(contain(uvw, how))
            if H.shape != refH.shape or not close(H, refH, t12, sc):
                fail("conv4x:hkl2hkil", f"_hkl2hkil of a {how} of shape {shape}+(3,) is not (h, k, -(h+k), l)", rep)
            h3 = MM._hkil2hkl(contain(q, how))
            if h3.shape != shape + (3,) or not close(h3, qf[..., [0, 1, 3]], t12, 1 + nz(q)):
                fail("conv4x:hkil2hkl", f"_hkil2hkl of a {how} of shape {shape}+(4,) is not (h, k, l)", rep)
            MM._check_UVTW(contain(q, how))
            MM._check_hkil(contain(q, how))
        except Exception as e:  # noqa
            fail(f"conv4x:raises:{exc_of(e)}", f"a 4-index kernel raises {exc_of(e)} for a {how} of shape {shape}", rep)


def gen_lattice_x(j):
    """lattice classes missing from gen_lattice: other unique monoclinic axes, gamma = 60, strongly anisotropic
    cells, all-obtuse / all-acute triclinic cells; base rotation cycled"""
    fam = ["monoclinic-c", "monoclinic-a", "hexagonal-60", "anisotropic", "obtuse-triclinic", "acute-triclinic"][j % 6]
    rot = ["random", "axis-swap", "identity", "random-near-pi"][(j // 6 + j) % 4]
    a, b, c = (math.exp(R.uniform(math.log(0.2), math.log(30.0))) for _ in range(3))
    al = be = ga = 90.0
    if fam == "monoclinic-c":
        ga = R.uniform(60, 130)
    elif fam == "monoclinic-a":
        al = R.uniform(60, 130)
    elif fam == "hexagonal-60":
        b, ga = a, 60.0
    else:
        lo, hi = {"anisotropic": (55, 125), "obtuse-triclinic": (95, 118), "acute-triclinic": (50, 80)}[fam]
        while True:
            al, be, ga = R.uniform(lo, hi), R.uniform(lo, hi), R.uniform(lo, hi)
            if vol_factor(al, be, ga) > 0.25:
                break
        if fam == "anisotropic":
            a, b, c = R.uniform(0.2, 0.4), R.uniform(2, 4), R.uniform(60, 90)
            if j % 2:
                a, c = c, a
    if rot == "identity":
        rm = np.eye(3)
    elif rot == "random":
        rm = quat2mat(rand_unit_quat(R))
    elif rot == "random-near-pi":
        ax = np.array(rand_unit_quat(R)[1:])
        ax = ax / np.linalg.norm(ax)
        w = math.pi - 1e-7
        rm = quat2mat([math.cos(w / 2)] + (math.sin(w / 2) * ax).tolist())
    else:
        rm = np.array([[[0, 0, 1], [0, -1, 0], [1, 0, 0]], [[0, 1, 0], [1, 0, 0], [0, 0, -1]],
                       [[1, 0, 0], [0, -1, 0], [0, 0, -1]]][j % 3], float)
    atoms = [[R.uniform(-1, 2) for _ in range(3)] for _ in range([5, 1, 0, 2][j % 4])]
    return {"family": fam, "scale": "normal", "rot": rot, "abc": [a, b, c], "ang": [al, be, ga],
            "baserot": rm.tolist(), "atoms": atoms}


if ONLY is not None:
    lattice_block(ONLY, P.get("nvec", 6))
    for k in range(30):
        extra_block(ONLY, k)
else:
    conv4_cases(max(N, 40))
    specs = []
    for k in range(N):
        specs.append(gen_lattice(k))
        lattice_block(specs[-1], P.get("nvec", 4))
    # audit strata: drawn AFTER the original sequence so that the cases above are unchanged
    conv4_extra()
    for j in range(6 if N < 100 else 60):
        specs.append(gen_lattice_x(j))
        lattice_block(specs[-1], P.get("nvec", 4))
    for k, spec in enumerate(specs):
        extra_block(spec, k)

emit({"cases": cases, "fails": fails, "strata": strata})
