"""C09 implementation harness: observations for the Coq correspondence and the
property oracle, both on the working tree named by PYTHONPATH (/repo).

Cases (for the Coq model):   conv4  align  phase  trans  make  coords  length  cross  dot
Oracle (numpy references computed from the lattice PARAMETERS, not from diffpy's
matrices): canonical aligned base, metric tensors, triclinic d-spacing formula,
zone law in integer arithmetic, index cross products."""
import math

import numpy as np
from common import emit, payload, rand_unit_quat, rng

from diffpy.structure import Atom, Lattice, Structure
from orix.crystal_map import Phase
from orix.crystal_map.phase_list import _new_structure_matrix_from_alignment
from orix.vector import Miller
from orix.vector import miller as MM

P = payload()
R = rng(P.get("seed", 0))
N = P.get("n", 60)               # number of lattices
ONLY = P.get("only")             # replay: a single lattice spec

cases = []
fails = []
strata = {}
EXC = ("ValueError", "KeyError", "LatticeError")


def st(k):
    strata[k] = strata.get(k, 0) + 1


def fail(sig, what, rep):
    fails.append({"sig": sig, "what": what, "replay": rep})


def exc_of(e):
    n = type(e).__name__
    return n if n in EXC else "Other:" + n


def close(a, b, tol=1e-8, scale=None):
    a, b = np.asarray(a, float), np.asarray(b, float)
    if a.shape != b.shape:
        return False
    if a.size == 0:
        return True
    s = scale if scale is not None else max(float(np.max(np.abs(b))), 1e-300)
    return bool(np.all(np.abs(a - b) <= tol * s))


# ------------------------------------------------------------------ generators
def quat2mat(q):
    a, b, c, d = q
    return np.array([[a * a + b * b - c * c - d * d, 2 * (b * c - a * d), 2 * (b * d + a * c)],
                     [2 * (b * c + a * d), a * a - b * b + c * c - d * d, 2 * (c * d - a * b)],
                     [2 * (b * d - a * c), 2 * (c * d + a * b), a * a - b * b - c * c + d * d]])


def vol_factor(al, be, ga):
    ca, cb, cg = (math.cos(math.radians(x)) for x in (al, be, ga))
    v2 = 1 - ca * ca - cb * cb - cg * cg + 2 * ca * cb * cg
    return math.sqrt(v2) if v2 > 0 else 0.0


def gen_lattice(k):
    fam = ["cubic", "tetragonal", "orthorhombic", "hexagonal", "rhombohedral", "monoclinic",
           "triclinic", "triclinic", "near-degenerate"][k % 9]
    scale = ["normal", "normal", "normal", "normal", "large-cell", "small-cell", "normal"][(k // 9 + k) % 7]
    lo, hi = {"normal": (0.2, 30.0), "large-cell": (600.0, 3000.0), "small-cell": (3e-4, 1.5e-3)}[scale]

    def ln():
        return math.exp(R.uniform(math.log(lo), math.log(hi)))
    a, b, c = ln(), ln(), ln()
    al = be = ga = 90.0
    if fam == "cubic":
        b = c = a
    elif fam == "tetragonal":
        b = a
    elif fam == "hexagonal":
        b = a
        ga = 120.0
    elif fam == "rhombohedral":
        b = c = a
        al = be = ga = R.uniform(45, 112)
    elif fam == "monoclinic":
        be = R.uniform(60, 130)
    elif fam in ("triclinic", "near-degenerate"):
        while True:
            al, be, ga = R.uniform(50, 130), R.uniform(50, 130), R.uniform(50, 130)
            v = vol_factor(al, be, ga)
            if (fam == "triclinic" and v > 0.3) or (fam == "near-degenerate" and 0.03 < v < 0.12):
                break
    rot = R.choice(["identity", "random", "random", "axis-swap"])
    if rot == "identity":
        rm = np.eye(3)
    elif rot == "random":
        rm = quat2mat(rand_unit_quat(R))
    else:
        rm = np.array(R.choice([[[0, 1, 0], [0, 0, 1], [1, 0, 0]], [[0, 0, 1], [1, 0, 0], [0, 1, 0]],
                                [[0, -1, 0], [1, 0, 0], [0, 0, 1]], [[-1, 0, 0], [0, -1, 0], [0, 0, 1]]]), float)
    natoms = R.choice([0, 1, 2, 3])
    atoms = [[R.uniform(-1, 2) for _ in range(3)] for _ in range(natoms)]
    return {"family": fam, "scale": scale, "rot": rot, "abc": [a, b, c], "ang": [al, be, ga],
            "baserot": rm.tolist(), "atoms": atoms}


SHAPES = [(), (1,), (3,), (2, 2), (1, 3), (4,), (0,)]


def gen_indices(n_last, kind, shape):
    n = int(np.prod(shape)) if shape != () else 1
    out = []
    for _ in range(n):
        if kind == "int-small":
            v = [R.randint(-5, 5) for _ in range(3)]
        elif kind == "int-large":
            v = [R.randint(-40, 40) for _ in range(3)]
        elif kind == "real":
            v = [R.gauss(0, 3) for _ in range(3)]
        elif kind == "axis":
            v = [0, 0, 0]
            v[R.randrange(3)] = R.choice([1, -1, 2])
        else:  # zero
            v = [0, 0, 0]
        if n_last == 4:
            v = [v[0], v[1], -(v[0] + v[1]), v[2]]   # U+V+T = 0 (exact for ints; to 1 ulp for reals)
        out.append(v)
    arr = np.array(out, dtype=float if kind == "real" else int).reshape(shape + (n_last,))
    return arr


KINDS = ["int-small", "int-small", "int-large", "real", "real", "axis", "zero"]
FORMATS = ["xyz", "uvw", "UVTW", "hkl", "hkil"]
NL = {"xyz": 3, "uvw": 3, "UVTW": 4, "hkl": 3, "hkil": 4}


def flat(a, n):
    return np.asarray(a, float).reshape(-1, n).tolist()


def mk(fmt, arr, phase):
    return Miller(**{fmt: arr, "phase": phase})


# ------------------------------------------------------------------ references
def ref_metric(abc, ang):
    a, b, c = abc
    ca, cb, cg = (math.cos(math.radians(x)) for x in ang)
    return np.array([[a * a, a * b * cg, a * c * cb], [a * b * cg, b * b, b * c * ca], [a * c * cb, b * c * ca, c * c]])


def ref_base(abc, ang):
    """a along x, c* along z (b in the x-y plane), right-handed: textbook form"""
    a, b, c = abc
    ca, cb, cg = (math.cos(math.radians(x)) for x in ang)
    sg = math.sin(math.radians(ang[2]))
    v = a * b * c * vol_factor(*ang)
    return np.array([[a, 0, 0], [b * cg, b * sg, 0], [c * cb, c * (ca - cb * cg) / sg, v / (a * b * sg)]])


def ref_inv_d2(hkl, abc, ang):
    """1/d^2 for a triclinic cell (International Tables formula)"""
    a, b, c = abc
    al, be, ga = (math.radians(x) for x in ang)
    ca, cb, cg = math.cos(al), math.cos(be), math.cos(ga)
    sa, sb, sg = math.sin(al), math.sin(be), math.sin(ga)
    v2 = (a * b * c) ** 2 * (1 - ca * ca - cb * cb - cg * cg + 2 * ca * cb * cg)
    h, k, l = hkl[..., 0], hkl[..., 1], hkl[..., 2]
    s11, s22, s33 = (b * c * sa) ** 2, (a * c * sb) ** 2, (a * b * sg) ** 2
    s12 = a * b * c * c * (ca * cb - cg)
    s23 = a * a * b * c * (cb * cg - ca)
    s13 = a * b * b * c * (cg * ca - cb)
    return (s11 * h * h + s22 * k * k + s33 * l * l + 2 * s12 * h * k + 2 * s23 * k * l + 2 * s13 * h * l) / v2


# ------------------------------------------------------------------ 4-index kernels
def conv4_cases(n):
    for i in range(n):
        kind = R.choice(KINDS)
        shape = R.choice(SHAPES)
        uvw = gen_indices(3, kind, shape)
        U = MM._uvw2UVTW(uvw)
        Um = MM._uvw2UVTW(uvw, convention="mtex")
        back = MM._UVTW2uvw(U)
        backm = MM._UVTW2uvw(Um, convention="mtex")
        hkil = MM._hkl2hkil(uvw)
        hkl = MM._hkil2hkl(hkil)
        q = gen_indices(4, kind, shape)           # a 4-index input of its own
        q_uvw = MM._UVTW2uvw(q)
        q_hkl = MM._hkil2hkl(q)
        cases.append({"k": "conv4", "uvw": flat(uvw, 3), "UVTW": flat(U, 4), "UVTWm": flat(Um, 4),
                      "back": flat(back, 3), "backm": flat(backm, 3), "hkil": flat(hkil, 4),
                      "hkl": flat(hkl, 3), "q": flat(q, 4), "q_uvw": flat(q_uvw, 3), "q_hkl": flat(q_hkl, 3)})
        st(f"conv4/{kind}/ndim={len(shape)}")
        rep = {"uvw": uvw.tolist()}
        if U.shape != shape + (4,) or back.shape != shape + (3,) or hkil.shape != shape + (4,):
            fail("conv4:shape", f"4-index conversion changes the array shape for input shape {shape}", rep)
            continue
        if not close(back, uvw, 1e-12, 1 + np.max(np.abs(uvw), initial=0)):
            fail("conv4:uvw->UVTW->uvw", "uvw -> UVTW -> uvw is not the identity", rep)
        if not close(backm, uvw, 1e-12, 1 + np.max(np.abs(uvw), initial=0)):
            fail("conv4:mtex:uvw->UVTW->uvw", "uvw -> UVTW -> uvw (mtex convention) is not the identity", rep)
        if not close(hkl, uvw, 1e-12, 1 + np.max(np.abs(uvw), initial=0)):
            fail("conv4:hkl->hkil->hkl", "hkl -> hkil -> hkl is not the identity", rep)
        if U.size and np.max(np.abs(U[..., :3].sum(-1))) > 1e-12 * (1 + np.max(np.abs(uvw))):
            fail("conv4:U+V+T", "U + V + T != 0", rep)
        if hkil.size and np.max(np.abs(hkil[..., :3].sum(-1))) > 1e-12 * (1 + np.max(np.abs(uvw))):
            fail("conv4:h+k+i", "h + k + i != 0", rep)
        u, v, w = (uvw[..., j].astype(float) for j in range(3))
        refU = np.stack([(2 * u - v) / 3, (2 * v - u) / 3, -(u + v) / 3, w], -1)
        if not close(U, refU, 1e-12, 1 + np.max(np.abs(uvw), initial=0)):
            fail("conv4:UVTW-definition", "UVTW differs from ((2u-v)/3, (2v-u)/3, -(u+v)/3, w)", rep)
        if not close(MM._uvw2UVTW(q_uvw), q, 1e-12, 1 + np.max(np.abs(q), initial=0)):
            fail("conv4:UVTW->uvw->UVTW", "UVTW -> uvw -> UVTW is not the identity for U+V+T=0", {"UVTW": q.tolist()})
        if not close(MM._hkl2hkil(q_hkl), q, 1e-12, 1 + np.max(np.abs(q), initial=0)):
            fail("conv4:hkil->hkl->hkil", "hkil -> hkl -> hkil is not the identity for h+k+i=0", {"hkil": q.tolist()})


# ------------------------------------------------------------------ one lattice
PAIRS = [("uvw", "uvw"), ("hkl", "hkl"), ("UVTW", "UVTW"), ("hkil", "hkil"), ("xyz", "xyz"),
         ("uvw", "UVTW"), ("hkil", "hkl"), ("uvw", "hkl"), ("xyz", "uvw"), ("hkl", "xyz")]


def lattice_block(spec, nvec):
    fam, scale = spec["family"], spec["scale"]
    abc, ang = spec["abc"], spec["ang"]
    tag = f"{fam}/{scale}/rot={spec['rot']}"
    st("lattice/" + tag)
    rep0 = {"lattice": spec}
    lat0 = Lattice(*abc, *ang, baserot=np.array(spec["baserot"]))
    A0 = lat0.base.copy()
    atoms = [Atom("Al", xyz) for xyz in spec["atoms"]]
    s0 = Structure(atoms=atoms, lattice=lat0)
    cart0 = np.array(s0.xyz_cartn).reshape(-1, 3).copy()
    frac0 = np.array(s0.xyz).reshape(-1, 3).copy()
    vscale = max(abc)

    # --- direct calls of the alignment function, several axis choices
    for _ in range(3):
        choice = R.choice([("a", None, "c*"), ("a", "b*", None), (None, "b", "c*"), ("b", None, "a*"),
                           ("c", "a*", None), ("a*", "b", None), ("a", "b", "c"), ("a", None, None),
                           (None, None, "c*"), ("b*", None, "c"), (None, "c*", "a")])
        try:
            out = _new_structure_matrix_from_alignment(A0.copy(), x=choice[0], y=choice[1], z=choice[2])
            res = {"ok": np.asarray(out, float).tolist()}
        except Exception as e:  # noqa
            res = {"err": exc_of(e)}
        cases.append({"k": "align", "A": A0.tolist(), "axes": list(choice), "res": res, "lattice": spec})
        st("align/" + "-".join(str(x) for x in choice))

    # --- Phase(structure=...)
    try:
        ph = Phase(point_group="1", structure=s0)
        err = None
    except Exception as e:  # noqa
        ph, err = None, exc_of(e)
    if not np.array_equal(lat0.base, A0) or not np.array_equal(np.array(s0.xyz).reshape(-1, 3), frac0):
        fail("align:input-mutated", "Phase(structure=...) modified the caller's structure", rep0)
    if err is not None:
        cases.append({"k": "phase", "A": A0.tolist(), "fracs": frac0.tolist(), "res": {"err": err}, "lattice": spec})
        st("phase/raises/" + err)
        fail(f"phase:raises:{err}:{scale}",
             f"Phase(structure=...) raises {err} for a non-degenerate {fam} lattice ({scale})", rep0)
        return
    L = ph.structure.lattice
    B = np.array(L.base)
    try:
        recm = {"ok": np.array(L.reciprocal().metrics).tolist()}
    except Exception as e:  # noqa
        recm = {"err": exc_of(e)}
    frac1 = np.array(ph.structure.xyz).reshape(-1, 3)
    cases.append({"k": "phase", "A": A0.tolist(), "fracs": frac0.tolist(), "lattice": spec,
                  "res": {"ok": {"base": B.tolist(), "recbase": np.array(L.recbase).tolist(),
                                 "metrics": np.array(L.metrics).tolist(), "recmetrics": recm,
                                 "fracs": frac1.tolist()}}})
    st("phase/ok/atoms=%d" % len(atoms))

    # --- oracle: alignment
    G = ref_metric(abc, ang)
    Aref = ref_base(abc, ang)
    Bref = np.linalg.inv(Aref)
    V = abc[0] * abc[1] * abc[2] * vol_factor(*ang)
    tol = 1e-8
    if not (close(B[0], [abc[0], 0, 0], tol, vscale)):
        fail("align:a-along-e1", "after Phase(structure), the base vector a is not (|a|, 0, 0)", rep0)
    cs = np.array(L.recbase)[:, 2]
    if not (abs(cs[0]) <= tol * abs(cs[2]) and abs(cs[1]) <= tol * abs(cs[2]) and cs[2] > 0):
        fail("align:cstar-along-e3", "after Phase(structure), c* is not along +e3", rep0)
    if not (np.linalg.det(B) > 0 and close(np.linalg.det(B), V, tol)):
        fail("align:right-handed-volume", "aligned base is not right-handed with the cell volume", rep0)
    if not close(B @ B.T, G, tol):
        fail("align:lattice-parameters", "aligned base changes lengths/angles (Gram matrix)", rep0)
    p1 = np.array(L.abcABG())
    if not (close(p1[:3], abc, tol) and np.all(np.abs(p1[3:] - np.array(ang)) <= 1e-6)):
        fail("align:lattice-parameters", "lattice parameters changed by Phase(structure)", rep0)
    if not close(B, Aref, tol, vscale):
        fail("align:canonical-base", "aligned base differs from the textbook a||x, c*||z base", rep0)
    cart1 = np.array(ph.structure.xyz_cartn).reshape(-1, 3)
    # same atoms, now expressed in the rotated frame: positions relative to the lattice are what
    # must be kept -> fractional coordinates unchanged, i.e. cart1 = cart0 * R.  The CODE keeps the
    # Cartesian triples instead (documented in the property): check exactly that.
    if not close(cart1, cart0, tol, max(vscale, 1e-300) * 3):
        fail("align:atoms-cartesian", "atoms' Cartesian coordinates changed by Phase(structure)", rep0)
    if not close(frac1 @ B, cart0, tol, max(vscale, 1e-300) * 3):
        fail("align:atoms-cartesian", "new fractional coordinates x new base != old Cartesian positions", rep0)
    if not (close(B @ np.array(L.recbase), np.eye(3), tol) and close(np.array(L.recbase) @ B, np.eye(3), tol)):
        fail("duality:base-recbase", "base . recbase != identity", rep0)
    axd = [ph.a_axis, ph.b_axis, ph.c_axis]
    axr = [ph.ar_axis, ph.br_axis, ph.cr_axis]
    D = np.array([[float(np.sum(x.data * y.data)) for y in axr] for x in axd])
    if not close(D, np.eye(3), tol, 1.0):
        fail("duality:axes", "a_i . a*_j != delta_ij for the phase's axes", rep0)
    if not close(np.array(L.metrics), G, tol):
        fail("metric:direct", "lattice.metrics differs from the parameter formula", rep0)

    # --- _transform_space, all nine pairs
    refM = {("d", "c"): Aref, ("c", "d"): Bref, ("r", "c"): Bref.T, ("c", "r"): Aref.T,
            ("d", "r"): G, ("r", "d"): np.linalg.inv(G)}
    for si in "drc":
        for so in "drc":
            kind = R.choice(KINDS)
            shape = R.choice(SHAPES)
            v = gen_indices(3, kind, shape)
            try:
                w = MM._transform_space(v, si, so, L)
                res = {"ok": flat(w, 3)}
            except Exception as e:  # noqa
                w, res = None, {"err": exc_of(e)}
            cases.append({"k": "trans", "A": B.tolist(), "si": si, "so": so, "v": flat(v, 3), "res": res,
                          "lattice": spec})
            st(f"trans/{si}->{so}")
            rep = dict(rep0, v=v.tolist(), space_in=si, space_out=so)
            if w is None:
                fail(f"transform:{si}->{so}:raises:{res['err']}:{scale}",
                     f"_transform_space raises {res['err']} converting {si}->{so} on a {scale} lattice", rep)
                continue
            if w.shape != v.shape:
                fail(f"transform:{si}->{so}:shape", "conversion changes the array shape", rep)
                continue
            ref = v.astype(float) if si == so else v.astype(float) @ refM[(si, so)]
            if not close(w, ref, tol, max(float(np.max(np.abs(ref), initial=0)), 1e-300)):
                fail(f"transform:{si}->{so}", f"conversion {si}->{so} differs from the reference linear map", rep)

    # --- Miller objects
    for _ in range(nvec):
        f1 = R.choice(FORMATS)
        kind = R.choice(KINDS)
        shape = R.choice(SHAPES)
        c1 = gen_indices(NL[f1], kind, shape)
        rep = dict(rep0, format=f1, coords=c1.tolist())
        try:
            m = mk(f1, c1, ph)
            res = {"ok": flat(m.data, 3)}
        except Exception as e:  # noqa
            m, res = None, {"err": exc_of(e)}
        cases.append({"k": "make", "A": B.tolist(), "f": f1, "c": flat(c1, NL[f1]), "res": res, "lattice": spec})
        st(f"make/{f1}/{kind}/ndim={len(shape)}")
        if m is None:
            fail(f"make:{f1}:raises:{res['err']}", f"Miller({f1}=...) raises {res['err']} on well-formed input", rep)
            continue
        if m.shape != shape and not (shape == () and m.shape == (1,)):
            fail(f"shape:make:{f1}", f"Miller({f1}=array of shape {shape}+(n,)) has shape {m.shape}", rep)
        cscale = 1 + float(np.max(np.abs(c1), initial=0))
        # every format out, back in, and back to f1
        outs = {}
        for f2 in FORMATS:
            try:
                c2 = getattr(m, "data" if f2 == "xyz" else f2)
                outs[f2] = np.array(c2)
            except Exception as e:  # noqa
                fail(f"coords:{f2}:raises:{exc_of(e)}", f"reading .{f2} raises {exc_of(e)}", rep)
                continue
            if c2.shape != m.shape + (NL[f2],):
                fail(f"shape:coords:{f2}", f".{f2} has shape {c2.shape} for vectors of shape {m.shape}", rep)
                continue
            try:
                m2 = mk(f2, c2, ph)
                c1b = np.array(getattr(m2, "data" if f1 == "xyz" else f1)).reshape(c1.shape if shape != () else (1, NL[f1]))
            except Exception as e:  # noqa
                fail(f"roundtrip:{f1}->{f2}:raises:{exc_of(e)}",
                     f"{f1} -> {f2} -> {f1} raises {exc_of(e)}", rep)
                continue
            if not close(m2.data, m.data, tol, max(float(np.max(np.abs(m.data), initial=0)), 1e-300)):
                fail(f"roundtrip:{f1}->{f2}", f"vector rebuilt from its {f2} coordinates differs", rep)
            if not close(c1b.reshape(-1), np.asarray(c1, float).reshape(-1), tol, cscale):
                fail(f"roundtrip:{f1}->{f2}", f"{f1} -> {f2} -> {f1} changes the coordinates", rep)
            # setter path
            if f2 != "xyz":
                m3 = Miller(xyz=np.zeros(m.shape + (3,)), phase=ph)
                try:
                    setattr(m3, f2, c2)
                    if not close(m3.data, m.data, tol, max(float(np.max(np.abs(m.data), initial=0)), 1e-300)):
                        fail(f"setter:{f2}", f"setting .{f2} does not reproduce the vector", rep)
                except Exception as e:  # noqa
                    fail(f"setter:{f2}:raises:{exc_of(e)}", f"setting .{f2} raises {exc_of(e)}", rep)
        cases.append({"k": "coords", "A": B.tolist(), "x": flat(m.data, 3), "lattice": spec,
                      "out": {f: flat(outs[f], NL[f]) for f in outs}})
        st("coords")
        if "UVTW" in outs and outs["UVTW"].size and np.max(np.abs(outs["UVTW"][..., :3].sum(-1))) > 1e-9 * (
                1 + np.max(np.abs(outs["UVTW"]))):
            fail("UVTW:sum", "U + V + T != 0 on a Miller object", rep)
        if "hkil" in outs and outs["hkil"].size and np.max(np.abs(outs["hkil"][..., :3].sum(-1))) > 1e-9 * (
                1 + np.max(np.abs(outs["hkil"]))):
            fail("hkil:sum", "h + k + i != 0 on a Miller object", rep)
        # metric forms / lengths (independent of diffpy's matrices)
        x2 = np.sum(m.data ** 2, -1)
        if "uvw" in outs:
            u = outs["uvw"]
            if not close(np.einsum("...i,ij,...j", u, G, u), x2, tol, max(float(np.max(x2, initial=0)), 1e-300)):
                fail("length:direct-metric", "|uvw A|^2 != uvw G uvw^T", rep)
        if "hkl" in outs:
            h = outs["hkl"]
            if not close(ref_inv_d2(h, abc, ang), x2, tol, max(float(np.max(x2, initial=0)), 1e-300)):
                fail("length:reciprocal-dspacing", "|hkl B^T|^2 != 1/d_hkl^2 (triclinic formula)", rep)
        lens = {}
        for f2 in FORMATS:
            m.coordinate_format = f2
            try:
                ln = np.array(m.length, float)
                lens[f2] = ln.reshape(-1).tolist()
                if not close(ln, np.sqrt(x2), tol, max(float(np.max(np.sqrt(x2), initial=0)), 1e-300)):
                    fail(f"length:{f2}", f"Miller.length in format {f2} is not the vector length", rep)
            except Exception as e:  # noqa
                fail(f"length:{f2}:raises:{exc_of(e)}", f"Miller.length raises {exc_of(e)} in format {f2}", rep)
        m.coordinate_format = f1
        cases.append({"k": "length", "A": B.tolist(), "x": flat(m.data, 3), "out": lens, "lattice": spec})
        st("length")

    # --- zone law, cross, dot
    for _ in range(max(nvec // 2, 2)):
        kind = R.choice(["int-small", "int-large", "real", "axis"])
        shape = R.choice([(1,), (3,), (2, 2)])
        u1, u2 = gen_indices(3, kind, shape), gen_indices(3, kind, shape)
        rep = dict(rep0, i1=u1.tolist(), i2=u2.tolist())
        md, mr = Miller(uvw=u1, phase=ph), Miller(hkl=u2, phase=ph)
        z = np.sum(md.data * mr.data, -1)
        zref = np.sum(u1.astype(float) * u2.astype(float), -1)
        if not close(z, zref, tol, 1 + float(np.max(np.abs(zref), initial=0))):
            fail("zone-law", "<uvw, hkl> (Cartesian data) != uh + vk + wl", rep)
        st(f"zone-law/{kind}")
        for fa, fb in R.sample(PAIRS, 4):
            ma, mb = Miller(uvw=u1, phase=ph), Miller(uvw=u2, phase=ph)
            if fa in ("hkl", "hkil"):
                ma = Miller(hkl=u1, phase=ph)
            if fb in ("hkl", "hkil"):
                mb = Miller(hkl=u2, phase=ph)
            ma.coordinate_format, mb.coordinate_format = fa, fb
            same_space = ma.space == mb.space
            try:
                mc = ma.cross(mb)
                res = {"ok": {"f": mc.coordinate_format, "x": flat(mc.data, 3)}}
            except Exception as e:  # noqa
                mc, res = None, {"err": exc_of(e)}
            cases.append({"k": "cross", "fa": fa, "fb": fb, "xa": flat(ma.data, 3), "xb": flat(mb.data, 3),
                          "res": res, "lattice": spec})
            st(f"cross/{fa}x{fb}")
            try:
                dres = {"ok": np.array(ma.dot(mb), float).reshape(-1).tolist()}
            except Exception as e:  # noqa
                dres = {"err": exc_of(e)}
            cases.append({"k": "dot", "fa": fa, "fb": fb, "xa": flat(ma.data, 3), "xb": flat(mb.data, 3),
                          "res": dres, "lattice": spec})
            if not same_space:
                if mc is not None:
                    fail(f"cross:mixed-space:{fa}x{fb}", "cross of a direct and a reciprocal vector did not raise", rep)
                continue
            if mc is None:
                fail(f"cross:raises:{fa}:{res['err']}",
                     f"Miller.cross raises {res['err']} for vectors in format {fa}", dict(rep, fa=fa, fb=fb))
                continue
            xs = max(float(np.max(np.abs(ma.data), initial=0)) * float(np.max(np.abs(mb.data), initial=0)), 1e-300)
            if not (close(np.sum(mc.data * ma.data, -1), 0 * z, tol, xs * max(float(np.max(np.abs(ma.data))), 1e-300))
                    and close(np.sum(mc.data * mb.data, -1), 0 * z, tol, xs * max(float(np.max(np.abs(mb.data))), 1e-300))):
                fail("cross:perpendicular", "cross product is not perpendicular to its factors", rep)
            # lattice formats go to the dual space; Cartesian vectors stay Cartesian
            dual = {"uvw": "hkl", "hkl": "uvw", "UVTW": "hkil", "hkil": "UVTW", "xyz": "xyz"}
            if mc.coordinate_format != dual[fa]:
                fail(f"cross:format:{fa}", f"cross of {fa} vectors is reported as {mc.coordinate_format}", rep)
            if mc.shape != ma.shape:
                fail("shape:cross", "cross product changes the shape", rep)
            ic = np.cross(u1.astype(float), u2.astype(float))
            if fa in ("uvw", "UVTW"):
                if not close(mc.hkl, V * ic, tol, max(V * float(np.max(np.abs(ic), initial=0)), 1e-300)):
                    fail("cross:dual-indices", "(hkl) of [u1]x[u2] != V (u1 x u2)", rep)
            elif fa in ("hkl", "hkil"):
                if not close(mc.uvw, ic / V, tol, max(float(np.max(np.abs(ic), initial=0)) / V, 1e-300)):
                    fail("cross:dual-indices", "[uvw] of (h1)x(h2) != (h1 x h2) / V", rep)
            else:  # xyz: the Cartesian cross product of the Cartesian data
                if not close(mc.data, np.cross(ma.data, mb.data), tol, xs):
                    fail("cross:xyz-data", "cross of xyz vectors is not the Cartesian cross product", rep)

    # --- inconsistent 4-index input must be rejected by the constructor
    for f in ("UVTW", "hkil"):
        bad = np.array([[1, 1, 1, 0], [1, 0, -1, 2]])
        try:
            mk(f, bad, ph)
            res = {"ok": []}
            fail(f"make:{f}:inconsistent-accepted", f"Miller({f}=...) accepts indices whose first three do not sum to 0", rep0)
        except Exception as e:  # noqa
            res = {"err": exc_of(e)}
        cases.append({"k": "make", "A": B.tolist(), "f": f, "c": flat(bad, 4), "res": res, "lattice": spec})
        st(f"make/{f}/inconsistent")


if ONLY is not None:
    lattice_block(ONLY, P.get("nvec", 6))
else:
    conv4_cases(max(N, 40))
    for k in range(N):
        lattice_block(gen_lattice(k), P.get("nvec", 4))

emit({"cases": cases, "fails": fails, "strata": strata})
