"""C16 implementation harness (runs under /venv python with PYTHONPATH=/repo).

Generates structured cases (class x shape stratum x flags x metadata x random
program of structural operations), runs them step by step on the
implementation, and emits

* ``cases``: initial object, the operations and the implementation's outcome
  after every step (for the Coq correspondence with the faithful model), and
  azimuth read cases;
* ``fails``: violations of the PROPERTY found by the oracle (numpy reference on
  an index array, per step, starting from the operand the implementation
  really has), each with a stable signature ``<Class>.<op>:<aspect>``.
"""
import copy
import inspect
import itertools

import numpy as np
from common import emit, payload, rng

from diffpy.structure import Lattice, Structure
from orix.crystal_map import Phase
from orix.quaternion import Misorientation, Orientation, Quaternion, Rotation
from orix.quaternion import symmetry as osym
from orix.vector import Miller, Vector3d

P = payload()
R = rng(P.get("seed", 0))
N = P.get("n", 200)
ONLY = P.get("only")          # replay: list of explicit cases
EXH = P.get("exhaustive")    # thorough tier: explicit list of programs run on every class x small shape
TOL = 1e-9

CLASSES = {"Quaternion": Quaternion, "Rotation": Rotation, "Misorientation": Misorientation,
           "Orientation": Orientation, "Vector3d": Vector3d, "Miller": Miller}
ROT = ("Rotation", "Misorientation", "Orientation")
QUAT = ("Quaternion",) + ROT
SYMS = [osym.C1, osym.C2, osym.C4, osym.D6, osym.O, osym.Oh, osym.D3d]
SYM_ID = {s.name: i for i, s in enumerate(SYMS)}
FMTS = ["xyz", "uvw", "hkl", "UVTW", "hkil"]
PHASES = [None,
          Phase(name="cub", point_group="m-3m", structure=Structure(lattice=Lattice(3, 3, 3, 90, 90, 90))),
          Phase(name="hex", point_group="6/mmm", structure=Structure(lattice=Lattice(3.2, 3.2, 5.1, 90, 90, 120))),
          # ids 3, 4: only used by the Miller metadata stratum (pick_meta draws from the first N_MAIN_PHASES)
          Phase(name="sg225", space_group=225, structure=Structure(lattice=Lattice(4, 4, 4, 90, 90, 90))),
          Phase(name="pgonly", point_group="4/mmm")]
N_MAIN_PHASES = 3

SHAPES = {
    "1d": [(1,), (2,), (3,), (5,), (7,)],
    "2d": [(2, 3), (3, 2), (2, 2), (4, 3)],
    "size1": [(1, 3), (3, 1), (1, 1), (2, 1, 3), (1, 2, 1), (1, 1, 4), (1, 3, 2, 1), (2, 1, 1, 3)],
    "empty": [(0,), (0, 2), (2, 0), (1, 0), (0, 1, 3)],
    "3d": [(2, 3, 2), (3, 2, 2), (2, 2, 4)],
    "4d": [(2, 3, 4, 2), (2, 3, 2, 2), (3, 1, 2, 2), (2, 2, 3, 1)],
    "5d": [(2, 2, 3, 2, 2), (1, 2, 3, 2, 1), (2, 3, 1, 2, 2)],
}
STRATA_W = [("1d", 3), ("2d", 4), ("size1", 4), ("empty", 2), ("3d", 3), ("4d", 3), ("5d", 1)]

cases, fails, strata = [], [], {}


def st(k):
    strata[k] = strata.get(k, 0) + 1


def fail(sig, what, rep):
    fails.append({"sig": sig, "what": what, "replay": rep})


# ------------------------------------------------------------------ objects
def sg_number(ph):
    return None if ph.space_group is None else int(ph.space_group.number)


def phase_id(ph):
    if ph is None:
        return 0
    for i, q in enumerate(PHASES):
        if q is None:
            continue
        try:
            if (ph.point_group.name == q.point_group.name and ph.name == q.name and
                    sg_number(ph) == sg_number(q) and
                    np.allclose(ph.structure.lattice.abcABG(), q.structure.lattice.abcABG())):
                return i
        except Exception:
            return -1
    return -1


def meta_of(o):
    """(symL, symR, phase, fmt) ids; -1 = something not in the tables"""
    m = [0, 0, 0, 0]
    if isinstance(o, Misorientation):
        s = o._symmetry
        m[0] = SYM_ID.get(s[0].name, -1)
        m[1] = SYM_ID.get(s[1].name, -1)
    if isinstance(o, Miller):
        m[2] = phase_id(o.phase)
        m[3] = FMTS.index(o.coordinate_format) if o.coordinate_format in FMTS else -1
    return m


def snap(o):
    dim = o.dim
    d = np.array(o._data, dtype=float, copy=True)
    shape = tuple(o.shape)
    rows = d.reshape(-1, d.shape[-1]) if d.size else d.reshape(0, d.shape[-1])
    data = rows[:, :dim]
    if rows.shape[1] > dim:
        flags = rows[:, -1] != 0
    else:
        flags = np.zeros(len(rows), bool)
    return {"cls": type(o).__name__, "shape": list(shape), "data": data.tolist(),
            "flags": [bool(x) for x in flags], "meta": meta_of(o)}


def rand_data(n, dim, kind):
    a = np.array([[R.gauss(0, 1) for _ in range(dim)] for _ in range(n)], float).reshape(n, dim)
    if kind == "tiny" and n:
        for _ in range(max(1, n // 2)):
            i, j = R.randrange(n), R.randrange(dim)
            a[i, j] = R.choice([1e-9, -5e-10, 3e-12, 9e-9, -1e-8, 0.0])
    if kind == "zero" and n:
        a[R.randrange(n)] = 0.0
    return a


def build(cname, shape, flagmode, meta, kind):
    cls = CLASSES[cname]
    n = int(np.prod(shape))
    dim = cls.dim
    if cname in ROT and kind == "zero":
        kind = "plain"              # zero quaternions are NaN after normalisation: out of the domain
    d = rand_data(n, dim, kind).reshape(tuple(shape) + (dim,))
    if cname == "Miller":
        o = Miller(xyz=d, phase=PHASES[meta[2]])
        o.coordinate_format = FMTS[meta[3]]
    elif cname == "Misorientation":
        o = Misorientation(d, symmetry=(SYMS[meta[0]], SYMS[meta[1]]))
    elif cname == "Orientation":
        o = Orientation(d, symmetry=SYMS[meta[1]])
    else:
        o = cls(d)
    if cname in ROT:
        if flagmode == "mixed":
            fl = np.array([R.random() < 0.5 for _ in range(n)], bool).reshape(shape)
        elif flagmode == "all":
            fl = np.ones(shape, bool)
        else:
            fl = np.zeros(shape, bool)
        o.improper = fl
    return o


def with_layout(d, layout):
    """the same values in another memory layout / with other array flags"""
    if layout == "F":
        return np.asfortranarray(d)
    if layout == "strided":            # every second entry of a larger array, along the first and the last axis
        big = np.full((2 * d.shape[0],) + d.shape[1:-1] + (2 * d.shape[-1],), 77.0, dtype=d.dtype)
        big[::2, ..., ::2] = d
        return big[::2, ..., ::2]
    if layout == "readonly":
        d = d.copy()
        d.flags.writeable = False
        return d
    if layout == "broadcast":          # one element repeated with zero strides (read-only)
        return np.broadcast_to(d.reshape(-1, d.shape[-1])[0].copy(), d.shape) if d.size else d
    raise ValueError(layout)


def rebuild(s, dtype=None, layout=None):
    """object from a snapshot (replay); dtype / layout: how the data array is handed over"""
    cls = CLASSES[s["cls"]]
    shape = tuple(s["shape"])
    d = np.array(s["data"], float).reshape(shape + (cls.dim,))
    if dtype:
        d = d.astype(np.dtype(dtype))
    if layout:
        d = with_layout(d, layout)
    m = s["meta"]
    if s["cls"] == "Miller":
        o = Miller(xyz=d, phase=PHASES[m[2]])
        o.coordinate_format = FMTS[m[3]]
    elif s["cls"] == "Misorientation":
        o = Misorientation(d, symmetry=(SYMS[m[0]], SYMS[m[1]]))
    elif s["cls"] == "Orientation":
        o = Orientation(d, symmetry=SYMS[m[1]])
    else:
        o = cls(d)
    if s["cls"] in ROT:
        o.improper = np.array(s["flags"], bool).reshape(shape)
    return o


# --------------------------------------------------------------------- keys
def adv_item(it):
    """one element of an 'adv' key descriptor (JSON) -> the Python index object"""
    t = it[0]
    if t == "e":
        return Ellipsis
    if t == "n":
        return None
    if t == "i":
        return int(it[1])
    if t == "I":
        return np.int64(it[1])
    if t == "s":
        return slice(it[1], it[2], it[3])
    if t == "l":
        return [int(i) for i in it[1]]
    if t == "a":
        return np.array(it[1], dtype=np.int64)
    if t == "b":
        return [bool(b) for b in it[1]]
    if t == "m":
        return np.array(it[1], dtype=bool)
    raise ValueError(it)


def py_key(k):
    if k["t"] == "adv":
        items = [adv_item(it) for it in k["items"]]
        return items[0] if k.get("bare") else tuple(items)
    if k["t"] == "basic":
        items = []
        for it in k["items"]:
            items.append(int(it[1]) if it[0] == "i" else slice(it[1], it[2], it[3]))
        if len(items) == 1 and k.get("bare"):
            return items[0]
        return tuple(items)
    if k["t"] == "ellip":
        def conv(l):
            return [int(it[1]) if it[0] == "i" else slice(it[1], it[2], it[3]) for it in l]
        return tuple(conv(k["before"]) + [Ellipsis] + conv(k["after"]))
    if k["t"] == "mask":
        return np.array(k["bits"], bool).reshape(k["mshape"])
    return [int(i) for i in k["ix"]]


def gen_slice(n):
    c = R.choice([None, None, 1, 2, -1, -2, 3])
    lo, hi = -n - 2, n + 2
    a = R.choice([None, None, R.randint(lo, hi)])
    b = R.choice([None, None, R.randint(lo, hi)])
    return ["s", a, b, c]


def gen_key(shape, bad=False):
    nd = len(shape)
    if bad:
        how = R.choice(["oob", "toomany"])
        if how == "oob" or 0 in shape:
            ax = R.randrange(nd)
            items = [["s", None, None, None] for _ in range(ax)] + [["i", R.choice([shape[ax], -shape[ax] - 1, shape[ax] + 3])]]
            return {"t": "basic", "items": items}
        return {"t": "basic", "items": [["i", 0] for _ in range(nd + 1)]}
    t = R.choice(["basic", "basic", "basic", "mask", "fancy"])
    if t == "basic":
        m = R.randint(1, nd)
        items = []
        for ax in range(m):
            n = shape[ax]
            if n > 0 and R.random() < 0.45:
                items.append(["i", R.randint(-n, n - 1)])
            else:
                items.append(gen_slice(n))
        return {"t": "basic", "items": items, "bare": m == 1 and R.random() < 0.7}
    if t == "mask":
        m = R.randint(1, nd)
        ms = list(shape[:m])
        nb = int(np.prod(ms))
        mode = R.choice(["rand", "rand", "none", "all"])
        bits = [(R.random() < 0.5) if mode == "rand" else (mode == "all") for _ in range(nb)]
        return {"t": "mask", "mshape": ms, "bits": bits}
    n = shape[0]
    if n == 0:
        return {"t": "basic", "items": [gen_slice(0)], "bare": True}
    return {"t": "fancy", "ix": [R.randint(-n, n - 1) for _ in range(R.randint(1, 4))]}


def factorizations(n):
    out = [[n]]
    for a in range(1, n + 1):
        if n % a == 0:
            out.append([a, n // a])
            for b in range(1, n // a + 1):
                if (n // a) % b == 0:
                    out.append([a, b, n // a // b])
    return out


def gen_op(cname, shape, bad=False):
    nd = len(shape)
    n = int(np.prod(shape))
    if bad:
        how = R.choice(["get", "get", "reshape", "transpose", "stack0"])
        if how == "get":
            return {"op": "get", "key": gen_key(shape, bad=True)}
        if how == "reshape":
            return {"op": "reshape", "dims": R.choice([[n + 1], [-1, -1], [2, n + 3], [-2, 1]]), "tup": False}
        if how == "transpose" and nd >= 2:
            if nd >= 3 and R.random() < 0.4:
                return {"op": "transpose", "axes": None}
            return {"op": "transpose", "axes": R.choice([[0] * nd, list(range(nd - 1)), list(range(nd + 1))])}
        return {"op": "stack", "vs": []}
    w = ["get"] * 5 + ["reshape"] * 3 + ["flatten"] * 3 + ["transpose"] * 4 + ["squeeze"] * 2 + \
        ["stack"] * 2 + ["unit", "neg", "inv"]
    k = R.choice(w)
    if k == "inv" and cname not in QUAT and R.random() < 0.8:
        k = "neg"
    if k == "get":
        return {"op": "get", "key": gen_key(shape)}
    if k == "reshape":
        dims = list(R.choice(factorizations(n)))
        R.shuffle(dims)
        if R.random() < 0.3:
            dims.insert(R.randrange(len(dims) + 1), 1)
        if n > 0 and R.random() < 0.3:
            dims[R.randrange(len(dims))] = -1
        return {"op": "reshape", "dims": dims, "tup": R.random() < 0.5}
    if k == "transpose":
        if nd == 2 and R.random() < 0.5:
            return {"op": "transpose", "axes": None}
        if nd == 1 and R.random() < 0.5:
            return {"op": "transpose", "axes": None}
        ax = list(range(nd))
        R.shuffle(ax)
        return {"op": "transpose", "axes": ax}
    if k == "stack":
        opts = ["id", "neg", "unit"] + (["inv"] if cname in QUAT else [])
        return {"op": "stack", "vs": [R.choice(opts) for _ in range(R.randint(1, 3))]}
    return {"op": k}


# ------------------------------------------------------- reference semantics
def measure_flatten_order(cls):
    """C or F, measured on a 2-D object of the class (no order is hard coded)"""
    d = np.arange(6 * cls.dim, dtype=float).reshape(2, 3, cls.dim) + 1.0
    o = Quaternion(d) if cls.dim == 4 else Vector3d(d)
    f = o.flatten().data
    for order in ("C", "F"):
        idx = np.arange(6).reshape(2, 3).reshape(-1, order=order)
        if np.array_equal(f, d.reshape(-1, cls.dim)[idx]):
            return order
    return None


ORDER = {n: measure_flatten_order(c) for n, c in CLASSES.items()}


class Expect(Exception):
    """the reference says the operation is an error"""


def ref_eop(cname, e, data, flags):
    if e == "id":
        return data, flags
    if e == "unit":
        with np.errstate(divide="ignore", invalid="ignore"):
            nrm = np.sqrt(np.sum(data * data, axis=-1))
            return np.nan_to_num(data / nrm[..., None]), flags
    if e == "inv":
        if cname not in QUAT:
            raise Expect()
        n2 = np.sum(data * data, axis=-1)[..., None]
        c = data * np.array([1.0, -1.0, -1.0, -1.0])
        return c / n2, flags
    if e == "neg":
        if cname in ROT:
            return data, ~flags
        return -data, flags
    raise ValueError(e)


def ref_step(cname, op, s):
    """expected (shape, data(N,dim), flags(N), meta or None) from the snapshot s"""
    shape = tuple(s["shape"])
    n = int(np.prod(shape))
    data = np.array(s["data"], float).reshape(n, -1) if n else np.zeros((0, CLASSES[cname].dim))
    flags = np.array(s["flags"], bool).reshape(n)
    idx = np.arange(n).reshape(shape)
    meta = list(s["meta"])
    k = op["op"]
    if k == "invm":
        k = "inv"
    if k == "stackwith":
        parts = []
        for x in op["others"]:
            nx = len(x["flags"])
            parts.append((np.array(x["data"], float).reshape(nx, -1) if nx else np.zeros((0, data.shape[1])),
                          np.array(x["flags"], bool).reshape(nx)))
        parts.insert(op["pos"], (data, flags))
        if any(len(p[1]) != n for p in parts):
            raise Expect()
        d2 = np.stack([p[0] for p in parts], axis=1).reshape(n * len(parts), data.shape[1])
        f2 = np.stack([p[1] for p in parts], axis=1).reshape(n * len(parts))
        return shape + (len(parts),), d2, f2, None
    if k in ("unit", "inv", "neg"):
        d2, f2 = ref_eop(cname, k, data, flags)
        if k == "inv" and cname == "Misorientation":
            meta = [meta[1], meta[0], meta[2], meta[3]]
        return shape, d2, f2, meta
    if k == "stack":
        vs = op["vs"]
        if not vs:
            raise Expect()
        parts = [ref_eop(cname, e, data, flags) for e in vs]
        d2 = np.stack([p[0] for p in parts], axis=1).reshape(n * len(vs), -1)
        f2 = np.stack([p[1] for p in parts], axis=1).reshape(n * len(vs))
        return shape + (len(vs),), d2, f2, None
    try:
        if k == "get":
            j = np.atleast_1d(idx[py_key(op["key"])])
        elif k == "reshape":
            if len(op["dims"]) == 0:
                raise Expect()
            j = idx.reshape(tuple(op["dims"]))
        elif k == "flatten":
            if ORDER[cname] is None:
                raise Expect()
            j = idx.reshape(-1, order=ORDER[cname])
        elif k == "transpose":
            if len(shape) == 1:
                j = idx
            elif op["axes"] is None:
                if len(shape) != 2:
                    raise Expect()
                j = idx.T
            else:
                if len(op["axes"]) != len(shape):
                    raise Expect()
                j = idx.transpose(op["axes"])
        elif k == "squeeze":
            j = np.atleast_1d(idx.squeeze())
        else:
            raise ValueError(k)
    except (IndexError, ValueError, TypeError):
        raise Expect()
    jj = j.reshape(-1)
    return tuple(j.shape), data[jj], flags[jj], meta


def apply_eop(o, e):
    if e == "id":
        return o
    if e == "unit":
        return o.unit
    if e == "inv":
        return ~o
    if e == "neg":
        return -o
    raise ValueError(e)


def apply_op(o, op):
    k = op["op"]
    if k == "get":
        return o[py_key(op["key"])]
    if k == "reshape":
        return o.reshape(tuple(op["dims"])) if op.get("tup") else o.reshape(*op["dims"])
    if k == "flatten":
        return o.flatten()
    if k == "transpose":
        return o.transpose() if op["axes"] is None else o.transpose(*op["axes"])
    if k == "squeeze":
        return o.squeeze()
    if k == "stack":
        return type(o).stack([apply_eop(o, e) for e in op["vs"]])
    if k == "invm":
        return o.inv()
    if k == "stackwith":
        # stack with independent objects (own data, own flags); none of them may change
        others = [rebuild(x) for x in op["others"]]
        sb = [snap(x) for x in others]
        seq = list(others)
        seq.insert(op["pos"], o)
        res = type(o).stack(tuple(seq) if op["seq"] == "tuple" else seq)
        if any(not same_snap(a, snap(x)) for a, x in zip(sb, others)):
            fail(f"{type(o).__name__}.stack-indep:operand-mutated",
                 f"{type(o).__name__}.stack changes one of the stacked objects", {"cls": type(o).__name__, "op": op})
        return res
    return apply_eop(o, k)


def same_snap(a, b):
    return (a["shape"] == b["shape"] and a["meta"] == b["meta"] and a["flags"] == b["flags"]
            and np.array_equal(np.array(a["data"]), np.array(b["data"]), equal_nan=True))


def foreign_rows(s_before, got):
    """does the result contain an element whose data is not the data of any element of the operand?"""
    have = {tuple(r) for r in s_before["data"]}
    return any(tuple(r) not in have for r in got["data"])


def compare(cname, opname, exp, got, s_before, rep, check_meta=True):
    """property oracle for one step; exp from ref_step, got = snapshot of the result"""
    shape, d, f, meta = exp
    pre = f"{cname}.{opname}"
    if got["cls"] != cname:
        fail(f"{pre}:type", f"{pre} returns a {got['cls']}", rep)
        return
    if tuple(got["shape"]) != tuple(shape):
        fail(f"{pre}:shape", f"{pre}: shape {tuple(got['shape'])}, index array gives {tuple(shape)}", rep)
        return
    gd = np.array(got["data"], float).reshape(len(got["flags"]), -1) if got["flags"] else np.zeros_like(d)
    if gd.shape != d.shape or not np.allclose(gd, d, rtol=TOL, atol=TOL, equal_nan=True):
        srt = lambda a: a[np.lexsort(a.T[::-1])] if len(a) else a  # noqa
        if gd.shape == d.shape and np.allclose(srt(gd), srt(d), rtol=TOL, atol=TOL, equal_nan=True):
            fail(f"{pre}:order", f"{pre}: elements are permuted differently from an index array "
                 f"(shape {tuple(s_before['shape'])})", rep)
        else:
            fail(f"{pre}:data", f"{pre}: element data differ from the element-wise reference", rep)
    gf = np.array(got["flags"], bool)
    if not np.array_equal(gf, f):
        if f.any() and not gf.any():
            fail(f"{pre}:improper-lost", f"{pre} drops the per-element improper flags", rep)
        else:
            fail(f"{pre}:improper-wrong", f"{pre}: elements carry other elements' improper flags", rep)
    if check_meta and meta is not None and list(got["meta"]) != list(meta):
        gm = got["meta"]
        if (gm[0], gm[1]) != (meta[0], meta[1]):
            lost = (gm[0], gm[1]) == (0, 0)
            fail(f"{pre}:symmetry-{'lost' if lost else 'wrong'}",
                 f"{pre}: symmetry ids {meta[:2]} become {gm[:2]}", rep)
        if gm[2] != meta[2]:
            fail(f"{pre}:phase-{'lost' if gm[2] == 0 else 'wrong'}", f"{pre}: phase id {meta[2]} becomes {gm[2]}", rep)
        if gm[3] != meta[3]:
            fail(f"{pre}:format-{'lost' if gm[3] == 0 else 'wrong'}",
                 f"{pre}: coordinate format {FMTS[meta[3]]} becomes {FMTS[gm[3]] if gm[3] >= 0 else '?'}", rep)


def public_properties(cls):
    return sorted(n for n, v in inspect.getmembers(cls, lambda v: isinstance(v, property))
                  if not n.startswith("_"))


def read_all_properties(o, origin, s_origin, rep):
    cname = type(o).__name__
    for p in public_properties(type(o)):
        before = snap(o)
        try:
            getattr(o, p)
        except Exception:
            pass
        after = snap(o)
        st(f"prop/{cname}")
        if not same_snap(before, after) or (origin is not None and not same_snap(s_origin, snap(origin))):
            fail(f"{cname}.{p}:operand-mutated",
                 f"reading {cname}.{p} changes the numerical content of the object (or of the object it was sliced from)",
                 dict(rep, prop=p, before=before, after=after))
            if origin is not None:
                s_origin.update(snap(origin))


def opname(op):
    if op["op"] == "get" and op["key"].get("t") == "adv":
        return "getitem-component-axis" if op["key"].get("grp") == "comp" else "getitem-adv"
    return {"get": "getitem", "invm": "inv-method", "stackwith": "stack-indep"}.get(op["op"], op["op"])


def is_ext(op):
    """operations the Coq model has no constructor for (oracle only)"""
    return op["op"] in ("invm", "stackwith") or (op["op"] == "get" and op["key"].get("t") == "adv")


def run_case(cname, x0, prog, tag, props=True, record=True, extra=None):
    """execute on the implementation, record outcomes, run the oracle
    (record=False: oracle only, the case is not handed to the Coq correspondence)"""
    s0 = snap(x0)
    origin_snap = copy.deepcopy(s0)
    steps = []
    cur = x0
    rep_base = dict({"cls": cname, "init": s0, "prog": prog}, **(extra or {}))
    for i, op in enumerate(prog):
        before = snap(cur)
        rep = dict(rep_base, step=i)
        # element-wise variants inside a stack are checked as the operations they are
        if op["op"] == "stack":
            for e in set(op["vs"]) - {"id"}:
                try:
                    exp = ref_step(cname, {"op": e}, before)
                    try:
                        got = snap(apply_eop(cur, e))
                        compare(cname, e, exp, got, before, rep)
                    except Exception as ex:  # noqa
                        fail(f"{cname}.{e}:raises", f"{cname}.{e} raises {type(ex).__name__}", rep)
                except Expect:
                    pass
        try:
            res = apply_op(cur, op)
            err = None
        except Exception as ex:  # noqa
            res, err = None, type(ex).__name__
        after = snap(cur)
        if not same_snap(before, after):
            fail(f"{cname}.{opname(op)}:operand-mutated", f"{cname}.{opname(op)} changes its operand", rep)
        if not same_snap(origin_snap, snap(x0)):
            fail(f"{cname}.{opname(op)}:operand-mutated",
                 f"{cname}.{opname(op)} changes an object the operand was derived from", rep)
            origin_snap = snap(x0)
        try:
            if op["op"] == "stack" and op["vs"]:
                # stacking itself: against the variants the implementation produced
                try:
                    vsn = [snap(apply_eop(cur, e)) for e in op["vs"]]
                    n = len(before["flags"])
                    dd = np.stack([np.array(v["data"], float).reshape(n, -1) for v in vsn], axis=1)
                    ff = np.stack([np.array(v["flags"], bool).reshape(n) for v in vsn], axis=1)
                    exp = (tuple(before["shape"]) + (len(vsn),), dd.reshape(n * len(vsn), -1), ff.reshape(-1), None)
                except Exception:
                    exp = None
            else:
                exp = ref_step(cname, op, before)
            expect_err = False
        except Expect:
            exp, expect_err = None, True
        if err is not None:
            steps.append({"op": op, "out": None, "err": err})
            if not expect_err and exp is not None:
                fail(f"{cname}.{opname(op)}:raises", f"{cname}.{opname(op)} raises {err} on a valid operand "
                     f"of shape {tuple(before['shape'])}", rep)
            break
        got = snap(res)
        steps.append({"op": op, "out": got})
        if expect_err:
            if op["op"] == "get" and op["key"].get("grp") == "comp" and foreign_rows(before, got):
                # worse than a missing error: the returned "elements" are not elements of the operand
                fail(f"{cname}.{opname(op)}:no-raise-foreign-data",
                     f"{cname}.{opname(op)} accepts a key numpy rejects on an index array (too many indices) and "
                     f"returns shape {tuple(got['shape'])} with element data that no element of the operand has", rep)
            elif not (cname not in QUAT and op["op"] in ("inv",)):
                fail(f"{cname}.{opname(op)}:no-raise", f"{cname}.{opname(op)} accepts an argument numpy rejects on an index array", rep)
        elif exp is not None:
            compare(cname, opname(op), exp, got, before, rep, check_meta=op["op"] not in ("stack", "stackwith"))
        cur = res
    # read every public property of the final object; neither it nor the initial object may change
    if props:
        read_all_properties(cur, x0, origin_snap, dict(rep_base, step=len(steps)))
    if record:
        cases.append({"k": "prog", "cls": cname, "init": s0, "steps": steps, "tag": tag})


def azimuth_case(cname, shape, meta):
    o = build(cname, shape, "none", meta, "tiny")
    before = snap(o)
    try:
        vals = np.asarray(o.azimuth, float).reshape(-1).tolist()
    except Exception:
        return
    after = snap(o)
    cases.append({"k": "az", "cls": cname, "init": before, "after": after["data"], "vals": vals})
    st(f"azimuth/{cname}")
    if not same_snap(before, after):
        fail(f"{cname}.azimuth:operand-mutated", f"reading {cname}.azimuth changes the stored vector components",
             {"cls": cname, "init": before, "after": after})


def pick_meta(cname):
    if cname == "Misorientation":
        return [R.randrange(len(SYMS)), R.randrange(len(SYMS)), 0, 0]
    if cname == "Orientation":
        return [0, R.randrange(len(SYMS)), 0, 0]
    if cname == "Miller":
        ph = R.randrange(N_MAIN_PHASES)
        return [0, 0, ph, 0 if ph == 0 else R.randrange(len(FMTS))]
    return [0, 0, 0, 0]


def weighted(ws):
    tot = sum(w for _, w in ws)
    x = R.uniform(0, tot)
    for k, w in ws:
        x -= w
        if x <= 0:
            return k
    return ws[-1][0]


# ------------------------------------------------- extra oracle strata (oracle only)
# Entry points / key kinds / input classes the random programs above never produce.  All of
# them go through run_case(record=False): same reference (numpy on an index array), same
# operand-mutation checks, replayable through ONLY; they are not handed to the Coq model.
def rix(n):
    return R.randint(-n, n - 1)


ALL = ["s", None, None, None]
# (kind, least number of axes)
ADV_KINDS = [("newaxis-front", 1), ("newaxis-mid", 1), ("np-int", 1), ("np-array-1d", 1), ("np-array-2d", 1),
             ("bool-list", 1), ("ellipsis", 1), ("int-ellipsis", 1), ("slice-ellipsis", 1),
             ("two-lists", 2), ("slice-list", 2), ("int-list", 2), ("slice-mask", 2), ("list-slice", 2),
             ("np-int-slice", 2), ("split-lists", 3), ("mask2-int", 3)]
COMP_KINDS = ["ellipsis-int", "ellipsis-slice", "ellipsis-list", "toolong-revslice", "toolong-int"]
ADV_SHAPES = [(4,), (2, 3), (3, 1, 2), (2, 2, 3), (1, 3), (2, 3, 2, 2)]


def gen_adv_key(kind, shape):
    nd = len(shape)
    n0 = shape[0]
    n1 = shape[1] if nd > 1 else 0
    n2 = shape[2] if nd > 2 else 0
    bare = False
    if kind == "newaxis-front":
        items, bare = [["n"]], True
    elif kind == "newaxis-mid":
        items = [list(ALL), ["n"]]
    elif kind == "np-int":
        items, bare = [["I", rix(n0)]], True
    elif kind == "np-array-1d":
        items, bare = [["a", [rix(n0) for _ in range(R.randint(1, 4))]]], True
    elif kind == "np-array-2d":
        items, bare = [["a", [[rix(n0) for _ in range(2)] for _ in range(R.randint(1, 3))]]], True
    elif kind == "bool-list":
        items, bare = [["b", [R.random() < 0.5 for _ in range(n0)]]], True
    elif kind == "ellipsis":
        items, bare = [["e"]], True
    elif kind == "int-ellipsis":
        items = [["i", rix(n0)], ["e"]]
    elif kind == "slice-ellipsis":
        items = [["s", None, None, R.choice([2, -1])], ["e"]]
    elif kind == "two-lists":
        k = R.randint(1, 3)
        items = [["l", [rix(n0) for _ in range(k)]], ["l", [rix(n1) for _ in range(k)]]]
    elif kind == "slice-list":
        items = [list(ALL), ["l", [rix(n1) for _ in range(R.randint(1, 3))]]]
    elif kind == "int-list":
        items = [["i", rix(n0)], ["l", [rix(n1) for _ in range(R.randint(1, 3))]]]
    elif kind == "slice-mask":
        items = [["s", None, None, -1], ["m", [R.random() < 0.6 for _ in range(n1)]]]
    elif kind == "list-slice":
        items = [["l", [rix(n0) for _ in range(R.randint(1, 3))]], ["s", None, None, -1]]
    elif kind == "np-int-slice":
        items = [["I", rix(n0)], ["s", R.choice([None, 1]), None, None]]
    elif kind == "split-lists":
        k = R.randint(1, 3)
        items = [["l", [rix(n0) for _ in range(k)]], list(ALL), ["l", [rix(n2) for _ in range(k)]]]
    elif kind == "mask2-int":
        items = [["m", [[R.random() < 0.6 for _ in range(n1)] for _ in range(n0)]], ["i", rix(n2)]]
    # keys that address the trailing component axis of the stored array (not an axis of the object)
    elif kind == "ellipsis-int":
        items = [["e"], ["i", 0]]
    elif kind == "ellipsis-slice":
        items = [["e"], ["s", 0, 2, None]]
    elif kind == "ellipsis-list":
        items = [["e"], ["l", [0]]]
    elif kind == "toolong-revslice":
        items = [list(ALL) for _ in range(nd)] + [["s", None, None, -1]]
    elif kind == "toolong-int":
        items = [list(ALL) for _ in range(nd)] + [["i", 0]]
    else:
        raise ValueError(kind)
    return {"t": "adv", "kind": kind, "grp": "comp" if kind in COMP_KINDS else "adv", "items": items, "bare": bare}


def dtype_object(cname, shape, dt):
    cls = CLASSES[cname]
    n = int(np.prod(shape))
    if dt.startswith("int"):
        rows = [[R.randint(-3, 3) for _ in range(cls.dim)] for _ in range(n)]
        for r in rows:
            if not any(r):
                r[R.randrange(cls.dim)] = R.choice([-2, 1, 3])
    else:
        rows = [[float(np.float32(R.gauss(0, 1))) for _ in range(cls.dim)] for _ in range(n)]
    flags = [cname in ROT and R.random() < 0.5 for _ in range(n)]
    return rebuild({"cls": cname, "shape": list(shape), "data": rows, "flags": flags, "meta": pick_meta(cname)}, dt)


def extra_strata(reps):
    names = list(CLASSES)
    # (1) keys the program generator never draws: newaxis, Ellipsis, numpy scalars / integer arrays,
    #     index lists on later axes, masks on later axes, combinations of advanced and basic items
    for rep in range(reps):
        for ki, (kind, need) in enumerate(ADV_KINDS):
            ok_shapes = [sh for sh in ADV_SHAPES if len(sh) >= need]
            for ci, cname in enumerate(names):
                shape = ok_shapes[(ki + ci + rep) % len(ok_shapes)]
                x0 = build(cname, shape, "mixed", pick_meta(cname), "plain")
                prog = [{"op": "get", "key": gen_adv_key(kind, shape)}]
                if (ki + ci) % 3 == 0:
                    prog.append({"op": "flatten"})
                st(f"adv-key/{kind}")
                run_case(cname, x0, prog, "adv-key", props=False, record=False)
    # (2) keys reaching the component axis: "..." followed by items, keys longer than ndim with slices
    for rep in range(reps):
        for ki, kind in enumerate(COMP_KINDS):
            for cname in names:
                # (2, dim): the last axis of the object is as long as the component axis, so that a key landing
                # on the component axis can give an array the constructor accepts
                for shape in [(3,), (2, 3), (2, 1, 2), (2, CLASSES[cname].dim)]:
                    x0 = build(cname, shape, "mixed", pick_meta(cname), "plain")
                    st(f"component-axis-key/{kind}")
                    run_case(cname, x0, [{"op": "get", "key": gen_adv_key(kind, shape)}], "component-axis-key",
                             props=False, record=False)
    # (3) the inv() method (separately defined in Quaternion, Rotation, Misorientation, Orientation)
    for rep in range(reps):
        for cname in QUAT:
            for si, shape in enumerate([(3,), (2, 3), (1, 2), (2, 1, 2), (0, 2), (2, 2, 2, 2)]):
                progs = [[{"op": "invm"}], [{"op": "invm"}, {"op": "invm"}],
                         [{"op": "transpose", "axes": list(range(len(shape)))[::-1]}, {"op": "invm"}, {"op": "flatten"}]]
                x0 = build(cname, shape, "mixed", pick_meta(cname), "plain")
                st(f"inv-method/{cname}")
                run_case(cname, x0, progs[(si + rep) % 3], "inv-method", props=False, record=False)
    # (4) stack of INDEPENDENT objects (own data, own flags, own metadata), list and tuple, every position
    combos = [(0, 0, "list"), (1, 0, "tuple"), (1, 1, "list"), (2, 1, "tuple"), (2, 2, "list"), (3, 0, "tuple")]
    for rep in range(reps):
        for ci, cname in enumerate(names):
            for bi, (k, pos, seq) in enumerate(combos):
                shape = [(3,), (2, 2), (1, 2), (0, 2), (2, 1, 2), (2, 3)][(bi + ci + rep) % 6]
                x0 = build(cname, shape, "mixed", pick_meta(cname), "plain")
                others = [snap(build(cname, shape, R.choice(["mixed", "mixed", "none", "all"]), pick_meta(cname), "plain"))
                          for _ in range(k)]
                prog = [{"op": "stackwith", "others": others, "pos": pos, "seq": seq}]
                if bi % 2:
                    prog.append({"op": "flatten"})
                st(f"stack-indep/{cname}")
                run_case(cname, x0, prog, "stack-indep", props=False, record=False)
    # (5) data handed over with an integer / single precision dtype: every operation, and every property read
    g0 = {"op": "get", "key": {"t": "basic", "items": [["i", 0]], "bare": True}}
    grev = {"op": "get", "key": {"t": "basic", "items": [["s", None, None, -1]], "bare": True}}
    dprogs = [[{"op": "unit"}], [{"op": "neg"}], [{"op": "inv"}], [{"op": "flatten"}], [{"op": "squeeze"}],
              [{"op": "transpose", "axes": None}], [g0], [grev], [{"op": "reshape", "dims": [-1], "tup": False}],
              [{"op": "stack", "vs": ["id", "neg", "unit"]}], [{"op": "neg"}, {"op": "unit"}],
              [grev, {"op": "neg"}, {"op": "flatten"}], [{"op": "flatten"}, {"op": "unit"}, {"op": "squeeze"}]]
    for rep in range(reps):
        for di, dt in enumerate(["int64", "int32", "float32"]):
            for ci, cname in enumerate(names):
                for pi, prog in enumerate(dprogs):
                    if cname not in QUAT and any(o["op"] == "inv" for o in prog):
                        continue
                    shape = [(2, 3), (1, 3), (3, 2)][(pi + ci + di + rep) % 3]
                    x0 = dtype_object(cname, shape, dt)
                    st(f"dtype/{dt}/{cname}")
                    run_case(cname, x0, prog, "dtype", props=(pi == 0), record=False, extra={"dtype": dt})
    # (5b) data handed over in another memory layout (Fortran order, strided view of a larger array) or as an
    #      array that cannot be written to (read-only copy, zero-stride broadcast): every operation and every
    #      property read must work on it and leave it alone
    for rep in range(reps):
        for li, layout in enumerate(["F", "strided", "readonly", "broadcast"]):
            for ci, cname in enumerate(names):
                for pi, prog in enumerate(dprogs):
                    if cname not in QUAT and any(o["op"] == "inv" for o in prog):
                        continue
                    shape = [(2, 3), (3, 2, 2), (1, 3), (4,)][(pi + ci + li + rep) % 4]
                    if prog[0]["op"] == "transpose" and len(shape) != 2:
                        shape = (3, 2)
                    n = int(np.prod(shape))
                    s0 = {"cls": cname, "shape": list(shape), "data": rand_data(n, CLASSES[cname].dim, "plain").tolist(),
                          "flags": [cname in ROT and R.random() < 0.5 for _ in range(n)], "meta": pick_meta(cname)}
                    x0 = rebuild(s0, None, layout)
                    st(f"layout/{layout}/{cname}")
                    run_case(cname, x0, prog, "layout", props=(pi == 0), record=False, extra={"layout": layout})
    # (6) Miller metadata the main generator never draws: a coordinate format without a phase, a phase
    #     made from a space group, a phase with a point group only
    mprogs = [[{"op": "unit"}], [{"op": "neg"}], [g0], [grev], [{"op": "flatten"}], [{"op": "squeeze"}],
              [{"op": "transpose", "axes": None}], [{"op": "reshape", "dims": [-1], "tup": True}],
              [{"op": "get", "key": {"t": "mask", "mshape": [2], "bits": [True, False]}}],
              [grev, {"op": "flatten"}, {"op": "neg"}, {"op": "unit"}]]
    metas = [[0, 0, 0, f] for f in range(1, 5)] + [[0, 0, 3, f] for f in range(5)] + [[0, 0, 4, f] for f in range(3)]
    for rep in range(reps):
        for mi, meta in enumerate(metas):
            for pi, prog in enumerate(mprogs):
                shape = [(2, 3), (2, 1), (2, 2, 2)][(mi + pi + rep) % 3]
                if prog[0]["op"] == "transpose" and len(shape) != 2:
                    shape = (2, 3)
                x0 = build("Miller", shape, "none", meta, "plain")
                st(f"miller-meta/phase={meta[2]}/fmt={FMTS[meta[3]]}")
                run_case("Miller", x0, prog, "miller-meta", props=False, record=False)


if ONLY is not None:
    for c in ONLY:
        x0 = rebuild(c["init"], c.get("dtype"), c.get("layout"))
        ext = any(is_ext(o) for o in c["prog"]) or bool(c.get("dtype")) or bool(c.get("layout"))
        run_case(c["cls"], x0, c["prog"], "replay", record=not ext,
                 extra={k: c[k] for k in ("dtype", "layout") if c.get(k)})
elif EXH is not None:
    for cname in CLASSES:
        for shape in [(3,), (2, 2), (1, 3), (2, 1, 2), (0, 2), (2, 3, 2, 2)]:
            for prog in EXH:
                x0 = build(cname, shape, "mixed", pick_meta(cname), "plain")
                st(f"exhaustive/{cname}")
                run_case(cname, x0, prog, f"exhaustive/{cname}", props=False)
else:
    if any(v is None for v in ORDER.values()):
        fail("flatten:order-undefined", "flatten of a 2-D object is neither C nor Fortran order", {"order": ORDER})
    names = list(CLASSES)
    for i in range(N):
        cname = names[i % len(names)]
        stratum = weighted(STRATA_W)
        shape = R.choice(SHAPES[stratum])
        flagmode = R.choice(["mixed", "mixed", "mixed", "none", "all"]) if cname in ROT else "none"
        meta = pick_meta(cname)
        kind = R.choice(["plain", "plain", "tiny", "zero"])
        x0 = build(cname, shape, flagmode, meta, kind)
        L = R.randint(1, 6)
        bad_last = R.random() < 0.12
        # the program is generated against the shapes the implementation really produces
        prog = []
        cur = x0
        for j in range(L):
            op = gen_op(cname, tuple(cur.shape), bad=(bad_last and j == L - 1))
            prog.append(op)
            try:
                cur = apply_op(cur, op)
            except Exception:
                break
        st(f"{cname}/{stratum}")
        st(f"len={len(prog)}")
        st(f"flags={flagmode}")
        for op in prog:
            st(f"op/{op['op']}")
        if bad_last:
            st("malformed-last-op")
        run_case(cname, rebuild(snap(x0)), prog, f"{cname}/{stratum}")
    for i in range(max(6, N // 20)):
        cname = R.choice(["Vector3d", "Miller"])
        shape = R.choice(SHAPES["1d"] + SHAPES["2d"] + SHAPES["size1"])
        azimuth_case(cname, shape, pick_meta(cname))
    if N:
        extra_strata(1 if N <= 1000 else 3)
        # keys with an Ellipsis, handed to the Coq model too (KEllip): the Ellipsis stands for full slices of the axes
        # not named; too many items raise
        for cname in CLASSES:
            for shape in [(4,), (2, 3), (3, 1, 2), (2, 2, 3, 2)]:
                nd = len(shape)
                for rep_i in range(2 if N <= 1000 else 6):
                    nb = R.randint(0, nd)
                    na = R.randint(0, nd - nb) if rep_i % 3 != 2 else nd - nb + 1      # every third key has one item too many
                    def item(ax):
                        n = shape[ax] if 0 <= ax < nd else 2
                        return ["i", R.randint(-n, n - 1)] if R.random() < 0.5 else gen_slice(n)
                    before = [item(a) for a in range(nb)]
                    after = [item(nd - na + a) for a in range(na)]
                    prog = [{"op": "get", "key": {"t": "ellip", "before": before, "after": after}}]
                    if R.random() < 0.5:
                        prog.append({"op": "flatten"})
                    flagmode = "mixed" if cname in ROT else "none"
                    x0 = build(cname, shape, flagmode, pick_meta(cname), "plain")
                    st(f"ellipsis-key/{cname}")
                    run_case(cname, x0, prog, f"{cname}/ellipsis-key", props=False)

# ---- normalising keeps each element's own DIRECTION whatever its length: very short and very long elements
# (a tolerance on the norm instead of "exactly zero" would turn short non-zero vectors into zero vectors)
if ONLY is None:
    for cls_name, cls in (("Vector3d", Vector3d), ("Miller", Miller), ("Quaternion", Quaternion)):
        dim = 4 if cls is Quaternion else 3
        for scale in (1e-9, 1e-12, 1e-30, 1e-140, 1e9, 1e140):   # squares stay inside the binary64 range
            base = np.array([[R.gauss(0, 1) for _ in range(dim)] for _ in range(6)]).reshape(2, 3, dim)
            base[0, 1] = 0.0                       # an exactly zero element stays zero
            base[1, 2] = base[1, 2] * 1e6          # mixed lengths in one object
            data = base * scale
            st(f"unit-scale/{cls_name}")
            rep = {"class": cls_name, "scale": scale, "data": data.reshape(-1, dim).tolist()}
            try:
                o = Miller(xyz=data.copy(), phase=PHASES[1]) if cls is Miller else cls(data.copy())
                before = o.data.copy()
                u = o.unit.data
                nrm = np.linalg.norm(base, axis=-1, keepdims=True)
                want_ = np.divide(base, nrm, out=np.zeros_like(base), where=nrm > 0)
                if u.shape != data.shape or not np.allclose(u, want_, atol=1e-9):
                    k = int(np.argmax(np.abs(u - want_).max(axis=-1).reshape(-1))) if u.shape == data.shape else -1
                    fail(f"{cls_name}.unit:short-or-long-element", f"unit of an element of length ~{scale:g} is not the element divided by its "
                         f"length (flat index {k})", rep)
                if not np.array_equal(o.data, before):
                    fail(f"{cls_name}.unit:operand-mutated", "unit changed its operand", rep)
            except Exception as e:  # noqa
                fail(f"{cls_name}.unit:short-or-long-element:raises", f"{type(e).__name__}: {e}", rep)

emit({"cases": cases, "fails": fails, "strata": strata, "order": ORDER})
