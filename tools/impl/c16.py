"""C16 implementation harness (runs under /venv python with PYTHONPATH=/repo).

Generates structured cases (class x shape stratum x flags x metadata x random
program of structural operations), runs them step by step on the
implementation, and emits

* ``cases``: initial object, the operations and the implementation's outcome
  after every step (for the Coq correspondence with the faithful model), and
  azimuth read cases;
* ``fails``: violations of the PROPERTY found by the oracle (numpy reference on
  an index array, per step, starting from the operand the implementation
  really has), each with a stable signature ``<Class>.<op>:<aspect>``.
"""
import copy
import inspect
import itertools

import numpy as np
from common import emit, payload, rng

from diffpy.structure import Lattice, Structure
from orix.crystal_map import Phase
from orix.quaternion import Misorientation, Orientation, Quaternion, Rotation
from orix.quaternion import symmetry as osym
from orix.vector import Miller, Vector3d

P = payload()
R = rng(P.get("seed", 0))
N = P.get("n", 200)
ONLY = P.get("only")          # replay: list of explicit cases
EXH = P.get("exhaustive")    # thorough tier: explicit list of programs run on every class x small shape
TOL = 1e-9

CLASSES = {"Quaternion": Quaternion, "Rotation": Rotation, "Misorientation": Misorientation,
           "Orientation": Orientation, "Vector3d": Vector3d, "Miller": Miller}
ROT = ("Rotation", "Misorientation", "Orientation")
QUAT = ("Quaternion",) + ROT
SYMS = [osym.C1, osym.C2, osym.C4, osym.D6, osym.O, osym.Oh, osym.D3d]
SYM_ID = {s.name: i for i, s in enumerate(SYMS)}
FMTS = ["xyz", "uvw", "hkl", "UVTW", "hkil"]
PHASES = [None,
          Phase(name="cub", point_group="m-3m", structure=Structure(lattice=Lattice(3, 3, 3, 90, 90, 90))),
          Phase(name="hex", point_group="6/mmm", structure=Structure(lattice=Lattice(3.2, 3.2, 5.1, 90, 90, 120))),
          # ids 3, 4: only used by the Miller metadata stratum (pick_meta draws from the first N_MAIN_PHASES)
          Phase(name="sg225", space_group=225, structure=Structure(lattice=Lattice(4, 4, 4, 90, 90, 90))),
          Phase(name="pgonly", point_group="4/mmm")]
N_MAIN_PHASES = 3

SHAPES = {
    "1d": [(1,), (2,), (3,), (5,), (7,)],
    "2d": [(2, 3), (3, 2), (2, 2), (4, 3)],
    "size1": [(1, 3), (3, 1), (1, 1), (2, 1, 3), (1, 2, 1), (1, 1, 4), (1, 3, 2, 1), (2, 1, 1, 3)],
    "empty": [(0,), (0, 2), (2, 0), (1, 0), (0, 1, 3)],
    "3d": [(2, 3, 2), (3, 2, 2), (2, 2, 4)],
    "4d": [(2, 3, 4, 2), (2, 3, 2, 2), (3, 1, 2, 2), (2, 2, 3, 1)],
    "5d": [(2, 2, 3, 2, 2), (1, 2, 3, 2, 1), (2, 3, 1, 2, 2)],
}
STRATA_W = [("1d", 3), ("2d", 4), ("size1", 4), ("empty", 2), ("3d", 3), ("4d", 3), ("5d", 1)]

cases, fails, strata = [], [], {}


def st(k):
    strata[k] = strata.get(k, 0) + 1


def fail(sig, what, rep):
    fails.append({"sig": sig, "what": what, "replay": rep})


# ------------------------------------------------------------------ objects
def sg_number(ph):
    return None if ph.space_group is None else int(ph.space_group.number)


def phase_id(ph):
    if ph is None:
        return 0
    for i, q in enumerate(PHASES):
        if q is None:
            continue
        try:
            if (ph.point_group.name == q.point_group.name and ph.name == q.name and
                    sg_number(ph) == sg_number(q) and
                    np.allclose(ph.structure.lattice.abcABG(), q.structure.lattice.abcABG())):
                return i
        except Exception:
            return -1
    return -1


def meta_of(o):
    """(symL, symR, phase, fmt) ids; -1 = something not in the tables"""
    m = [0, 0, 0, 0]
    if isinstance(o, Misorientation):
        s = o._symmetry
        m[0] = SYM_ID.get(s[0].name, -1)
        m[1] = SYM_ID.get(s[1].name, -1)
    if isinstance(o, Miller):
        m[2] = phase_id(o.phase)
        m[3] = FMTS.index(o.coordinate_format) if o.coordinate_format in FMTS else -1
    return m


def snap(o):
    dim = o.dim
    d = np.array(o._data, dtype=float, copy=True)
    shape = tuple(o.shape)
    rows = d.reshape(-1, d.shape[-1]) if d.size else d.reshape(0, d.shape[-1])
    data = rows[:, :dim]
    if rows.shape[1] > dim:
        flags = rows[:, -1] != 0
    else:
        flags = np.zeros(len(rows), bool)
    return {"cls": type(o).__name__, "shape": list(shape), "data": data.tolist(),
            "flags": [bool(x) for x in flags], "meta": meta_of(o)}


def rand_data(n, dim, kind):
    a = np.array([[R.gauss(0, 1) for _ in range(dim)] for _ in range(n)], float).reshape(n, dim)
    if kind == "tiny" and n:
        for _ in range(max(1, n // 2)):
            i, j = R.randrange(n), R.randrange(dim)
            a[i, j] = R.choice([1e-9, -5e-10, 3e-12, 9e-9, -1e-8, 0.0])
    if kind == "zero" and n:
        a[R.randrange(n)] = 0.0
    return a


def build(cname, shape, flagmode, meta, kind):
    cls = CLASSES[cname]
    n = int(np.prod(shape))
    dim = cls.dim
    if cname in ROT and kind == "zero":
        kind = "plain"              # zero quaternions are NaN after normalisation: out of the domain
    d = rand_data(n, dim, kind).reshape(tuple(shape) + (dim,))
    if cname == "Miller":
        o = Miller(xyz=d, phase=PHASES[meta[2]])
        o.coordinate_format = FMTS[meta[3]]
    elif cname == "Misorientation":
        o = Misorientation(d, symmetry=(SYMS[meta[0]], SYMS[meta[1]]))
    elif cname == "Orientation":
        o = Orientation(d, symmetry=SYMS[meta[1]])
    else:
        o = cls(d)
    if cname in ROT:
        if flagmode == "mixed":
            fl = np.array([R.random() < 0.5 for _ in range(n)], bool).reshape(shape)
        elif flagmode == "all":
            fl = np.ones(shape, bool)
        else:
            fl = np.zeros(shape, bool)
        o.improper = fl
    return o


def rebuild(s, dtype=None):
    """object from a snapshot (replay); dtype: the dtype the data array is handed over with"""
    cls = CLASSES[s["cls"]]
    shape = tuple(s["shape"])
    d = np.array(s["data"], float).reshape(shape + (cls.dim,))
    if dtype:
        d = d.astype(np.dtype(dtype))
    m = s["meta"]
    if s["cls"] == "Miller":
        o = Miller(xyz=d, phase=PHASES[m[2]])
        o.coordinate_format = FMTS[m[3]]
    elif s["cls"] == "Misorientation":
        o = Misorientation(d, symmetry=(SYMS[m[0]], SYMS[m[1]]))
    elif s["cls"] == "Orientation":
        o = Orientation(d, symmetry=SYMS[m[1]])
    else:
        o = cls(d)
    if s["cls"] in ROT:
        o.improper = np.array(s["flags"], bool).reshape(shape)
    return o


# --------------------------------------------------------------------- keys
def adv_item(it):
    """one element of an 'adv' key descriptor (JSON) -> the Python index object"""
    t = it[0]
    if t == "e":
        return Ellipsis
    if t == "n":
        return None
    if t == "i":
        return int(it[1])
    if t == "I":
        return np.int64(it[1])
    if t == "s":
        return slice(it[1], it[2], it[3])
    if t == "l":
        return [int(i) for i in it[1]]
    if t == "a":
        return np.array(it[1], dtype=np.int64)
    if t == "b":
        return [bool(b) for b in it[1]]
    if t == "m":
        return np.array(it[1], dtype=bool)
    raise ValueError(it)


def py_key(k):
    if k["t"] == "adv":
        items = [adv_item(it) for it in k["items"]]
        return items[0] if k.get("bare") else tuple(items)
    if k["t"] == "basic":
        items = []
        for it in k["items"]:
            items.append(int(it[1]) if it[0] == "i" else slice(it[1], it[2], it[3]))
        if len(items) == 1 and k.get("bare"):
            return items[0]
        return tuple(items)
    if k["t"] == "mask":
        return np.array(k["bits"], bool).reshape(k["mshape"])
    return [int(i) for i in k["ix"]]


def gen_slice(n):
    c = R.choice([None, None, 1, 2, -1, -2, 3])
    lo, hi = -n - 2, n + 2
    a = R.choice([None, None, R.randint(lo, hi)])
    b = R.choice([None, None, R.randint(lo, hi)])
    return ["s", a, b, c]


def gen_key(shape, bad=False):
    nd = len(shape)
    if bad:
        how = R.choice(["oob", "toomany"])
        if how == "oob" or 0 in shape:
            ax = R.randrange(nd)
            items = [["s", None, None, None] for _ in range(ax)] + [["i", R.choice([shape[ax], -shape[ax] - 1, shape[ax] + 3])]]
            return {"t": "basic", "items": items}
        return {"t": "basic", "items": [["i", 0] for _ in range(nd + 1)]}
    t = R.choice(["basic", "basic", "basic", "mask", "fancy"])
    if t == "basic":
        m = R.randint(1, nd)
        items = []
        for ax in range(m):
            n = shape[ax]
            if n > 0 and R.random() < 0.45:
                items.append(["i", R.randint(-n, n - 1)])
            else:
                items.append(gen_slice(n))
        return {"t": "basic", "items": items, "bare": m == 1 and R.random() < 0.7}
    if t == "mask":
        m = R.randint(1, nd)
        ms = list(shape[:m])
        nb = int(np.prod(ms))
        mode = R.choice(["rand", "rand", "none", "all"])
        bits = [(R.random() < 0.5) if mode == "rand" else (mode == "all") for _ in range(nb)]
        return {"t": "mask", "mshape": ms, "bits": bits}
    n = shape[0]
    if n == 0:
        return {"t": "basic", "items": [gen_slice(0)], "bare": True}
    return {"t": "fancy", "ix": [R.randint(-n, n - 1) for _ in range(R.randint(1, 4))]}


def factorizations(n):
    out = [[n]]
    for a in range(1, n + 1):
        if n % a == 0:
            out.append([a, n // a])
            for b in range(1, n // a + 1):
                if (n // a) % b == 0:
                    out.append([a, b, n // a // b])
    return out


def gen_op(cname, shape, bad=False):
    nd = len(shape)
    n = int(np.prod(shape))
    if bad:
        how = R.choice(["get", "get", "reshape", "transpose", "stack0"])
        if how == "get":
            return {"op": "get", "key": gen_key(shape, bad=True)}
        if how == "reshape":
            return {"op": "reshape", "dims": R.choice([[n + 1], [-1, -1], [2, n + 3], [-2, 1]]), "tup": False}
        if how == "transpose" and nd >= 2:
            if nd >= 3 and R.random() < 0.4:
                return {"op": "transpose", "axes": None}
            return {"op": "transpose", "axes": R.choice([[0] * nd, list(range(nd - 1)), list(range(nd + 1))])}
        return {"op": "stack", "vs": []}
    w = ["get"] * 5 + ["reshape"] * 3 + ["flatten"] * 3 + ["transpose"] * 4 + ["squeeze"] * 2 + \
        ["stack"] * 2 + ["unit", "neg", "inv"]
    k = R.choice(w)
    if k == "inv" and cname not in QUAT and R.random() < 0.8:
        k = "neg"
    if k == "get":
        return {"op": "get", "key": gen_key(shape)}
    if k == "reshape":
        dims = list(R.choice(factorizations(n)))
        R.shuffle(dims)
        if R.random() < 0.3:
            dims.insert(R.randrange(len(dims) + 1), 1)
        if n > 0 and R.random() < 0.3:
            dims[R.randrange(len(dims))] = -1
        return {"op": "reshape", "dims": dims, "tup": R.random() < 0.5}
    if k == "transpose":
        if nd == 2 and R.random() < 0.5:
            return {"op": "transpose", "axes": None}
        if nd == 1 and R.random() < 0.5:
            return {"op": "transpose", "axes": None}
        ax = list(range(nd))
        R.shuffle(ax)
        return {"op": "transpose", "axes": ax}
    if k == "stack":
        opts = ["id", "neg", "unit"] + (["inv"] if cname in QUAT else [])
        return {"op": "stack", "vs": [R.choice(opts) for _ in range(R.randint(1, 3))]}
    return {"op": k}


# ------------------------------------------------------- reference semantics
def measure_flatten_order(cls):
    """C or F, measured on a 2-D object of the class (no order is hard coded)"""
    d = np.arange(6 * cls.dim, dtype=float).reshape(2, 3, cls.dim) + 1.0
    o = Quaternion(d) if cls.dim == 4 else Vector3d(d)
    f = o.flatten().data
    for order in ("C", "F"):
        idx = np.arange(6).reshape(2, 3).reshape(-1, order=order)
        if np.array_equal(f, d.reshape(-1, cls.dim)[idx]):
            return order
    return None


ORDER = {n: measure_flatten_order(c) for n, c in CLASSES.items()}


class Expect(Exception):
    """the reference says the operation is an error"""


def ref_eop(cname, e, data, flags):
    if e == "id":
        return data, flags
    if e == "unit":
        with np.errstate(divide="ignore", invalid="ignore"):
            nrm = np.sqrt(np.sum(data * data, axis=-1))
            return np.nan_to_num(data / nrm[..., None]), flags
    if e == "inv":
        if cname not in QUAT:
            raise Expect()
        n2 = np.sum(data * data, axis=-1)[..., None]
        c = data * np.array([1.0, -1.0, -1.0, -1.0])
        return c / n2, flags
    if e == "neg":
        if cname in ROT:
            return data, ~flags
        return -data, flags
    raise ValueError(e)


def ref_step(cname, op, s):
    """expected (shape, data(N,dim), flags(N), meta or None) from the snapshot s"""
    shape = tuple(s["shape"])
    n = int(np.prod(shape))
    data = np.array(s["data"], float).reshape(n, -1) if n else np.zeros((0, CLASSES[cname].dim))
    flags = np.array(s["flags"], bool).reshape(n)
    idx = np.arange(n).reshape(shape)
    meta = list(s["meta"])
    k = op["op"]
    if k == "invm":
        k = "inv"
    if k == "stackwith":
        parts = []
        for x in op["others"]:
            nx = len(x["flags"])
            parts.append((np.array(x["data"], float).reshape(nx, -1) if nx else np.zeros((0, data.shape[1])),
                          np.array(x["flags"], bool).reshape(nx)))
        parts.insert(op["pos"], (data, flags))
        if any(len(p[1]) != n for p in parts):
            raise Expect()
        d2 = np.stack([p[0] for p in parts], axis=1).reshape(n * len(parts), -1)
        f2 = np.stack([p[1] for p in parts], axis=1).reshape(n * len(parts))
        return shape + (len(parts),), d2, f2, None
    if k in ("unit", "inv", "neg"):
        d2, f2 = ref_eop(cname, k, data, flags)
        if k == "inv" and cname == "Misorientation":
            meta = [meta[1], meta[0], meta[2], meta[3]]
        return shape, d2, f2, meta
    if k == "stack":
        vs = op["vs"]
        if not vs:
            raise Expect()
        parts = [ref_eop(cname, e, data, flags) for e in vs]
        d2 = np.stack([p[0] for p in parts], axis=1).reshape(n * len(vs), -1)
        f2 = np.stack([p[1] for p in parts], axis=1).reshape(n * len(vs))
        return shape + (len(vs),), d2, f2, None
    try:
        if k == "get":
            j = np.atleast_1d(idx[py_key(op["key"])])
        elif k == "reshape":
            if len(op["dims"]) == 0:
                raise Expect()
            j = idx.reshape(tuple(op["dims"]))
        elif k == "flatten":
            if ORDER[cname] is None:
                raise Expect()
            j = idx.reshape(-1, order=ORDER[cname])
        elif k == "transpose":
            if len(shape) == 1:
                j = idx
            elif op["axes"] is None:
                if len(shape) != 2:
                    raise Expect()
                j = idx.T
            else:
                if len(op["axes"]) != len(shape):
                    raise Expect()
                j = idx.transpose(op["axes"])
        elif k == "squeeze":
            j = np.atleast_1d(idx.squeeze())
        else:
            raise ValueError(k)
    except (IndexError, ValueError, TypeError):
        raise Expect()
    jj = j.reshape(-1)
    return tuple(j.shape), data[jj], flags[jj], meta


def apply_eop(o, e):
    if e == "id":
        return o
    if e == "unit":
        return o.unit
    if e == "inv":
        return ~o
    if e == "neg":
        return -o
    raise ValueError(e)


def apply_op(o, op):
    k = op["op"]
    if k == "get":
        return o[py_key(op["key"])]
    if k == "reshape":
        return o.reshape(tuple(op["dims"])) if op.get("tup") else o.reshape(*op["dims"])
    if k == "flatten":
        return o.flatten()
    if k == "transpose":
        return o.transpose() if op["axes"] is None else o.transpose(*op["axes"])
    if k == "squeeze":
        return o.squeeze()
    if k == "stack":
        return type(o).stack([apply_eop(o, e) for e in op["vs"]])
    if k == "invm":
        return o.inv()
    if k == "stackwith":
        # stack with independent objects (own data, own flags); none of them may change
        others = [rebuild(x) for x in op["others"]]
        sb = [snap(x) for x in others]
        seq = list(others)
        seq.insert(op["pos"], o)
        res = type(o).stack(tuple(seq) if op["seq"] == "tuple" else seq)
        if any(not same_snap(a, snap(x)) for a, x in zip(sb, others)):
            fail(f"{type(o).__name__}.stack-indep:operand-mutated",
                 f"{type(o).__name__}.stack changes one of the stacked objects", {"cls": type(o).__name__, "op": op})
        return res
    return apply_eop(o, k)


def same_snap(a, b):
    return (a["shape"] == b["shape"] and a["meta"] == b["meta"] and a["flags"] == b["flags"]
            and np.array_equal(np.array(a["data"]), np.array(b["data"]), equal_nan=True))


def compare(cname, opname, exp, got, s_before, rep, check_meta=True):
    """property oracle for one step; exp from ref_step, got = snapshot of the result"""
    shape, d, f, meta = exp
    pre = f"{cname}.{opname}"
    if got["cls"] != cname:
        fail(f"{pre}:type", f"{pre} returns a {got['cls']}", rep)
        return
    if tuple(got["shape"]) != tuple(shape):
        fail(f"{pre}:shape", f"{pre}: shape {tuple(got['shape'])}, index array gives {tuple(shape)}", rep)
        return
    gd = np.array(got["data"], float).reshape(len(got["flags"]), -1) if got["flags"] else np.zeros_like(d)
    if gd.shape != d.shape or not np.allclose(gd, d, rtol=TOL, atol=TOL, equal_nan=True):
        srt = lambda a: a[np.lexsort(a.T[::-1])] if len(a) else a  # noqa
        if gd.shape == d.shape and np.allclose(srt(gd), srt(d), rtol=TOL, atol=TOL, equal_nan=True):
            fail(f"{pre}:order", f"{pre}: elements are permuted differently from an index array "
                 f"(shape {tuple(s_before['shape'])})", rep)
        else:
            fail(f"{pre}:data", f"{pre}: element data differ from the element-wise reference", rep)
    gf = np.array(got["flags"], bool)
    if not np.array_equal(gf, f):
        if f.any() and not gf.any():
            fail(f"{pre}:improper-lost", f"{pre} drops the per-element improper flags", rep)
        else:
            fail(f"{pre}:improper-wrong", f"{pre}: elements carry other elements' improper flags", rep)
    if check_meta and meta is not None and list(got["meta"]) != list(meta):
        gm = got["meta"]
        if (gm[0], gm[1]) != (meta[0], meta[1]):
            lost = (gm[0], gm[1]) == (0, 0)
            fail(f"{pre}:symmetry-{'lost' if lost else 'wrong'}",
                 f"{pre}: symmetry ids {meta[:2]} become {gm[:2]}", rep)
        if gm[2] != meta[2]:
            fail(f"{pre}:phase-{'lost' if gm[2] == 0 else 'wrong'}", f"{pre}: phase id {meta[2]} becomes {gm[2]}", rep)
        if gm[3] != meta[3]:
            fail(f"{pre}:format-{'lost' if gm[3] == 0 else 'wrong'}",
                 f"{pre}: coordinate format {FMTS[meta[3]]} becomes {FMTS[gm[3]] if gm[3] >= 0 else '?'}", rep)


def public_properties(cls):
    return sorted(n for n, v in inspect.getmembers(cls, lambda v: isinstance(v, property))
                  if not n.startswith("_"))


def read_all_properties(o, origin, s_origin, rep):
    cname = type(o).__name__
    for p in public_properties(type(o)):
        before = snap(o)
        try:
            getattr(o, p)
        except Exception:
            pass
        after = snap(o)
        st(f"prop/{cname}")
        if not same_snap(before, after) or (origin is not None and not same_snap(s_origin, snap(origin))):
            fail(f"{cname}.{p}:operand-mutated",
                 f"reading {cname}.{p} changes the numerical content of the object (or of the object it was sliced from)",
                 dict(rep, prop=p, before=before, after=after))
            if origin is not None:
                s_origin.update(snap(origin))


def opname(op):
    if op["op"] == "get" and op["key"].get("t") == "adv":
        return "getitem-component-axis" if op["key"].get("grp") == "comp" else "getitem-adv"
    return {"get": "getitem", "invm": "inv-method", "stackwith": "stack-indep"}.get(op["op"], op["op"])


def is_ext(op):
    """operations the Coq model has no constructor for (oracle only)"""
    return op["op"] in ("invm", "stackwith") or (op["op"] == "get" and op["key"].get("t") == "adv")


def run_case(cname, x0, prog, tag, props=True, record=True, extra=None):
    """execute on the implementation, record outcomes, run the oracle
    (record=False: oracle only, the case is not handed to the Coq correspondence)"""
    s0 = snap(x0)
    origin_snap = copy.deepcopy(s0)
    steps = []
    cur = x0
    rep_base = dict({"cls": cname, "init": s0, "prog": prog}, **(extra or {}))
    for i, op in enumerate(prog):
        before = snap(cur)
        rep = dict(rep_base, step=i)
        # element-wise variants inside a stack are checked as the operations they are
        if op["op"] == "stack":
            for e in set(op["vs"]) - {"id"}:
                try:
                    exp = ref_step(cname, {"op": e}, before)
                    try:
                        got = snap(apply_eop(cur, e))
                        compare(cname, e, exp, got, before, rep)
                    except Exception as ex:  # noqa
                        fail(f"{cname}.{e}:raises", f"{cname}.{e} raises {type(ex).__name__}", rep)
                except Expect:
                    pass
        try:
            res = apply_op(cur, op)
            err = None
        except Exception as ex:  # noqa
            res, err = None, type(ex).__name__
        after = snap(cur)
        if not same_snap(before, after):
            fail(f"{cname}.{opname(op)}:operand-mutated", f"{cname}.{opname(op)} changes its operand", rep)
        if not same_snap(origin_snap, snap(x0)):
            fail(f"{cname}.{opname(op)}:operand-mutated",
                 f"{cname}.{opname(op)} changes an object the operand was derived from", rep)
            origin_snap = snap(x0)
        try:
            if op["op"] == "stack" and op["vs"]:
                # stacking itself: against the variants the implementation produced
                try:
                    vsn = [snap(apply_eop(cur, e)) for e in op["vs"]]
                    n = len(before["flags"])
                    dd = np.stack([np.array(v["data"], float).reshape(n, -1) for v in vsn], axis=1)
                    ff = np.stack([np.array(v["flags"], bool).reshape(n) for v in vsn], axis=1)
                    exp = (tuple(before["shape"]) + (len(vsn),), dd.reshape(n * len(vsn), -1), ff.reshape(-1), None)
                except Exception:
                    exp = None
            else:
                exp = ref_step(cname, op, before)
            expect_err = False
        except Expect:
            exp, expect_err = None, True
        if err is not None:
            steps.append({"op": op, "out": None, "err": err})
            if not expect_err and exp is not None:
                fail(f"{cname}.{opname(op)}:raises", f"{cname}.{opname(op)} raises {err} on a valid operand "
                     f"of shape {tuple(before['shape'])}", rep)
            break
        got = snap(res)
        steps.append({"op": op, "out": got})
        if expect_err:
            if not (cname not in QUAT and op["op"] in ("inv",)):
                fail(f"{cname}.{opname(op)}:no-raise", f"{cname}.{opname(op)} accepts an argument numpy rejects on an index array", rep)
        elif exp is not None:
            compare(cname, opname(op), exp, got, before, rep, check_meta=op["op"] not in ("stack", "stackwith"))
        cur = res
    # read every public property of the final object; neither it nor the initial object may change
    if props:
        read_all_properties(cur, x0, origin_snap, dict(rep_base, step=len(steps)))
    if record:
        cases.append({"k": "prog", "cls": cname, "init": s0, "steps": steps, "tag": tag})


def azimuth_case(cname, shape, meta):
    o = build(cname, shape, "none", meta, "tiny")
    before = snap(o)
    try:
        vals = np.asarray(o.azimuth, float).reshape(-1).tolist()
    except Exception:
        return
    after = snap(o)
    cases.append({"k": "az", "cls": cname, "init": before, "after": after["data"], "vals": vals})
    st(f"azimuth/{cname}")
    if not same_snap(before, after):
        fail(f"{cname}.azimuth:operand-mutated", f"reading {cname}.azimuth changes the stored vector components",
             {"cls": cname, "init": before, "after": after})


def pick_meta(cname):
    if cname == "Misorientation":
        return [R.randrange(len(SYMS)), R.randrange(len(SYMS)), 0, 0]
    if cname == "Orientation":
        return [0, R.randrange(len(SYMS)), 0, 0]
    if cname == "Miller":
        ph = R.randrange(N_MAIN_PHASES)
        return [0, 0, ph, 0 if ph == 0 else R.randrange(len(FMTS))]
    return [0, 0, 0, 0]


def weighted(ws):
    tot = sum(w for _, w in ws)
    x = R.uniform(0, tot)
    for k, w in ws:
        x -= w
        if x <= 0:
            return k
    return ws[-1][0]


if ONLY is not None:
    for c in ONLY:
        x0 = rebuild(c["init"], c.get("dtype"))
        ext = any(is_ext(o) for o in c["prog"])
        run_case(c["cls"], x0, c["prog"], "replay", record=not ext and not c.get("dtype"),
                 extra={"dtype": c["dtype"]} if c.get("dtype") else None)
elif EXH is not None:
    for cname in CLASSES:
        for shape in [(3,), (2, 2), (1, 3), (2, 1, 2), (0, 2), (2, 3, 2, 2)]:
            for prog in EXH:
                x0 = build(cname, shape, "mixed", pick_meta(cname), "plain")
                st(f"exhaustive/{cname}")
                run_case(cname, x0, prog, f"exhaustive/{cname}", props=False)
else:
    if any(v is None for v in ORDER.values()):
        fail("flatten:order-undefined", "flatten of a 2-D object is neither C nor Fortran order", {"order": ORDER})
    names = list(CLASSES)
    for i in range(N):
        cname = names[i % len(names)]
        stratum = weighted(STRATA_W)
        shape = R.choice(SHAPES[stratum])
        flagmode = R.choice(["mixed", "mixed", "mixed", "none", "all"]) if cname in ROT else "none"
        meta = pick_meta(cname)
        kind = R.choice(["plain", "plain", "tiny", "zero"])
        x0 = build(cname, shape, flagmode, meta, kind)
        L = R.randint(1, 6)
        bad_last = R.random() < 0.12
        # the program is generated against the shapes the implementation really produces
        prog = []
        cur = x0
        for j in range(L):
            op = gen_op(cname, tuple(cur.shape), bad=(bad_last and j == L - 1))
            prog.append(op)
            try:
                cur = apply_op(cur, op)
            except Exception:
                break
        st(f"{cname}/{stratum}")
        st(f"len={len(prog)}")
        st(f"flags={flagmode}")
        for op in prog:
            st(f"op/{op['op']}")
        if bad_last:
            st("malformed-last-op")
        run_case(cname, rebuild(snap(x0)), prog, f"{cname}/{stratum}")
    for i in range(max(6, N // 20)):
        cname = R.choice(["Vector3d", "Miller"])
        shape = R.choice(SHAPES["1d"] + SHAPES["2d"] + SHAPES["size1"])
        azimuth_case(cname, shape, pick_meta(cname))

emit({"cases": cases, "fails": fails, "strata": strata, "order": ORDER})
