"""C15 implementation harness (runs under /venv python with PYTHONPATH=<repo>).

For every vendor variant: generate a random ABSTRACT file, lay it out as tokens
with a Python copy of the Coq renderer (coq/Model/C15*.v `render_*`), serialise
the tokens to text / HDF5 (the shim), load the file with `orix.io.load`, and
report (a) the abstract file, the tokens and the observed map for the Coq
correspondence, (b) the verdicts of the property oracle (an independent
field-by-field expectation computed here from the abstract file).

Audit strata (after the base plan, `gen_extra`): formulas on some phases only / of several words, map origin
!= (0, 0), every point not indexed, grids up to 13 x 17, one-point scans (oracle only); and for every file a
serialisation / entry-point VARIANT that must give the same map as the primary file (`run_variant`: CRLF, no final
newline, blank tail, padded data lines, permuted .ctf header fields, upper-case extension, pathlib.Path, Manufacturer
as one-element array / lower-case key, no SEM group, h5py keyword, EMsoft default `refined`, deprecated loaders)."""
import math
import os
import pathlib
import shutil
import tempfile
import warnings

import h5py
import numpy as np
from common import emit, payload, rng

P = payload()
R = rng(P.get("seed", 0))
N = int(P.get("n", 200))
ONLY = P.get("only")            # replay: list of abstract-file dicts
TMP = tempfile.mkdtemp(prefix="c15_", dir=os.getcwd())

from orix import io  # noqa: E402
from orix.crystal_map import Phase  # noqa: E402

cases, fails, strata = [], [], {}


def st(k):
    strata[k] = strata.get(k, 0) + 1


def fail(sig, what, replay):
    fails.append({"sig": sig, "what": what, "replay": replay})


# ------------------------------------------------------------ Coq term JSON
def C(name, *args):
    return {"c": name, "a": list(args)}


def Nat(n):
    return {"nat": int(n)}


def Some(x):
    return {"some": x}


def Tp(*xs):
    return {"t": list(xs)}


def Fl(x):
    return {"f": float(x)}


def fl(xs):
    return [Fl(x) for x in xs]


def eu3(e):
    return Tp(Fl(e[0]), Fl(e[1]), Fl(e[2]))


# ---------------------------------------------------------------- alphabets
WORDS = ["Aluminum", "Iron", "fcc", "bcc", "Nickel", "austenite", "ferrite", "Ti", "alpha", "Gold", "Si", "Cu2O",
         "ferrite/ferrite", "Zr_beta", "Mg", "phase", "Oxide", "X1", "gamma", "Al"]
INFO = ["TEM_PIXperUM 1.000000", "x-star 0.413900", "WorkingDistance 17.0", "GRID: SqrGrid", "XSTEP: 0.100000",
        "NCOLS_ODD: 13", "OPERATOR: me", "SAMPLEID:", "NumberFamilies 4", "hklFamilies 1 1 1 1 0.000000",
        "ni-dislocations.res", "Info", "Categories0 0 0 0 0"]
STEPS = [0.1, 0.25, 1.5, 2.86, 0.00191999995708466, 1.0, 0.05]
LATS = [[4.04, 4.04, 4.04, 90.0, 90.0, 90.0], [2.867, 2.867, 2.867, 90.0, 90.0, 90.0],
        [5.123, 5.123, 13.76, 90.0, 90.0, 120.0], [2.95, 2.95, 4.68, 90.0, 90.0, 120.0],
        [15.009, 8.066, 12.469, 90.0, 107.72, 90.0], [3.6, 4.1, 5.2, 90.0, 90.0, 90.0],
        [4.9, 5.1, 6.3, 81.5, 96.25, 103.0]]
# EDAX TSL symmetry codes (OIM): the alias table of orix + code 62 (dihexagonal)
TSL_SYM = {"43": "432", "23": "23", "62": "622", "6": "6", "32": "32", "3": "3", "42": "422", "4": "4",
           "22": "222", "2": "2/m", "20": "121", "1": "1", "m3m": "m-3m", "432": "432", "m-3m": "m-3m",
           "6/mmm": "6/mmm", "622": "622", "3m": "3m", "mmm": "mmm", "4/mmm": "4/mmm"}
LAUE = ["-1", "2/m", "mmm", "4/m", "4/mmm", "-3", "-3m", "6/m", "6/mmm", "m-3", "m-3m"]
SG_PG_RANGES = [(1, "1"), (2, "-1"), (5, "2"), (9, "m"), (15, "2/m"), (24, "222"), (46, "mm2"), (74, "mmm"),
                (80, "4"), (82, "-4"), (88, "4/m"), (98, "422"), (110, "4mm"), (122, "-42m"), (142, "4/mmm"),
                (146, "3"), (148, "-3"), (155, "32"), (161, "3m"), (167, "-3m"), (173, "6"), (174, "-6"),
                (176, "6/m"), (182, "622"), (186, "6mm"), (190, "-6m2"), (194, "6/mmm"), (199, "23"),
                (206, "m-3"), (214, "432"), (220, "-43m"), (230, "m-3m")]
LAUE_OF_PG = {"1": "-1", "-1": "-1", "2": "2/m", "m": "2/m", "2/m": "2/m", "222": "mmm", "mm2": "mmm", "mmm": "mmm",
              "4": "4/m", "-4": "4/m", "4/m": "4/m", "422": "4/mmm", "4mm": "4/mmm", "-42m": "4/mmm",
              "4/mmm": "4/mmm", "3": "-3", "-3": "-3", "32": "-3m", "3m": "-3m", "-3m": "-3m", "6": "6/m",
              "-6": "6/m", "6/m": "6/m", "622": "6/mmm", "6mm": "6/mmm", "-6m2": "6/mmm", "6/mmm": "6/mmm",
              "23": "m-3", "m-3": "m-3", "432": "m-3m", "-43m": "m-3m", "m-3m": "m-3m"}


def sg_pg(n):
    for hi, name in SG_PG_RANGES:
        if n <= hi:
            return name
    return "m-3m"


def rand_euler_rad():
    k = R.random()
    if k < 0.1:
        return [R.choice([0.0, math.pi, 2 * math.pi, 4 * math.pi]), R.choice([0.0, math.pi / 2, math.pi]),
                R.choice([0.0, 1.0, 2 * math.pi])]
    return [round(R.uniform(0, 2 * math.pi), 5), round(R.uniform(0, math.pi), 5), round(R.uniform(0, 2 * math.pi), 5)]


def rand_euler_deg():
    k = R.random()
    if k < 0.1:
        return [R.choice([0.0, 90.0, 180.0, 360.0]), R.choice([0.0, 90.0, 180.0]), R.choice([0.0, 45.0, 360.0])]
    return [round(R.uniform(0, 360), 4), round(R.uniform(0, 180), 4), round(R.uniform(0, 360), 4)]


GRID = None         # audit strata: forced (nrows, ncols) of the next generated file ("big", "one")


def rand_grid():
    if GRID is not None:
        return GRID[0], GRID[1], R.choice(STEPS), R.choice(STEPS)
    nr = R.choice([1, 2, 2, 3, 3, 4, 5])
    nc = R.choice([1, 2, 3, 3, 4, 5, 7])
    if nr * nc == 1:            # one-point maps: CrystalMap itself is degenerate (C13 territory)
        nc = 2
    return nr, nc, R.choice(STEPS), R.choice(STEPS)


def ws():
    """random in-line whitespace"""
    return R.choice([" ", "  ", "\t", " \t", "      "])


def num_txt(v):
    return repr(float(v))


# ======================================================================= ANG
ANG_EXPECTED_REST = {"tsl": [2, 6], "emsoft": [0], "astar": [1], "orix": [2]}
ANG_NAMES = {
    "tsl": ["iq", "ci", "detector_signal", "fit", "unknown1", "unknown2", "unknown3", "unknown4"],
    "emsoft": ["iq", "dp"], "astar": ["ind", "rel", "relx100"], "orix": ["iq", "ci", "detector_signal", "fit"]}
ORIX_BASE = ["phi1", "Phi", "phi2", "x", "y", "image_quality", "confidence_index", "phase_id", "detector_signal",
             "fit"]


def gen_ang(vendor, mode):
    """mode: 'ok' | 'cols' (unexpected column count) | 'sym62' | 'zero' (single phase, data id 0)"""
    nr, nc, dx, dy = rand_grid()
    nph = 1 if vendor == "astar" or mode == "zero" else R.choice([1, 2, 2, 3])
    if mode == "formula":
        nph = R.choice([2, 3])
    ids = list(range(1, nph + 1))
    if vendor == "orix" or R.random() < 0.2:
        ids = ids[::-1]
    if R.random() < 0.15:
        ids = [i + R.choice([1, 3]) for i in ids]
    syms = list(TSL_SYM)
    with_formula = R.random() < 0.6 and vendor != "astar"
    phases = []
    for k in range(nph):
        name = [R.choice(WORDS) + (str(k) if R.random() < 0.5 else "") for _ in range(R.choice([1, 1, 2, 3]))]
        name[0] = name[0] + str(k)      # unique names
        phases.append({
            "id": None if vendor == "astar" else ids[k],
            "name": name,
            "formula": (R.choice(WORDS) + "F" + str(k)) if with_formula else None,
            "info": [R.choice(INFO).split() for _ in range(R.choice([0, 1, 2]))],
            "sym": "62" if (mode == "sym62" and k == 0) else R.choice(syms),
            "lat": list(R.choice(LATS))})
    if vendor in ("tsl",):
        nrest = R.choice([2, 6])
    else:
        nrest = ANG_EXPECTED_REST[vendor][0]
    extra = []
    if vendor == "orix":
        extra = [R.choice(["kam", "band contrast", "my prop", "gos", "dp"]) + str(j) for j in range(R.choice([0, 0, 1, 2]))]
        nrest = 2 + len(extra)
    if mode == "cols":
        bad = [k for k in [0, 1, 2, 3, 4, 5, 7, 9] if k not in ANG_EXPECTED_REST[vendor]]
        if vendor == "orix":    # the orix header names its own columns; fewer data columns than names is an
            bad = [k for k in bad if k > 2 + len(extra)]     # inconsistent file (IndexError), more are ignored
        nrest = R.choice(bad)
    used = ids if R.random() < 0.7 else [R.choice(ids)]
    if vendor == "astar":
        used = [1]
    if mode == "zero":
        used = [0]
    pts = []
    for r in range(nr):
        for c in range(nc):
            ni = vendor in ("tsl", "orix") and R.random() < 0.15
            pts.append({
                "eu": [4 * math.pi] * 3 if ni else rand_euler_rad(),
                "x": c * dx, "y": r * dy,
                "q": round(R.uniform(0, 1000), 1),
                "c": -1.0 if ni else round(R.uniform(0, 1), 3),
                "pid": R.choice(used),
                "rest": [float(R.randint(0, 50)) if j == 0 else round(R.uniform(0, 3), 3) for j in range(nrest)]})
    return {"fmt": "ang", "vendor": vendor, "mode": mode, "nrows": nr, "ncols": nc, "dx": dx, "dy": dy,
            "pre": [R.choice(INFO).split() for _ in range(R.choice([0, 1, 3]))],
            "post": [R.choice(INFO).split() for _ in range(R.choice([0, 2, 4]))],
            "phases": phases, "extra": extra, "pts": pts}


def ang_coq(f):
    v = {"tsl": "Tsl", "emsoft": "AEmsoft", "astar": "AAstar", "orix": "AOrix"}[f["vendor"]]
    ph = [C("mkAP", Some(p["id"]) if p["id"] is not None else None, p["name"],
            Some(p["formula"]) if p["formula"] is not None else None, p["info"], p["sym"], fl(p["lat"]))
          for p in f["phases"]]
    pts = [C("mkPt", eu3(p["eu"]), Fl(p["x"]), Fl(p["y"]), Fl(p["q"]), Fl(p["c"]), p["pid"], fl(p["rest"]))
           for p in f["pts"]]
    return C("mkAF", C(v), f["pre"], ph, f["post"], f["extra"], pts)


def ang_tokens(f):
    """Python copy of Model/C15Ang.v render_ang"""
    lines = []
    if f["vendor"] == "astar":
        lines.append(("ALInfo", ["File", "created", "from", "ACOM", "RES", "results"]))
    if f["vendor"] == "emsoft":
        lines.append(("ALInfo", ["Info", "patterns", "indexed", "using", "EMsoft::EMEBSDDI"]))
    lines += [("ALInfo", w) for w in f["pre"]]
    for p in f["phases"]:
        if p["id"] is not None:
            lines.append(("ALPhase", p["id"]))
        lines.append(("ALName", p["name"]))
        lines.append(("ALFormula", [p["formula"]] if p["formula"] is not None else []))
        lines += [("ALInfo", w) for w in p["info"]]
        lines.append(("ALSym", [p["sym"]]))
        lines.append(("ALLat", p["lat"]))
    lines += [("ALInfo", w) for w in f["post"]]
    if f["vendor"] == "orix":
        lines.append(("ALCols", ORIX_BASE + f["extra"]))
    rows = [[("F", p["eu"][0]), ("F", p["eu"][1]), ("F", p["eu"][2]), ("F", p["x"]), ("F", p["y"]), ("F", p["q"]),
             ("F", p["c"]), ("I", p["pid"])] + [("F", v) for v in p["rest"]] for p in f["pts"]]
    return lines, rows


def row_coq(row):
    return [C("NF", Fl(v)) if k == "F" else C("NI", int(v)) for k, v in row]


def ang_tokens_coq(tk):
    lines, rows = tk
    out = []
    for k, v in lines:
        out.append(C(k, fl(v)) if k == "ALLat" else C(k, v))
    return out, [row_coq(r) for r in rows]


def row_text(row, sep=None):
    s = ""
    for k, v in row:
        s += (sep if sep is not None else ws()) + (num_txt(v) if k == "F" else str(int(v)))
    return s


def ang_text(tk):
    lines, rows = tk
    keys = {"ALPhase": "Phase", "ALName": "MaterialName", "ALFormula": "Formula", "ALSym": "Symmetry",
            "ALLat": "LatticeConstants"}
    out = []
    for k, v in lines:
        if k == "ALInfo":
            out.append("# " + ws().join(v))
        elif k == "ALCols":
            out.append("# Column names: " + ", ".join(v))
        elif k == "ALPhase":
            out.append("# Phase" + ws() + str(v))
        elif k == "ALLat":
            out.append("# LatticeConstants" + ws() + ws().join("%.3f" % x if float("%.3f" % x) == x else repr(x) for x in v))
        else:
            if k == "ALFormula" and v and " " in v[0]:      # multi-word formula: one token, any whitespace inside
                v = v[0].split(" ")
            out.append("# " + keys[k] + (ws() + ws().join(v) if v else R.choice(["", "  ", " \t"])))
    return "\n".join(out) + "\n" + "\n".join(row_text(r) for r in rows) + "\n"


def ang_expected(f):
    """the property's expectation, independent of the model"""
    v = f["vendor"]
    nrest = len(f["pts"][0]["rest"])
    ncol = 8 + nrest
    generic = (nrest not in ANG_EXPECTED_REST[v]) if v != "orix" else False
    e = {"warn": generic, "unit": "nm" if v == "astar" else "um"}
    pts = f["pts"]
    e["eu"] = [p["eu"] for p in pts]
    e["x"] = [p["x"] for p in pts]
    e["y"] = [p["y"] for p in pts]
    if generic:
        names = ["unknown1", "unknown2"] + ["unknown%d" % (i + 3) for i in range(nrest)]
        has_ci = False
    elif v == "orix":
        names = ANG_NAMES[v] + [x.replace(" ", "_") for x in f["extra"]]
        has_ci = True
    else:
        names = ANG_NAMES[v][:2 + nrest]
        has_ci = v == "tsl"
    cols = [[p["q"] for p in pts], [p["c"] for p in pts]] + [[p["rest"][j] for p in pts] for j in range(nrest)]
    e["props"] = [(n, c) for n, c in zip(names, cols)]      # orix: data columns beyond the named ones are dropped
    e["pid"] = [(-1 if (has_ci and p["c"] == -1) else p["pid"]) for p in pts]
    ids = [p["id"] for p in f["phases"]]
    if all(i is None for i in ids):
        ids = list(range(len(ids)))
    allform = all(p["formula"] for p in f["phases"])
    hp = {i: {"name": (p["formula"] if allform else " ".join(p["name"])), "sg": None, "pg": TSL_SYM[p["sym"]],
              "lat": p["lat"]} for i, p in zip(ids, f["phases"])}
    used = sorted(set(x for x in e["pid"] if x != -1))
    if all(u in hp for u in used):
        e["phases"] = [(u, hp[u]) for u in used]
    elif len(hp) == 1 and len(used) == 1:   # single-phase files: the only data id IS the only header phase
        e["phases"] = [(used[0], list(hp.values())[0])]
    else:
        e["phases"] = None
    e["ni"] = -1 in e["pid"]
    return e


# ======================================================================= CTF
def gen_ctf(vendor, mode):
    """mode: 'ok' | 'laue10' | 'noncentro' | 'line' (1 row or 1 column) | 'extra' (more than 11 columns)"""
    nr, nc, dx, dy = rand_grid()
    if mode == "line":
        if R.random() < 0.5:
            nr = 1
            nc = max(nc, 2)
        else:
            nc = 1
            nr = max(nr, 2)
    nph = R.choice([1, 1, 2, 3]) if vendor in ("oxford", "bruker") else R.choice([1, 1, 2])
    phases = []
    for k in range(nph):
        laue = R.choice([1, 2, 3, 4, 5, 6, 7, 8, 9, 10, 11, 11, 11])
        cands = [n for n in range(1, 231) if LAUE_OF_PG[sg_pg(n)] == LAUE[laue - 1]]
        centro = [n for n in cands if sg_pg(n) == LAUE[laue - 1]]
        k3 = R.random()     # centrosymmetric / any space group of the Laue class / none
        sg = R.choice(centro) if k3 < 0.5 else (R.choice(cands) if k3 < 0.8 else 0)
        if vendor == "mtex":
            sg = 0
        if mode == "laue10" and k == 0:
            laue, sg = 10, R.choice([0, 200, 205])
        if mode == "noncentro" and k == 0:
            sg = R.choice([n for n in cands if sg_pg(n) != LAUE[laue - 1]] or [1])
            if sg == 1:
                laue = 1
        phases.append({"lat": list(R.choice(LATS)), "name": " ".join(R.choice(WORDS) for _ in range(R.choice([1, 2]))) + str(k),
                       "laue": laue, "sg": sg, "rest": R.choice([[], ["", "", "Some reference"], ["", "", "ref 2"]])})
    used = list(range(1, nph + 1)) if R.random() < 0.7 else [R.choice(range(1, nph + 1))]
    pts = []
    two_dec = vendor == "astar"
    for r in range(nr):
        for c in range(nc):
            ni = R.random() < 0.15
            x, y = c * dx, r * dy
            if two_dec:     # ASTAR prints coordinates with 4 decimals although XStep has many more
                x, y = float("%.4f" % x), float("%.4f" % y)
            pts.append({"pid": 0 if ni else R.choice(used), "x": x, "y": y,
                        "bands": float(0 if ni else R.randint(4, 9)), "err": float(3 if ni else 0),
                        "eu": [0.0, 0.0, 0.0] if ni else rand_euler_deg(),
                        "mad": 0.0 if ni else round(R.uniform(0, 2), 4), "bc": float(R.randint(0, 255)),
                        "bs": float(R.randint(0, 255)),
                        "extra": [float(R.randint(0, 9)) for _ in range(2)] if mode == "extra" else []})
    return {"fmt": "ctf", "vendor": vendor, "mode": mode, "nrows": nr, "ncols": nc, "dx": dx, "dy": dy,
            "prj": [R.choice(["standard steel sample", "unnamed", "/some/where/x.ctf"])],
            "author": R.choice(["", "[Unknown]", "Me Again"]),
            "misc": [["Euler angles refer to Sample Coordinate system (CS0)!", "Mag", "180.0000", "Coverage", "97",
                      "KV", "20.0000"]] if R.random() < 0.8 else [],
            "comma": vendor == "bruker", "phases": phases, "pts": pts}


CTF_V = {"oxford": "COxford", "bruker": "CBruker", "emsoft": "CEmsoft", "astar": "CAstar", "mtex": "CMtex"}
EMSOFT_LINE = "EMsoft v. 4_1_1_9d5269a; BANDS=pattern index, MAD=CI, BC=OSM, BS=IQ"


def ctf_coq(f):
    ph = [C("mkCP", fl(p["lat"]), p["name"], p["laue"], p["sg"], p["rest"]) for p in f["phases"]]
    pts = [C("mkCPt", p["pid"], Fl(p["x"]), Fl(p["y"]), Fl(p["bands"]), Fl(p["err"]), eu3(p["eu"]), Fl(p["mad"]),
             Fl(p["bc"]), Fl(p["bs"]), fl(p["extra"])) for p in f["pts"]]
    return C("mkCF", C(CTF_V[f["vendor"]]), f["prj"], f["author"], f["misc"], Nat(f["nrows"]), Nat(f["ncols"]),
             Fl(f["dx"]), Fl(f["dy"]), ph, pts)


def ctf_tokens(f):
    """Python copy of Model/C15Ctf.v render_ctf"""
    v = f["vendor"]
    lines = [("CLText", ["Channel Text File"]),
             ("CLText", [EMSOFT_LINE]) if v == "emsoft" else ("CLText", ["Prj"] + f["prj"]),
             ("CLText", ["Author", "File created from ACOM RES results"]) if v == "astar"
             else ("CLText", ["Author", f["author"]]),
             ("CLText", ["JobMode", "Grid"]),
             ("CLNum", "XCells", ("I", f["ncols"])), ("CLNum", "YCells", ("I", f["nrows"])),
             ("CLNum", "XStep", ("F", f["dx"])), ("CLNum", "YStep", ("F", f["dy"])),
             ("CLNum", "AcqE1", ("I", 0)), ("CLNum", "AcqE2", ("I", 0)), ("CLNum", "AcqE3", ("I", 0))]
    lines += [("CLText", m) for m in f["misc"]]
    lines.append(("CLPhases", len(f["phases"])))
    for p in f["phases"]:
        lines.append(("CLPhase", p["lat"], p["name"], p["laue"], p["sg"],
                      p["rest"] + (["Created from mtex"] if v == "mtex" else [])))
    lines.append(("CLCols",))
    rows = [[("I", p["pid"]), ("F", p["x"]), ("F", p["y"]), ("F", p["bands"]), ("F", p["err"]), ("F", p["eu"][0]),
             ("F", p["eu"][1]), ("F", p["eu"][2]), ("F", p["mad"]), ("F", p["bc"]), ("F", p["bs"])]
            + [("F", v) for v in p["extra"]] for p in f["pts"]]
    return lines, rows


def ctf_tokens_coq(tk):
    lines, rows = tk
    out = []
    for l in lines:
        if l[0] == "CLNum":
            out.append(C("CLNum", l[1], row_coq([l[2]])[0]))
        elif l[0] == "CLPhase":
            out.append(C("CLPhase", fl(l[1]), l[2], l[3], l[4], l[5]))
        elif l[0] == "CLCols":
            out.append(C("CLCols"))
        else:
            out.append(C(l[0], l[1]))
    return out, [row_coq(r) for r in rows]


def ctf_text(tk, comma):
    lines, rows = tk

    def hnum(kv):
        s = num_txt(kv[1]) if kv[0] == "F" else str(kv[1])
        return s.replace(".", ",") if comma else s

    def lat(x):
        s = "%.3f" % x if float("%.3f" % x) == x else repr(x)
        return s.replace(".", ",") if comma else s
    out = []
    for l in lines:
        if l[0] == "CLText":
            out.append("\t".join(l[1]))
        elif l[0] == "CLNum":
            out.append(l[1] + "\t" + hnum(l[2]))
        elif l[0] == "CLPhases":
            out.append("Phases\t%d" % l[1])
        elif l[0] == "CLPhase":
            out.append("\t".join([";".join(lat(x) for x in l[1][:3]), ";".join(lat(x) for x in l[1][3:]), l[2],
                                  str(l[3]), str(l[4])] + l[5]))
        else:
            out.append("Phase\tX\tY\tBands\tError\tEuler1\tEuler2\tEuler3\tMAD\tBC\tBS")
    return "\n".join(out) + "\n" + "\n".join(row_text(r, "\t").lstrip("\t") for r in rows) + "\n"


def ctf_expected(f):
    v = f["vendor"]
    pts = f["pts"]
    e = {"warn": False, "unit": "um", "eu": [[math.radians(a) for a in p["eu"]] for p in pts]}
    if v == "astar":        # header grid is authoritative (coordinates are printed with too few decimals)
        e["x"] = [c * f["dx"] for r in range(f["nrows"]) for c in range(f["ncols"])]
        e["y"] = [r * f["dy"] for r in range(f["nrows"]) for c in range(f["ncols"])]
    else:
        e["x"] = [p["x"] for p in pts]
        e["y"] = [p["y"] for p in pts]
    names = ["bands", "error", "DP", "OSM", "IQ"] if v == "emsoft" else ["bands", "error", "MAD", "BC", "BS"]
    e["props"] = list(zip(names, [[p[k] for p in pts] for k in ("bands", "err", "mad", "bc", "bs")]))
    e["pid"] = [(-1 if p["pid"] == 0 else p["pid"]) for p in pts]
    hp = {}
    for i, p in enumerate(f["phases"]):
        laue = LAUE[p["laue"] - 1]
        hp[i + 1] = {"name": p["name"], "sg": p["sg"] or None, "pg": sg_pg(p["sg"]) if p["sg"] else laue,
                     "lat": p["lat"]}
    used = sorted(set(x for x in e["pid"] if x != -1))
    e["phases"] = [(u, hp[u]) for u in used]
    e["ni"] = -1 in e["pid"]
    return e


# ==================================================================== BRUKER
B_FREE = ["PCX", "PCY", "DD", "MAD", "MADPhase", "NIndexedBands", "RadonBandCount", "RadonQuality", "X BEAM",
          "Y BEAM", "Z SAMPLE"]
B_PROP = {"PCX": "PCX", "PCY": "PCY", "DD": "DD", "MAD": "MAD", "MADPhase": "MADPhase",
          "NIndexedBands": "NIndexedBands", "RadonBandCount": "RadonBandCount", "RadonQuality": "RadonQuality",
          "X BEAM": "XBEAM", "Y BEAM": "YBEAM", "X SAMPLE": "XSAMPLE", "Y SAMPLE": "YSAMPLE", "Z SAMPLE": "ZSAMPLE"}


def gen_bruker(mode, label=None):
    """mode: 'ok' (file order = grid order) | 'cols' (shuffled within rows) | 'rows' (rows shuffled too) | 'noroi';
    label: name of the stratum if it is not the mode (audit strata)"""
    nr, nc, dx, dy = rand_grid()
    if mode == "rows":
        nr = max(nr, 2)
    n = nr * nc
    order = list(range(n))
    if mode in ("cols", "rows"):
        rows = [order[r * nc:(r + 1) * nc] for r in range(nr)]
        for r in rows:
            R.shuffle(r)
        if mode == "rows":
            while True:
                R.shuffle(rows)
                if [r[0] // nc for r in rows] != sorted(r[0] // nc for r in rows):
                    break
        order = [p for r in rows for p in r]
    ids = R.choice([[1], [1, 2], [1, 2], [2, 3], [1, 2, 3]])
    phases = [(i, {"name": R.choice(WORDS) + str(i), "it": R.choice([225, 229, 194, 186, 62, 14, 2, 216, 141, 167, 1]),
                   "lat": list(R.choice(LATS))}) for i in ids]
    used = ids if R.random() < 0.7 else [R.choice(ids)]
    pts = []
    for p in range(n):
        ni = R.random() < 0.15
        pts.append({"pid": 0 if ni else R.choice(used), "eu": [0.0, 0.0, 0.0] if ni else rand_euler_deg(),
                    "vals": [round(R.uniform(0, 1), 4) if j < 4 or j == 7 else float(R.randint(0, 12)) for j in range(len(B_FREE))]})
    return {"fmt": "bruker", "vendor": "bruker", "mode": label or mode, "nrows": nr, "ncols": nc, "dx": dx, "dy": dy,
            "x0": R.choice([0.0, 12.5, -3.0]), "y0": R.choice([0.0, 7.25, -1.5]), "roi": mode != "noroi",
            "r0": R.choice([0, 0, 5]), "c0": R.choice([0, 0, 11]), "order": order, "phases": phases, "pts": pts,
            "sem_in_ebsd": R.random() < 0.5, "sem_prefix": R.random() < 0.3}


def bruker_coq(f):
    ph = [Tp(i, C("mkBP", p["name"], p["it"], fl(p["lat"]))) for i, p in f["phases"]]
    pts = [C("mkBPt", p["pid"], eu3(p["eu"]), fl(p["vals"])) for p in f["pts"]]
    return C("mkBF", Nat(f["nrows"]), Nat(f["ncols"]), Fl(f["dx"]), Fl(f["dy"]), Fl(f["x0"]), Fl(f["y0"]),
             f["roi"], f["r0"], f["c0"], [Nat(k) for k in f["order"]], ph, pts)


def bruker_tokens(f):
    """Python copy of Model/C15H5.v render_bruker"""
    nc = f["ncols"]
    order, pts = f["order"], f["pts"]
    t = {"iy": [f["r0"] + p // nc for p in order] if f["roi"] else None,
         "ix": [f["c0"] + p % nc for p in order] if f["roi"] else None,
         "nrows": f["nrows"], "ncols": nc, "grid": "isometric",
         "phase": [pts[p]["pid"] for p in order],
         "eu": [("phi1", [pts[p]["eu"][0] for p in order]), ("PHI", [pts[p]["eu"][1] for p in order]),
                ("phi2", [pts[p]["eu"][2] for p in order])],
         "data": [("X SAMPLE", [f["x0"] + float(nc - 1 - p % nc) * f["dx"] for p in order]),
                  ("Y SAMPLE", [f["y0"] + float(p // nc) * f["dy"] for p in order])]
         + [(name, [pts[p]["vals"][j] for p in order]) for j, name in enumerate(B_FREE)],
         "phases": f["phases"]}
    return t


def bruker_tokens_coq(t):
    return C("mkBT", Some(t["iy"]) if t["iy"] is not None else None, Some(t["ix"]) if t["ix"] is not None else None,
             t["nrows"], t["ncols"], t["grid"], t["phase"], [Tp(k, fl(v)) for k, v in t["eu"]],
             [Tp(k, fl(v)) for k, v in t["data"]],
             [Tp(i, C("mkBP", p["name"], p["it"], fl(p["lat"]))) for i, p in t["phases"]])


def write_manufacturer(h, names, variant):
    """top-level Manufacturer / Version datasets; variants: one-element array of fixed-length bytes (as EMsoft and
    kikuchipy write them), lower-case dataset names (the reader compares `key.lower()`)"""
    man = R.choice(names)
    man = man.encode() if isinstance(man, str) else man
    lower = variant == "man-key-lower"
    if variant == "man-array":
        h.create_dataset("Manufacturer", data=np.array([man], dtype=np.dtype("S")))
        h.create_dataset("Version", data=np.array([b"5.0"], dtype=np.dtype("S")))
    else:
        h.create_dataset("manufacturer" if lower else "Manufacturer", data=man)
        h.create_dataset("version" if lower else "Version", data=b"Esprit 2.X")


def bruker_write(t, f, path, variant=None):
    with h5py.File(path, "w") as h:
        if variant in ("man-array", "man-key-lower"):
            write_manufacturer(h, [b"Bruker Nano", b"Bruker"], variant)
        else:
            h.create_dataset("Manufacturer", data=R.choice([b"Bruker Nano", b"Bruker"]))
            h.create_dataset("Version", data=b"Esprit 2.X")
        scan = R.choice(["Scan 1", "Scan 0"])
        eb = h.create_group(scan + "/EBSD")
        dg, hg = eb.create_group("Data"), eb.create_group("Header")
        if variant == "no-sem-group":       # no SEM group at all (only without ROI index datasets)
            assert t["iy"] is None
        else:
            sem = eb.create_group("SEM") if f["sem_in_ebsd"] else h[scan].create_group("SEM")
            if t["iy"] is not None:
                pre = "SEM " if f["sem_prefix"] else ""
                sem.create_dataset(pre + "IY", data=np.array(t["iy"], dtype=np.int32))
                sem.create_dataset(pre + "IX", data=np.array(t["ix"], dtype=np.int32))
            sem.create_dataset("SEM ZOffset", data=0.0)
        hg.create_dataset("NROWS", data=t["nrows"], dtype=np.int32)
        hg.create_dataset("NCOLS", data=t["ncols"], dtype=np.int32)
        hg.create_dataset("Grid Type", data=t["grid"].encode())
        hg.create_dataset("NPoints", data=len(t["phase"]), dtype=np.int32)
        pg = hg.create_group("Phases")
        for i, p in t["phases"]:
            g = pg.create_group(str(i))
            g.create_dataset("Formula", data=p["name"].encode())
            g.create_dataset("IT", data=p["it"], dtype=np.int32)
            g.create_dataset("LatticeConstants", data=np.array(p["lat"], dtype=np.float64))
            g.create_dataset("Name", data=p["name"].encode())
            g.create_dataset("Setting", data=1)
            ap = g.create_group("AtomPositions")
            ap.create_dataset("1", data=b"Fe,0,0,0,1,0")
        dg.create_dataset("Phase", data=np.array(t["phase"], dtype=np.int32))
        for k, v in t["eu"] + t["data"]:
            dg.create_dataset(k, data=np.array(v, dtype=np.float64))


def bruker_expected(f):
    pts = f["pts"]
    nr, nc = f["nrows"], f["ncols"]
    e = {"warn": False, "unit": "um", "eu": [[math.radians(a) for a in p["eu"]] for p in pts],
         "x": [c * f["dx"] for r in range(nr) for c in range(nc)],
         "y": [r * f["dy"] for r in range(nr) for c in range(nc)],
         "pid": [(-1 if p["pid"] == 0 else p["pid"]) for p in pts]}
    props = []
    for name in ["PCX", "PCY", "DD", "MAD", "MADPhase", "NIndexedBands", "RadonBandCount", "RadonQuality", "X BEAM",
                 "Y BEAM", "X SAMPLE", "Y SAMPLE", "Z SAMPLE"]:
        if name == "X SAMPLE":
            v = [f["x0"] + float(nc - 1 - c) * f["dx"] for r in range(nr) for c in range(nc)]
        elif name == "Y SAMPLE":
            v = [f["y0"] + float(r) * f["dy"] for r in range(nr) for c in range(nc)]
        else:
            v = [p["vals"][B_FREE.index(name)] for p in pts]
        props.append((B_PROP[name], v))
    e["props"] = props
    hp = {i: {"name": p["name"], "sg": p["it"], "pg": sg_pg(p["it"]), "lat": p["lat"]} for i, p in f["phases"]}
    used = sorted(set(x for x in e["pid"] if x != -1))
    e["phases"] = [(u, hp[u]) for u in used]
    e["ni"] = -1 in e["pid"]
    return e


# ==================================================================== EMSOFT
E_PG = [("Monoclinic b (C2h) [2/m]", "2/m"), ("Cubic (Oh) [m-3m]", "m-3m"), ("Hexagonal (D6h) [6/mmm]", "6/mmm"),
        ("Cubic (O) [432]", "432"), ("Trigonal (D3d) [-3m]", "-3m"), ("Orthorhombic (D2h) [mmm]", "mmm")]


def gen_emsoft(refined, label=None):
    nr, nc, dx, dy = rand_grid()
    n = nr * nc
    nnk = R.choice([1, 2, 3, 5])
    nd = R.choice([5, 9, 20])
    pad_top = R.choice([0, 0, 1, 3])
    props = []
    for name, kind in [("CI", "flat"), ("IQ", "flat"), ("ISM", "flat"), ("KAM", "map"), ("OSM", "map"),
                       ("AvDotProductMap", "map"), ("TopDotProductList", "top"), ("NotAProperty", "flat")]:
        if R.random() < 0.2:
            continue
        if kind == "top":
            shape = [n + pad_top, nnk]
        else:
            shape = [n] if kind == "flat" else [nr, nc]
        props.append((name, shape, [round(R.uniform(0, 1), 4) for _ in range(int(np.prod(shape)))]))
    if refined:
        props.append(("RefinedDotProducts", [n], [round(R.uniform(0, 1), 4) for _ in range(n)]))
    pgd, pg = R.choice(E_PG)
    name = R.choice(["fe4al13", "Ni", "austenite", "Ti_alpha"])
    return {"fmt": "emsoft", "vendor": "emsoft_h5", "mode": (label + "-" if label else "") + ("refined" if refined else "topmatch"), "nrows": nr,
            "ncols": nc, "dx": dx, "dy": dy, "nnk": nnk,
            "dict": [rand_euler_deg() for _ in range(nd)], "pad_dict": [rand_euler_deg() for _ in range(R.choice([0, 2]))],
            "top": [[R.randint(1, nd) for _ in range(nnk)] for _ in range(n)],
            "pad_top": [[R.randint(1, nd) for _ in range(nnk)] for _ in range(pad_top)],
            "refined": [rand_euler_rad() for _ in range(n)] if (refined or R.random() < 0.3) else None,
            "use_refined": refined, "phase": [R.choice([0, 0, 1])] * n, "props": props, "name": name,
            "matname": name + R.choice(["", "/" + name, " (x)"]), "pgdesc": pgd, "pg": pg, "lat": list(R.choice(LATS))}


def emsoft_coq(f):
    return C("mkEF", Nat(f["nrows"]), Nat(f["ncols"]), Fl(f["dx"]), Fl(f["dy"]), Nat(f["nnk"]),
             [eu3(e) for e in f["dict"]], [eu3(e) for e in f["pad_dict"]], f["top"], f["pad_top"],
             Some([eu3(e) for e in f["refined"]]) if f["refined"] is not None else None, f["phase"],
             [Tp(k, Tp([Nat(s) for s in sh], fl(v))) for k, sh, v in f["props"]], f["name"], f["pg"], fl(f["lat"]))


def emsoft_tokens(f):
    """Python copy of Model/C15H5.v render_emsoft"""
    return {"nrows": f["nrows"], "ncols": f["ncols"], "stepy": f["dy"],
            "xpos": [float(c) * f["dx"] for r in range(f["nrows"]) for c in range(f["ncols"])],
            "phase": f["phase"], "nnk": f["nnk"], "fzcnt": len(f["dict"]), "dict": f["dict"] + f["pad_dict"],
            "top": f["top"] + f["pad_top"], "refined": f["refined"], "props": f["props"], "name": f["name"],
            "pg": f["pg"], "lat": f["lat"]}


def emsoft_tokens_coq(t):
    return C("mkET", t["nrows"], t["ncols"], Fl(t["stepy"]), fl(t["xpos"]), t["phase"], t["nnk"], t["fzcnt"],
             [eu3(e) for e in t["dict"]], t["top"],
             Some([eu3(e) for e in t["refined"]]) if t["refined"] is not None else None,
             [Tp(k, Tp([Nat(s) for s in sh], fl(v))) for k, sh, v in t["props"]], t["name"], t["pg"], fl(t["lat"]))


def emsoft_write(t, f, path, variant=None):
    with h5py.File(path, "w") as h:
        if variant in ("man-array", "man-key-lower"):
            write_manufacturer(h, ["EMEBSDDictionaryIndexing.f90", "EMEBSD"], variant)
        else:
            h.create_dataset("Manufacturer", data=R.choice(["EMEBSDDictionaryIndexing.f90", "EMEBSD"]))
            h.create_dataset("Version", data="5.0")
        eb = h.create_group("Scan 1/EBSD")
        dg, hg = eb.create_group("Data"), eb.create_group("Header")
        for name, v, dt in [("nRows", t["nrows"], np.int32), ("nColumns", t["ncols"], np.int32),
                            ("Step Y", t["stepy"], np.float64), ("Step X", f["dx"], np.float64)]:
            hg.create_dataset(name, data=np.array([v], dtype=dt))
        dg.create_dataset("X Position", data=np.array(t["xpos"], dtype=np.float64))
        dg.create_dataset("Y Position", data=np.array(t["xpos"], dtype=np.float64))     # wrong in EMsoft files
        dg.create_dataset("Phase", data=np.array(t["phase"], dtype=np.uint8))
        dg.create_dataset("FZcnt", data=np.array([t["fzcnt"]], dtype=np.int32))
        dg.create_dataset("TopMatchIndices", data=np.array(t["top"], dtype=np.int32).reshape(-1, t["nnk"]))
        dg.create_dataset("DictionaryEulerAngles", data=np.array(t["dict"], dtype=np.float64).reshape(-1, 3))
        if t["refined"] is not None:
            dg.create_dataset("RefinedEulerAngles", data=np.array(t["refined"], dtype=np.float64).reshape(-1, 3))
        for k, sh, v in t["props"]:
            dg.create_dataset(k, data=np.array(v, dtype=np.float64).reshape(sh))
        h.create_dataset("NMLparameters/EBSDIndexingNameListType/nnk", data=np.array([t["nnk"]], dtype=np.int32))
        pg = hg.create_group("Phase/1")
        for name, data in [("Point Group", f["pgdesc"]), ("MaterialName", f["matname"])] + \
                [("Lattice Constant " + n, repr(x)) for n, x in zip(["a", "b", "c", "alpha", "beta", "gamma"], t["lat"])]:
            pg.create_dataset(name, data=np.array([data], dtype=np.dtype("S")))


E_EXPECTED = ["AvDotProductMap", "CI", "IQ", "ISM", "KAM", "OSM", "RefinedDotProducts", "TopDotProductList",
              "TopMatchIndices"]


def emsoft_expected(f):
    nr, nc, n, nnk = f["nrows"], f["ncols"], f["nrows"] * f["ncols"], f["nnk"]
    e = {"warn": False, "unit": "um",
         "x": [float(c) * f["dx"] for r in range(nr) for c in range(nc)],
         "y": [float(r) * f["dy"] for r in range(nr) for c in range(nc)], "pid": list(f["phase"])}
    if f["use_refined"]:
        e["rw"] = 1
        e["eu"] = f["refined"]
    else:
        e["rw"] = nnk
        e["eu"] = [[math.radians(a) for a in f["dict"][i - 1]] for row in f["top"] for i in row]
    props = []
    for k, sh, v in sorted(f["props"], key=lambda p: E_EXPECTED.index(p[0]) if p[0] in E_EXPECTED else 99):
        if k not in E_EXPECTED:
            continue
        if k == "TopDotProductList":
            props.append((k, v[:n * nnk]))
        else:
            props.append((k, v))
    props.append(("TopMatchIndices", [float(i) for row in f["top"] for i in row]))
    e["props"] = props
    e["phases"] = [(f["phase"][0], {"name": f["name"], "sg": None, "pg": f["pg"], "lat": f["lat"]})]
    e["ni"] = False
    return e


# ===================================================================== observe
def observe(path, kwargs=None):
    """load with orix.io.load; -> dict (error class or the observed map)"""
    with warnings.catch_warnings(record=True) as w:
        warnings.simplefilter("always")
        try:
            xm = io.load(path, **(kwargs or {}))
        except Exception as e:  # noqa
            return {"err": type(e).__name__, "msg": str(e)[:200]}
        msgs = [str(x.message) for x in w]
    rot = xm.rotations
    rw = 1 if rot.ndim == 1 else int(rot.shape[1])
    phases = []
    for i, p in xm.phases:
        phases.append([int(i), p.name, int(p.space_group.number) if p.space_group is not None else None,
                       p.point_group.name if p.point_group is not None else None,
                       [float(v) for v in p.structure.lattice.abcABG()]])
    props = []
    for k in xm.prop.keys():
        a = np.asarray(xm.prop[k], dtype=float)
        props.append([k, 1 if a.ndim == 1 else int(a.shape[1]), a.reshape(-1).tolist()])
    n = xm.size
    o = {"rw": rw, "q": rot.data.reshape(-1, 4).tolist(),
         "x": np.asarray(xm._x, float).tolist() if xm._x is not None else [],
         "y": np.asarray(xm._y, float).tolist() if xm._y is not None else [],
         "pid": [int(v) for v in xm.phase_id], "props": props, "unit": xm.scan_unit, "phases": phases,
         "warn": any(m.startswith("Number of columns") for m in msgs),
         "sgwarn": any(m.startswith("Setting space group to 'None'") for m in msgs),
         "shape": list(xm.shape), "dx": float(xm.dx), "dy": float(xm.dy), "size": int(n),
         "matrix": rot.to_matrix().reshape(-1, 9).tolist()}
    return o


def bunge(e):
    """reference: passive Bunge matrix g = Rz(phi2) Rx(Phi) Rz(phi1) (lab -> crystal)"""
    a, b, c = e
    ca, sa, cb, sb, cc, sc = math.cos(a), math.sin(a), math.cos(b), math.sin(b), math.cos(c), math.sin(c)
    return [ca * cc - sa * sc * cb, sa * cc + ca * sc * cb, sc * sb,
            -ca * sc - sa * cc * cb, -sa * sc + ca * cc * cb, cc * sb,
            sa * sb, -ca * sb, cb]


def close(a, b, tol=1e-9):
    a, b = np.asarray(a, float), np.asarray(b, float)
    return a.shape == b.shape and bool(np.all(np.abs(a - b) <= tol * np.maximum(1, np.abs(b))))


def oracle(f, exp, obs):
    """compare the loaded map with the property's expectation; -> list of (sig, what)"""
    tag = f"{f['fmt']}:{f['vendor']}"
    out = []
    if "err" in obs:
        cause = obs["err"]
        if f["fmt"] == "ang" and any(p["sym"] == "62" for p in f["phases"]):
            cause = "symmetry=62"
        if f["fmt"] == "ctf" and any(p["laue"] == 10 for p in f["phases"]):
            cause = "laue=10"
        if f["fmt"] == "ctf" and f["vendor"] == "astar" and (f["nrows"] == 1 or f["ncols"] == 1):
            cause = "single-line-map"
        if f["nrows"] * f["ncols"] == 1:        # a scan of one point: one data line / one-element datasets
            cause = "one-point-map"
        return [(f"{tag}:raises:{cause}", f"loading a valid {tag} file raises {obs['err']}: {obs['msg']}")]
    n = f["nrows"] * f["ncols"]

    def bad(field, what, stratum=None):
        out.append((f"{tag}:{field}" + (f":{stratum}" if stratum else ""), f"{tag}: {what}"))
    if obs["size"] != n:
        bad("size", f"map has {obs['size']} points, file has {n}")
        return out
    shape = [f["nrows"], f["ncols"]]
    shape = [s for s in shape if s > 1] or ([] if n == 1 else [1])      # a one-point CrystalMap has ndim 0
    if obs["shape"] != shape:
        bad("grid", f"map shape {obs['shape']} != file grid {shape}", rows_stratum(f))
    if f["ncols"] > 1 and not close(obs["dx"], f["dx"], 1e-6):
        bad("grid", f"x step {obs['dx']} != {f['dx']}", rows_stratum(f))
    if f["nrows"] > 1 and not close(obs["dy"], f["dy"], 1e-6):
        bad("grid", f"y step {obs['dy']} != {f['dy']}", rows_stratum(f))
    if not close(obs["x"], exp["x"], 1e-9):
        bad("x", "x coordinates differ from the file's", rows_stratum(f))
    if not close(obs["y"], exp["y"], 1e-9):
        bad("y", "y coordinates differ from the file's", rows_stratum(f))
    if obs["unit"] != exp["unit"]:
        bad("unit", f"scan unit {obs['unit']!r} != {exp['unit']!r}", "generic-columns" if exp["warn"] else None)
    rw = exp.get("rw", 1)
    if obs["rw"] != rw or len(obs["matrix"]) != len(exp["eu"]):
        bad("rotations", "number of rotations per point differs")
    else:
        ref = [bunge(e) for e in exp["eu"]]
        if not close(obs["matrix"], ref, 1e-7):
            bad("rotations", "rotations are not the file's Euler angles (file unit) as Bunge lab->crystal rotations",
                rows_stratum(f))
    if obs["pid"] != exp["pid"]:
        bad("phase_id", "phase ids / not-indexed points differ", rows_stratum(f))
    if [p[0] for p in obs["props"]] != [p[0] for p in exp["props"]]:
        bad("prop-names", f"property names {[p[0] for p in obs['props']]} != {[p[0] for p in exp['props']]}")
    else:
        for (k, w, v), (_, ev) in zip(obs["props"], exp["props"]):
            if not close(v, ev, 1e-9):
                bad("prop-values", f"values of property {k} differ from the file's column", rows_stratum(f))
                break
    if obs["warn"] != exp["warn"]:
        bad("warning", f"column-count warning issued={obs['warn']} expected={exp['warn']}")
    if exp["phases"] is not None:
        ophs = [p for p in obs["phases"] if p[0] != -1]
        if exp["ni"] != any(p[0] == -1 for p in obs["phases"]):
            bad("phase.not_indexed", "not_indexed phase presence wrong")
        if [p[0] for p in ophs] != [p[0] for p in exp["phases"]]:
            bad("phase.ids", f"phase ids {[p[0] for p in ophs]} != {[p[0] for p in exp['phases']]}")
        else:
            for o, (i, e) in zip(ophs, exp["phases"]):
                if o[1] != e["name"]:
                    bad("phase.name", f"phase {i} name {o[1]!r} != {e['name']!r}")
                if o[2] != e["sg"]:
                    strat = None
                    if f["fmt"] == "ctf" and e["sg"]:
                        strat = "noncentro" if sg_pg(e["sg"]) != LAUE_OF_PG[sg_pg(e["sg"])] else "centro"
                    bad("phase.space_group", f"phase {i} space group {o[2]} != header's {e['sg']}", strat)
                elif o[3] != e["pg"]:
                    bad("phase.point_group", f"phase {i} point group {o[3]} != {e['pg']}")
                if not close(o[4], e["lat"], 1e-9):
                    bad("phase.lattice", f"phase {i} lattice {o[4]} != {e['lat']}")
    return out


def rows_stratum(f):
    if f["fmt"] != "bruker":
        return None
    nc = f["ncols"]
    rows = [p // nc for p in f["order"]]
    return "rows-in-order" if rows == sorted(rows) else "rows-shuffled"


# ===================================================================== driver
FMT = {
    "ang": (ang_coq, ang_tokens, ang_tokens_coq, ang_expected, "ang"),
    "ctf": (ctf_coq, ctf_tokens, ctf_tokens_coq, ctf_expected, "ctf"),
    "bruker": (bruker_coq, bruker_tokens, bruker_tokens_coq, bruker_expected, "h5"),
    "emsoft": (emsoft_coq, emsoft_tokens, emsoft_tokens_coq, emsoft_expected, "h5"),
}


# ------------------------------------------------- secondary entry points / serialisation variants (audit strata)
# Every generated file is written a second time in a VARIANT that the format allows and that must not change the
# loaded map; the observation is compared with the one of the primary file (which the oracle checks field by field).
TEXT_VARIANTS = ["crlf", "upper-ext", "no-final-newline", "pathlib", "blank-tail"]
H5_VARIANTS = ["upper-ext", "man-array", "pathlib", "man-key-lower", "kw-mode-r"]
VCOUNT = {}


def ctf_permute_header(text):
    """same header fields in another order: XCells/YCells and XStep/YStep swapped, JobMode after AcqE3"""
    lines = text.split("\n")
    n = next(i for i, l in enumerate(lines) if l.startswith("Phases"))
    head = lines[:n]
    pos = {l.split("\t")[0]: i for i, l in enumerate(head)}
    for a, b in (("XCells", "YCells"), ("XStep", "YStep")):
        head[pos[a]], head[pos[b]] = head[pos[b]], head[pos[a]]
    job = head.pop(pos["JobMode"])
    head.insert([i for i, l in enumerate(head) if l.startswith("AcqE3")][0] + 1, job)
    return "\n".join(head + lines[n:])


def variants_of(f, text):
    """-> (variants always run for this file, variants of which one is run per file in turn: per vendor for the
    text formats; the HDF5 files are few and cheap, they get every variant)"""
    fmt = f["fmt"]
    one = f["nrows"] * f["ncols"] == 1      # the deprecated loaders are outside the property: not on one-point files
    if fmt == "ang":
        return [], TEXT_VARIANTS + ["trailing-ws"] + ([] if one else ["loadang"])
    if fmt == "ctf":
        always = ["hdr-order"] if f["vendor"] == "astar" else []
        lines = text.split("\n")
        if not one and len(lines) > 17 and lines[16].startswith("Phase\tX\tY"):
            always.append("loadctf")        # the deprecated loader assumes a header of exactly 17 lines
        return always, TEXT_VARIANTS + ([] if f["vendor"] == "astar" else ["hdr-order"])
    if fmt == "bruker":
        return H5_VARIANTS + (["no-sem-group"] if not f["roi"] else []), []
    return H5_VARIANTS + (["default-kwargs"] if not f["use_refined"] else []), []


def diff_obs(a, b):
    """names of the fields in which two observations differ"""
    if "err" in a or "err" in b:
        return [] if a.get("err") == b.get("err") else ["raises " + str(b.get("err")) + ": " + str(b.get("msg"))]
    bad = []
    for k2 in a:
        if k2 in ("q", "x", "y", "matrix", "dx", "dy"):
            if not close(a[k2], b[k2], 1e-12):
                bad.append(k2)
        elif k2 == "props":
            if [p[:2] for p in a[k2]] != [p[:2] for p in b[k2]] or \
                    not all(close(u[2], v[2], 1e-12) for u, v in zip(a[k2], b[k2])):
                bad.append(k2)
        elif a[k2] != b[k2]:
            bad.append(k2)
    return bad


def run_variant(f, tk, text, kwargs, obs, k, v):
    """write variant v of the file, load it, compare with the primary observation `obs`"""
    tag = f"{f['fmt']}:{f['vendor']}"
    ext = FMT[f["fmt"]][4]
    ext = R.choice(["h5", "hdf5", "h5ebsd"]) if ext == "h5" else ext
    if v == "upper-ext":
        ext = ext.upper()
    path = os.path.join(TMP, f"v{k}.{ext}")
    kw = dict(kwargs) if kwargs else None
    if text is not None:
        t = text
        if v == "crlf":                     # vendor programs run on Windows
            t = t.replace("\n", "\r\n")
        elif v == "no-final-newline":
            t = t.rstrip("\n")
        elif v == "blank-tail":
            t = t + "\n\n"
        elif v == "trailing-ws":            # fixed-width padded data lines
            head = [l for l in t.split("\n") if l.startswith("#")]
            t = "\n".join(head + [l + R.choice([" ", "   ", "\t"]) for l in t.split("\n")[len(head):] if l]) + "\n"
        elif v == "hdr-order":
            t = ctf_permute_header(t)
        with open(path, "w", newline="") as fh:
            fh.write(t)
    elif f["fmt"] == "bruker":
        bruker_write(tk, f, path, v)
    else:
        emsoft_write(tk, f, path, v)
    if v == "kw-mode-r":                    # **kwargs of the h5ebsd readers go to h5py.File
        kw = dict(kw or {}, mode="r")
    if v == "default-kwargs":               # EMsoft: `refined` defaults to False
        kw = None
    st(f"variant/{f['fmt']}/{v}")
    try:
        if v in ("loadang", "loadctf"):     # deprecated loaders of orix.io: rotations only (all rows of the file)
            with warnings.catch_warnings():
                warnings.simplefilter("ignore")
                rot = io.loadang(path) if v == "loadang" else io.loadctf(path)
            eu = [p["eu"] if v == "loadang" else [math.radians(a) for a in p["eu"]] for p in f["pts"]]
            if not close(rot.to_matrix().reshape(-1, 9), [bunge(e) for e in eu], 1e-7):
                fail(f"{tag}:variant:{v}", f"{tag}: orix.io.{v}() does not return the file's Euler angles (file unit) "
                     "as Bunge lab->crystal rotations", {"file": f, "variant": v})
            return
        o2 = observe(pathlib.Path(path) if v == "pathlib" else path, kw)
    except Exception as e:  # noqa
        o2 = {"err": type(e).__name__, "msg": str(e)[:200]}
    finally:
        if os.path.exists(path):
            os.remove(path)
    bad = diff_obs(obs, o2)
    if bad:
        fail(f"{tag}:variant:{v}", f"{tag}: the same file written/loaded as variant '{v}' gives another map than the "
             f"primary file: {', '.join(bad)}", {"file": f, "variant": v})


def run_one(f, k):
    to_coq, to_tok, tok_coq, expected, ext = FMT[f["fmt"]]
    tk = to_tok(f)
    ext = R.choice(["h5", "hdf5", "h5ebsd"]) if ext == "h5" else ext
    path = os.path.join(TMP, f"c{k}.{ext}")
    extra = {}
    kwargs = None
    text = None
    if f["fmt"] == "ang":
        text = ang_text(tk)
        open(path, "w").write(text)
    elif f["fmt"] == "ctf":
        text = ctf_text(tk, f["comma"])
        open(path, "w").write(text)
    elif f["fmt"] == "bruker":
        bruker_write(tk, f, path)
    else:
        emsoft_write(tk, f, path)
        kwargs = {"refined": bool(f["use_refined"])}
        extra["refined"] = bool(f["use_refined"])
    obs = observe(path, kwargs)
    os.remove(path)
    exp = expected(f)
    vs = oracle(f, exp, obs)
    for sig, what in vs:
        fail(sig, what, {"file": f})
    strat = f"{f['fmt']}/{f['vendor']}/{f['mode']}"
    st(strat)
    if "err" not in obs:
        always, cycled = variants_of(f, text)
        key = (f["fmt"], f["vendor"])
        VCOUNT[key] = VCOUNT.get(key, -1) + 1
        for v in always + (cycled if ONLY or not cycled else [cycled[VCOUNT[key] % len(cycled)]]):
            run_variant(f, tk, text, kwargs, obs, k, v)
    if f.get("oracle_only"):        # one-point maps: CrystalMap / HDF5 unwrapping of one element is not in the model
        return
    tkc = tok_coq(tk)
    obs_small = {k2: v for k2, v in obs.items() if k2 not in ("matrix", "msg")}
    cases.append({"fmt": f["fmt"], "stratum": strat, "file": to_coq(f), "tokens": tkc, "obs": obs_small,
                  "extra": extra, "grid": [f["nrows"], f["ncols"]], "abstract": f})


def gen_all(n):
    plan = []
    for v in ("tsl", "emsoft", "astar", "orix"):
        plan += [("ang", v, "ok")] * 4 + [("ang", v, "cols")] * 2
    plan += [("ang", "tsl", "sym62"), ("ang", "tsl", "zero"), ("ang", "astar", "ok")]
    for v in ("oxford", "bruker", "emsoft", "astar", "mtex"):
        plan += [("ctf", v, "ok")] * 4 + [("ctf", v, "extra")]
    plan += [("ctf", "oxford", "laue10"), ("ctf", "oxford", "noncentro"), ("ctf", "bruker", "noncentro"),
             ("ctf", "oxford", "line"), ("ctf", "astar", "line"), ("ctf", "mtex", "line")]
    plan += [("bruker", "", "ok")] * 2 + [("bruker", "", "cols")] * 3 + [("bruker", "", "rows")] * 2 + \
            [("bruker", "", "noroi")]
    plan += [("emsoft", "", False)] * 3 + [("emsoft", "", True)] * 2
    files = []
    k = 0
    while len(files) < n:
        fmt, v, mode = plan[k % len(plan)]
        k += 1
        if fmt == "ang":
            files.append(gen_ang(v, mode))
        elif fmt == "ctf":
            files.append(gen_ctf(v, mode))
        elif fmt == "bruker":
            files.append(gen_bruker(mode))
        else:
            files.append(gen_emsoft(mode))
    return files


# ------------------------------------------------------------ audit strata (input classes the base plan never draws)
ORIGINS = [(3.5, 1.25), (100.0, 0.0), (0.0, 42.5), (12.75, 7.0)]
BIG = [(9, 12), (11, 17), (13, 10)]
EXTRA_PLAN = [
    # .ang: formulas on some phases only / multi-word formulas; map origin != (0, 0); every point not indexed;
    # grids beyond 5 x 7; scans of one point
    ("ang", "tsl", "formula"), ("ang", "emsoft", "formula"), ("ang", "orix", "formula"),
    ("ang", "tsl", "origin"), ("ang", "orix", "origin"), ("ang", "astar", "origin"), ("ang", "emsoft", "origin"),
    ("ang", "tsl", "allni"), ("ang", "orix", "allni"),
    ("ang", "tsl", "big"), ("ang", "astar", "big"),
    ("ang", "tsl", "one"), ("ang", "emsoft", "one"), ("ang", "astar", "one"), ("ang", "orix", "one"),
    ("ctf", "oxford", "origin"), ("ctf", "mtex", "origin"), ("ctf", "emsoft", "origin"),
    ("ctf", "oxford", "allni"), ("ctf", "astar", "allni"),
    ("ctf", "bruker", "big"), ("ctf", "astar", "big"),
    ("ctf", "oxford", "one"), ("ctf", "bruker", "one"), ("ctf", "emsoft", "one"), ("ctf", "astar", "one"),
    ("ctf", "mtex", "one"),
    ("bruker", "rows", "big"), ("bruker", "cols", "allni"), ("bruker", "noroi", "allni"),
    ("bruker", "ok", "one"), ("bruker", "noroi", "one"),
    ("emsoft", False, "big"), ("emsoft", True, "big"), ("emsoft", False, "one"), ("emsoft", True, "one"),
]


def gen_extra(cycle):
    """one pass over EXTRA_PLAN; `cycle` rotates the sub-variants so that each meets each vendor"""
    global GRID
    files = []
    for j, (fmt, v, mode) in enumerate(EXTRA_PLAN):
        sub = j + cycle
        GRID = BIG[sub % len(BIG)] if mode == "big" else ((1, 1) if mode == "one" else None)
        if fmt == "ang":
            f = gen_ang(v, mode)
        elif fmt == "ctf":
            f = gen_ctf(v, mode)
        elif fmt == "bruker":
            f = gen_bruker(v, label=mode + "-" + v)
        else:
            f = gen_emsoft(v, label=mode)
        GRID = None
        if mode == "formula":
            ph = f["phases"]
            kind = sub % 3
            for k, p in enumerate(ph):
                if kind == 0:       # all phases have a formula of several words -> the formulas are the names
                    p["formula"] = " ".join(R.choice(WORDS).replace("/", "") + "F" + str(k) for _ in range(R.choice([2, 3])))
                else:               # first / last phase without formula -> the material names are the names
                    p["formula"] = None if k == (0 if kind == 1 else len(ph) - 1) else R.choice(WORDS) + "F" + str(k)
        elif mode == "origin":
            ox, oy = ORIGINS[sub % len(ORIGINS)]
            for p in f["pts"]:
                p["x"], p["y"] = p["x"] + ox, p["y"] + oy
        elif mode == "allni":
            for p in f["pts"]:
                if fmt == "ang":
                    p["c"], p["eu"] = -1.0, [4 * math.pi] * 3
                else:
                    p["pid"] = 0
        elif mode == "one":
            f["oracle_only"] = True
        files.append(f)
    return files


def table_checks():
    """exhaustive ties of the tables the model assumes"""
    from orix.quaternion.symmetry import get_point_group
    bad = []
    for n in range(1, 231):
        if get_point_group(n).name != sg_pg(n):
            bad.append(n)
    sgpg = [[n, Phase(space_group=n).point_group.name] for n in range(1, 231)]
    # reader selection
    sel = []
    for ext in ["ang", "ctf", "h5", "hdf5", "h5ebsd", "ANG", "txt"]:
        for man in [None, "Bruker Nano", "EMEBSDDictionaryIndexing.f90", "orix", "Oxford", "EMEBSD by Bruker"]:
            is_h5 = ext.lower() in ("h5", "hdf5", "h5ebsd")
            if man is not None and not is_h5:
                continue
            path = os.path.join(TMP, "sel." + ext)
            if is_h5:
                with h5py.File(path, "w") as h:
                    if man is not None:
                        h.create_dataset("Manufacturer", data=man)
            else:
                open(path, "w").write("")
            readers = [p for p in io.plugin_list if ext.lower() in p.file_extensions]
            if not readers:
                got = None
            elif len(readers) > 1 and is_h5:
                p = io._plugin_from_manufacturer(path, readers)
                got = p.format_name if p is not None else None
            else:
                got = readers[0].format_name
            os.remove(path)
            sel.append({"ext": ext.lower(), "h5": is_h5, "man": man, "got": got})
    return {"sgpg_bad": bad, "sgpg": sgpg, "select": sel}


try:
    if ONLY:
        files = ONLY
    else:
        files = gen_all(N)
        for cycle in range(max(1, N // 130)):
            files += gen_extra(cycle)
    for k, f in enumerate(files):
        run_one(f, k)
    tables = table_checks()
finally:
    shutil.rmtree(TMP, ignore_errors=True)

emit({"cases": cases, "fails": fails, "strata": strata, "tables": tables})
