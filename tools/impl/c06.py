"""C06 implementation harness: all symmetry-aware operations agree on one equivalence relation."""
import numpy as np
from common import emit, payload, rand_unit_quat, rand_vec, rng

from orix.quaternion import Orientation, Rotation
from orix.quaternion import symmetry as S
from orix.vector import Vector3d

P = payload()
R = rng(P.get("seed", 0))
THOROUGH = P.get("thorough", False)
NPTS = P.get("n", 8)
cases, fails, strata = [], [], {}
GROUPS = list(S._groups)
BYNAME = {g.name: g for g in GROUPS}


def st(k):
    strata[k] = strata.get(k, 0) + 1


def fail(sig, what, rep):
    fails.append({"sig": sig, "what": what, "replay": rep})


def gclass(G):
    if G.is_proper:
        return "proper"
    return "inversion" if G.contains_inversion else "improper-noinv"


try:
    from orix.plot import IPFColorKeyTSL
    _ck = IPFColorKeyTSL(S.Oh)
    _ck.orientation2color(Orientation(np.array([[1.0, 0, 0, 0]]), symmetry=S.Oh))
    HAVE_COLOUR = True
except Exception as e:  # noqa
    HAVE_COLOUR = False
    st(f"colour-key-unavailable:{type(e).__name__}")

gsel = GROUPS if THOROUGH else [BYNAME[n] for n in ("1", "-1", "222", "mmm", "4", "422", "4/mmm", "3", "32", "312", "-3m", "6", "622",
                                                      "6/mmm", "23", "m-3", "432", "m-3m", "-4", "mm2", "4mm", "-43m", "3m", "-6m2", "211", "m11")]
NV = P.get("nv", 3)
for G in [g for g in gsel for _ in range(NV)]:
    cl = gclass(G)
    q = np.array([rand_unit_quat(R) for _ in range(NPTS)])
    O = Orientation(q, symmetry=G)
    T = Orientation(np.array([rand_unit_quat(R) for _ in range(NPTS)]), symmetry=G)
    v = Vector3d(np.array(rand_vec(R)))
    reps = {}
    try:
        reps["reduced-zone"] = O.map_into_symmetry_reduced_zone()
    except NotImplementedError:
        st("no-region-defined")
    try:
        eu = O.in_euler_fundamental_region()
        reps["euler-region"] = Orientation.from_euler(eu, symmetry=G)
        mx = np.radians(G.euler_fundamental_region)
        if not np.all(eu <= mx + 1e-9) or not np.all(eu >= -1e-9):
            fail(f"euler-region:outside:{G.name}", f"in_euler_fundamental_region returns angles outside the region of {G.name}", {"G": G.name, "q": q.tolist()})
    except Exception as e:  # noqa
        fail(f"euler-region:raises:{G.name}", f"in_euler_fundamental_region raises {type(e).__name__}", {"G": G.name})
    E = O[0].equivalent()

    def proper_member(k):
        Ek = O[k].equivalent()
        idx = np.flatnonzero(~Ek.improper.reshape(-1))      # improper 'equivalents' are not orientations
        return Ek.data.reshape(-1, 4)[idx[R.randrange(len(idx))]]
    reps["equivalent"] = Orientation(np.vstack([proper_member(k) for k in range(NPTS)]), symmetry=G)
    if not bool(np.any(E.improper)) and E.size != G.size:
        fail(f"equivalent:size:{G.name}", "equivalent() does not return |G| members", {"G": G.name})
    # the WHOLE set of equivalents (for a group with improper operations it holds improper-flagged members s*O): every
    # member has zero reduced angle to the orientation, in both argument orders, and the same reduced angle to a third
    # orientation -- through the outer API, which relates a proper and an improper-flagged orientation by the improper
    # symmetry elements
    E.symmetry = G
    st(f"equivalent-set-outer/{cl}")
    rep_e = {"G": G.name, "method": "equivalent-set-outer", "q": q[0].tolist()}
    try:
        a_oe = O[0:1].angle_with_outer(E)
        a_eo = E.angle_with_outer(O[0:1])
        if np.max(a_oe) > 1e-6 or np.max(a_eo) > 1e-6:
            fail(f"zero-angle:equivalent-set-outer:{cl}:{G.name}", f"angle_with_outer between an orientation and the members of its equivalent() set is up to "
                 f"{np.rad2deg(max(np.max(a_oe), np.max(a_eo))):.2f} deg for {G.name} (improper-flagged members: {int(np.sum(E.improper))})", rep_e)
        t_e = T[0:1].angle_with_outer(E).reshape(-1)
        t_o = float(T[0:1].angle_with_outer(O[0:1]).reshape(-1)[0])
        if np.max(np.abs(t_e - t_o)) > 1e-6:
            fail(f"third-angle:equivalent-set-outer:{cl}:{G.name}", f"the reduced angle of a third orientation to the members of equivalent() differs by up to "
                 f"{np.rad2deg(np.max(np.abs(t_e - t_o))):.2f} deg ({G.name})", rep_e)
    except Exception as e:  # noqa
        fail(f"equivalent-set-outer:raises:{G.name}", f"{type(e).__name__}: {e}", rep_e)
    base_dir = (O * v).in_fundamental_sector(G).data
    base_T = O.angle_with(T)
    if HAVE_COLOUR:
        key = IPFColorKeyTSL(G, direction=v)
        base_col = key.orientation2color(O)
    for meth, X in reps.items():
        st(f"{meth}/{cl}")
        rep = {"G": G.name, "method": meth, "q": q.tolist(), "v": v.data.tolist()}
        if X.improper.any():
            st(f"{meth}/improper-representative")
            continue     # an improper 'equivalent' is not an orientation; angle_with zeroes such pairs by design
        a0 = O.angle_with(X)
        if np.max(a0) > 1e-6:
            fail(f"zero-angle:{meth}:{cl}:{G.name}", f"symmetry-reduced angle between an orientation and its {meth} representative is {np.rad2deg(np.max(a0)):.2f} deg for {G.name}", rep)
        if np.max(np.abs(X.angle_with(T) - base_T)) > 1e-6:
            fail(f"third-angle:{meth}:{cl}:{G.name}", f"angle to a third orientation changes when an orientation is replaced by its {meth} representative ({G.name})", rep)
        d = (X * v).in_fundamental_sector(G).data
        if np.max(np.abs(d - base_dir)) > 1e-6:
            fail(f"sector-direction:{meth}:{cl}:{G.name}", f"crystal direction in the fundamental sector changes under {meth} ({G.name})", rep)
        if HAVE_COLOUR:
            col = key.orientation2color(X)
            if np.max(np.abs(col - base_col)) > 1e-6:
                fail(f"ipf-colour:{meth}:{cl}:{G.name}", f"IPF colour changes under {meth} ({G.name})", rep)
    # the reduced-zone representative relative to the relation it DOES implement (right multiplication):
    # ~X must be a left-equivalent of ~O
    if "reduced-zone" in reps and not reps["reduced-zone"].improper.any():
        X = reps["reduced-zone"]
        a = (~O).angle_with(~X)
        if np.max(a) > 1e-6:
            fail(f"reduced-zone:right-orbit:{cl}:{G.name}", f"the zone representative is not O*g for an operation g of {G.name}", {"G": G.name, "q": q.tolist()})
    cases.append({"G": {"name": G.name, "q": G.data.reshape(-1, 4).tolist(), "imp": G.improper.reshape(-1).astype(int).tolist()},
                  "o": q[0].tolist(), "eq": E.data.reshape(-1, 4).tolist(), "eq_imp": E.improper.reshape(-1).astype(int).tolist()})

emit({"cases": cases, "fails": fails, "strata": strata})
