"""Generate exact Farkas certificates for the orientation regions of all ordered
pairs of proper point groups (C05): every half-space 1 +- d of the UNPRUNED
large cell is a non-negative combination of the normals the region actually
keeps.  Runs under /venv python (orix + scipy); writes Coq files.

usage: c05cert.py <outdir>      (prints a JSON summary on stdout)
"""
import json
import os
import sys
import warnings

import numpy as np

warnings.filterwarnings("ignore")
sys.path.insert(0, os.path.join(os.path.dirname(os.path.abspath(__file__)), "..", "lib"))
from kfield import K, qmul, recognise, solve  # noqa: E402
from scipy.optimize import linprog  # noqa: E402
import c07cert  # noqa: E402  (cover trees: the axis fundamental zone of Gl & Gr is a fundamental domain of that group)

from orix.quaternion import OrientationRegion  # noqa: E402
from orix.quaternion import symmetry as S  # noqa: E402
from orix.quaternion.symmetry import get_distinguished_points  # noqa: E402

OUT = sys.argv[1]
PROPER = [g for g in S._groups if g.is_proper]
ONE = (K(1), K(0), K(0), K(0))


def kq(q):
    return tuple(recognise(x, "quaternion component") for x in q)


def kf(q):
    return np.array([float(x) for x in q])


def qadd(p, q):
    return tuple(a + b for a, b in zip(p, q))


def qneg(p):
    return tuple(-a for a in p)


def coq_q(q):
    return "(" + ", ".join(x.coq() for x in q) + ")"


def exact_direction(n, cands):
    """n: float unit quaternion (a region normal); cands: list of exact K quaternions.
    Returns the exact candidate that is a positive multiple of n."""
    for c in cands:
        f = kf(c)
        nf = np.linalg.norm(f)
        if nf > 1e-9 and np.allclose(f / nf, n, atol=1e-9):
            return c
    return None


def qconj(q):
    return (q[0], -q[1], -q[2], -q[3])


def qeq(p, q):
    return all(a == b for a, b in zip(p, q))


def existence_cert(s1, s2, N, D):
    """ingredients of "every orbit has a member inside the region":
       H  = the common operations of the two (proper) groups (h in Gl with ~h in +-Gr),
       for every kept normal either None (pure-vector normal = a face of the axis fundamental zone) or its index in
       the large cell [1+d0; 1-d0; 1+d1; ...], and a cover tree: the H-images of the cone of the pure-vector normals
       cover R^3."""
    A = [kq(q) for q in s1.data.reshape(-1, 4)]
    B = [kq(q) for q in s2.data.reshape(-1, 4)]
    H = [h for h in A if any(qeq(qconj(h), b) or qeq(qconj(h), qneg(b)) for b in B)]
    F = [tuple(n[1:]) for n in N if n[0].is_zero()]
    lc = []
    for n in N:
        if n[0].is_zero():
            lc.append(None)
            continue
        idx = None
        for k, d in enumerate(D):
            if qeq(n, qadd(ONE, d)):
                idx = 2 * k
            elif qeq(n, qadd(ONE, qneg(d))):
                idx = 2 * k + 1
        if idx is None:
            raise SystemExit(f"kept normal is not a large-cell normal for ({s1.name}, {s2.name})")
        lc.append(idx)
    # for every distinguished point d a pair (i, j) with d = +- ~(B[j] * A[i])
    W = []
    Af = np.array([kf(a) for a in A]); Bf = np.array([kf(b) for b in B])
    for d in D:
        df = kf(d)
        hit = None
        for j in range(len(B)):
            for i in range(len(A)):
                c = np.array([float(x) for x in qconj(tuple(qmulf(Bf[j], Af[i])))])
                if abs(abs(np.dot(c, df)) - 1) < 1e-9:
                    ce = qconj(qmul(B[j], A[i]))
                    if qeq(d, ce) or qeq(d, qneg(ce)):
                        hit = (i, j)
                        break
            if hit:
                break
        if hit is None:
            raise SystemExit(f"distinguished point is not a product of operations for ({s1.name}, {s2.name})")
        W.append(hit)
    Hops = [(h, False) for h in H]
    Hf = []
    for r in Hops:
        cols = [c07cert.kf(c07cert.act_k(r, e)) for e in ((K(1), K(0), K(0)), (K(0), K(1), K(0)), (K(0), K(0), K(1)))]
        Hf.append(np.array(cols).T)
    stats = {"splits": 0, "leaves": 0}
    tree = c07cert.build_tree(Hops, Hf, F, [c07cert.kf(f) for f in F], [], [], stats)
    return H, lc, tree, stats, W


def qmulf(p, q):
    a, b, c, d = p
    e, f, g, h = q
    return (a * e - b * f - c * g - d * h, b * e + a * f - d * g + c * h,
            c * e + d * f + a * g - b * h, d * e - c * f + b * g + a * h)


def gordan4(V, Vf):
    """exact x >= 0, not all zero, with sum_k x_k V_k = 0 (V: exact 4-vectors, Vf: float rows); None if there is none"""
    if not V:
        return None
    Aeq = np.vstack([np.array(Vf).T, np.ones(len(V))])
    r = linprog(np.zeros(len(V)), A_eq=Aeq, b_eq=[0, 0, 0, 0, 1], bounds=(0, None), method="highs-ds")
    if r.status != 0:
        return None
    supp = [k for k in range(len(V)) if r.x[k] > 1e-9]
    import itertools
    cands = [supp] + [list(c) for n in range(2, min(5, len(supp)) + 1) for c in itertools.combinations(supp, n) if list(c) != supp]
    for sub in cands:
        if len(sub) < 2 or len(sub) > 5:
            continue
        p0 = sub[0]
        rest = sub[1:]
        lam = solve([V[k] for k in rest], qneg(V[p0]))
        if lam is not None and all(l.sign() >= 0 for l in lam):
            return [(p0, K(1))] + [(k, l) for k, l in zip(rest, lam) if not l.is_zero()]
    return "inexact"


def uniqueness_certs(s1, s2, N):
    """for every pair (gl, gr) other than the first: Gordan certificates that the open region cone C = {n.x > 0}
    meets neither T^-1 C nor -T^-1 C, T x = gl x gr  (adjoint: n.(gl x gr) = (~gl n ~gr).x)"""
    A = [kq(q) for q in s1.data.reshape(-1, 4)]
    B = [kq(q) for q in s2.data.reshape(-1, 4)]
    Nf = [kf(n) for n in N]
    out = []
    first = True
    for gl in A:
        for gr in B:
            if first:
                first = False
                continue
            Mx = [qmul(qmul(qconj(gl), n), qconj(gr)) for n in N]
            pair = []
            for sgn in (1, -1):
                V = list(N) + [m if sgn == 1 else qneg(m) for m in Mx]
                c = gordan4(V, Nf + [kf(v) for v in V[len(N):]])
                if c is None or c == "inexact":
                    return None, (gl, gr, sgn, c)
                pair.append(c)
            out.append(pair)
    return out, None


summary = {"pairs": 0, "targets": 0, "failed": [], "exist_leaves": 0, "exist_failed": [], "uniq_certs": 0, "uniq_failed": []}
files = []
def do_group(i1):
    s1 = PROPER[i1]
    summary = {"pairs": 0, "targets": 0, "failed": [], "exist_leaves": 0, "exist_failed": [], "uniq_certs": 0, "uniq_failed": []}
    recs = []
    for s2 in PROPER:
        region = OrientationRegion.from_symmetry(s1, s2)
        Nf = region.data.reshape(-1, 4)
        Df = get_distinguished_points(s1, s2).data.reshape(-1, 4)
        D = [kq(d) for d in Df]
        # exact candidates for the normals: 1 + d, 1 - d, and pure-vector normals of the axis fundamental zone
        cands = [qadd(ONE, d) for d in D] + [qadd(ONE, qneg(d)) for d in D]
        N = []
        for n in Nf:
            c = exact_direction(n, cands)
            if c is None:
                if abs(n[0]) < 1e-9:      # fundamental-zone normal (0, v): recognise v component-wise
                    c = (K(0),) + tuple(recognise(x, "fundamental-zone normal component") for x in n[1:])
                    # v is a unit vector already recognised exactly
                else:
                    raise SystemExit(f"UNRECOGNISED region normal {n.tolist()} for ({s1.name}, {s2.name})")
            N.append(c)
        NfK = np.array([kf(c) for c in N]).reshape(-1, 4)
        certs = []
        for d in D:
            pair = []
            for t in (qadd(ONE, d), qadd(ONE, qneg(d))):
                summary["targets"] += 1
                tf = kf(t)
                if len(N) == 0:
                    summary["failed"].append([s1.name, s2.name, "no normals"])
                    pair.append(None)
                    continue
                # the target itself is usually one of the kept normals
                hit = next((j for j, c in enumerate(N) if all(a == b for a, b in zip(c, t))), None)
                if hit is not None:
                    pair.append([(hit, K(1))])
                    continue
                r = linprog(np.ones(len(N)), A_eq=NfK.T, b_eq=tf, bounds=(0, None), method="highs-ds")
                if r.status != 0:
                    summary["failed"].append([s1.name, s2.name, "LP infeasible"])
                    pair.append(None)
                    continue
                supp = [j for j in range(len(N)) if r.x[j] > 1e-10]
                lam = solve([N[j] for j in supp], t) if len(supp) <= 4 else None
                if lam is None or any(l.sign() < 0 for l in lam):
                    # fall back: try all subsets of the support of size <= 4
                    import itertools
                    lam = None
                    for k in range(1, 5):
                        for sub in itertools.combinations(supp, k):
                            l2 = solve([N[j] for j in sub], t)
                            if l2 is not None and all(x.sign() >= 0 for x in l2):
                                lam, supp = l2, list(sub)
                                break
                        if lam is not None:
                            break
                if lam is None:
                    summary["failed"].append([s1.name, s2.name, "no exact certificate"])
                    pair.append(None)
                    continue
                pair.append(list(zip(supp, lam)))
            certs.append(pair)
        summary["pairs"] += 1
        try:
            ex = existence_cert(s1, s2, N, D)
            summary["exist_leaves"] += ex[3]["leaves"]
        except c07cert.NotADomain as e:
            summary["exist_failed"].append([s1.name, s2.name, [float(x) for x in e.data]])
            ex = None
        uq, why = uniqueness_certs(s1, s2, N)
        if uq is None:
            summary["uniq_failed"].append([s1.name, s2.name, str(why[3])])
        else:
            summary["uniq_certs"] += 2 * len(uq)
        recs.append((s1.name, s2.name, N, D, certs, Nf.tolist(), ex, uq))
    # ---- emit one Coq file per first group
    fn = f"RegionCerts{i1:02d}.v"
    with open(os.path.join(OUT, fn), "w") as f:
        f.write("(* GENERATED by tools/impl/c05cert.py by running orix from /repo -- do not edit. *)\n")
        f.write("From Coq Require Import ZArith QArith List String.\nFrom Verif Require Import Scalar KField Quat CertCheck.\n")
        f.write("Import ListNotations. Open Scope string_scope.\n")
        f.write(f"Definition region_certs_{i1:02d} : list region_cert := [\n")
        rows = []
        for (n1, n2, N, D, certs, _, _ex, _uq) in recs:
            def cc(c):
                if c is None:
                    return "[]"
                return "[" + "; ".join(f"({j}%nat, {l.coq()})" for j, l in c) + "]"
            cs = "[" + ";\n     ".join(f"({cc(p)}, {cc(m)})" for p, m in certs) + "]"
            rows.append(f'  mkRC "{n1}" "{n2}"\n    [' + "; ".join(coq_q(q) for q in N) + "]\n    [" +
                        "; ".join(coq_q(q) for q in D) + "]\n    " + cs)
        f.write(";\n".join(rows) + "].\n")
    # ---- existence certificates, same order
    with open(os.path.join(OUT, f"RegionExist{i1:02d}.v"), "w") as f:
        f.write("(* GENERATED by tools/impl/c05cert.py by running orix from /repo -- do not edit. *)\n")
        f.write("From Coq Require Import ZArith QArith List String.\nFrom Verif Require Import Scalar KField Quat CertCheck CoverCheck ExistCheck.\n")
        f.write("Import ListNotations. Open Scope string_scope.\n")
        f.write(f"Definition region_exist_{i1:02d} : list exist_cert := [\n")
        rows = []
        for r in recs:
            ex = r[6]
            if ex is None:
                rows.append("  mkEC [] [] [] (CLeaf 0%nat [])")
                continue
            H, lc, tree, _, W = ex
            rows.append("  mkEC [" + "; ".join(coq_q(h) for h in H) + "]\n    [" +
                        "; ".join("None" if i is None else f"Some {i}%nat" for i in lc) + "]\n    [" +
                        "; ".join(f"({i}%nat, {j}%nat)" for i, j in W) + "]\n    " + c07cert.coq_tree(tree))
        f.write(";\n".join(rows) + "].\n")
    with open(os.path.join(OUT, f"RegionUniq{i1:02d}.v"), "w") as f:
        f.write("(* GENERATED by tools/impl/c05cert.py by running orix from /repo -- do not edit. *)\n")
        f.write("From Coq Require Import ZArith QArith List String.\nFrom Verif Require Import Scalar KField Quat CertCheck UniqCheck.\n")
        f.write("Import ListNotations. Open Scope string_scope.\n")
        f.write(f"Definition region_uniq_{i1:02d} : list (option (list (list (nat * K) * list (nat * K)))) := [\n")
        rows = []
        for r in recs:
            uq = r[7]
            if uq is None:
                rows.append("  None")
                continue
            def cc(c):
                return "[" + "; ".join(f"({j}%nat, {l.coq()})" for j, l in c) + "]"
            rows.append("  Some [" + ";\n    ".join(f"({cc(a)}, {cc(b)})" for a, b in uq) + "]")
        f.write(";\n".join(rows) + "].\n")
    json.dump([{"l": r[0], "r": r[1], "N": r[5]} for r in recs], open(os.path.join(OUT, f"region_normals_{i1:02d}.json"), "w"))

    return fn, summary


import multiprocessing  # noqa: E402
with multiprocessing.Pool(min(len(PROPER), max(1, (os.cpu_count() or 4) - 2))) as pool:
    results = pool.map(do_group, range(len(PROPER)))
for fn, part in results:
    files.append(fn)
    for k, v in part.items():
        summary[k] = summary[k] + v

with open(os.path.join(OUT, "RegionCertsAll.v"), "w") as f:
    f.write("(* GENERATED by tools/impl/c05cert.py -- do not edit. *)\nFrom Coq Require Import List.\nImport ListNotations.\n")
    f.write("From Verif Require Import CertCheck " + " ".join(x[:-2] for x in files) + ".\n")
    f.write("Definition all_region_certs : list (list region_cert) := [" + "; ".join(f"region_certs_{i:02d}" for i in range(len(files))) + "].\n")
with open(os.path.join(OUT, "RegionExistAll.v"), "w") as f:
    f.write("(* GENERATED by tools/impl/c05cert.py -- do not edit. *)\nFrom Coq Require Import List.\nImport ListNotations.\n")
    f.write("From Verif Require Import ExistCheck " + " ".join("RegionExist" + x[11:-2] for x in files) + ".\n")
    f.write("Definition all_region_exist : list (list exist_cert) := [" + "; ".join(f"region_exist_{i:02d}" for i in range(len(files))) + "].\n")
summary["files"] = files
print("@@JSON@@" + json.dumps(summary))
