"""C02 implementation harness: observations for the Coq correspondence and
the property oracle, both on /repo's working tree."""
import itertools
import math

import numpy as np
from common import emit, payload, rand_unit_quat, rand_vec, rng, set_backend

from orix.crystal_map import Phase
from orix.quaternion import Misorientation, Orientation, Quaternion, Rotation
from orix.quaternion.symmetry import C1, Oh, D6
from orix.vector import Miller, Vector3d

P = payload()
R = rng(P.get("seed", 0))
N = P.get("n", 200)
TOL = 1e-9

cases = []      # for Coq
fails = []      # oracle failures
strata = {}


def st(k):
    strata[k] = strata.get(k, 0) + 1


SHAPES = [(1,), (3,), (2, 3), (1, 4), (3, 1), (2, 1, 3), (4,), (1, 1), (2, 2)]
BPAIRS = [((3,), (3,)), ((1,), (4,)), ((4,), (1,)), ((3, 1), (4,)), ((3, 1), (1, 4)), ((3, 1), (3, 4)),
          ((2, 3), (3,)), ((2, 1, 4), (3, 1)), ((1, 1), (2, 2)), ((2, 2), (2, 2)), ((1,), (1,)),
          ((2, 1), (1, 3)), ((3,), (2, 3)), ((2, 3), (1, 3)), ((2, 1, 3), (2, 4, 1))]


def mk_rot(shape, mixed=True):
    n = int(np.prod(shape))
    q = np.array([rand_unit_quat(R) for _ in range(n)]).reshape(shape + (4,))
    rot = Rotation(q)
    if mixed:
        rot.improper = np.array([R.random() < 0.5 for _ in range(n)]).reshape(shape)
    return rot


def mk_vec(shape, miller=False):
    n = int(np.prod(shape))
    v = np.array([rand_vec(R, R.choice([0.1, 1, 7])) for _ in range(n)]).reshape(shape + (3,))
    if miller:
        ph = Phase(point_group="m-3m")
        m = Miller(xyz=v, phase=ph)
        m.coordinate_format = R.choice(["xyz", "uvw", "hkl"])
        return m
    return Vector3d(v)


def rot_json(r):
    return {"shape": list(r.shape), "q": r.data.reshape(-1, 4).tolist(),
            "imp": r.improper.reshape(-1).astype(int).tolist()}


def close(a, b, tol=TOL):
    a, b = np.asarray(a, float), np.asarray(b, float)
    return a.shape == b.shape and bool(np.all(np.abs(a - b) <= tol * np.maximum(1, np.abs(b))))


def fail(sig, what, rep):
    fails.append({"sig": sig, "what": what, "replay": rep})


# ---------------------------------------------------------------- kernel level
for k in range(N):
    backend = k % 2 == 0
    set_backend(backend)
    kind = R.choice(["unit", "unit", "nonunit"])
    p = rand_unit_quat(R)
    q = rand_unit_quat(R)
    if kind == "nonunit":
        s1, s2 = R.uniform(0.2, 3), R.uniform(0.2, 3)
        p = [x * s1 for x in p]
        q = [x * s2 for x in q]
    v = rand_vec(R, R.choice([0.01, 1, 30]))
    out = (Quaternion(p) * Quaternion(q)).data.reshape(-1).tolist()
    cj = Quaternion(p).conj.data.reshape(-1).tolist()
    cases.append({"k": "qmul", "p": p, "q": q, "out": out, "conj": cj, "backend": backend})
    st(f"qmul/{kind}/backend={backend}")
    if kind == "unit":
        rv = (Rotation(p) * Vector3d(v)).data.reshape(-1).tolist()
        cases.append({"k": "qrot", "q": p, "v": v, "out": rv, "backend": backend})
        st(f"qrot/backend={backend}")
set_backend(True)

# ------------------------------------------------------------- outer products
for k in range(max(N // 6, 12)):
    backend = k % 3 != 0
    set_backend(backend)
    sa, sb = R.choice(SHAPES), R.choice(SHAPES)
    A, B = mk_rot(sa), mk_rot(sb)
    C = A.outer(B)
    cases.append({"k": "router", "A": rot_json(A), "B": rot_json(B), "C": rot_json(C),
                  "backend": backend})
    st(f"router/ndim={len(sa)}x{len(sb)}")
    # oracle: pairwise
    ok = C.shape == sa + sb
    if ok:
        for i in np.ndindex(*sa):
            for j in np.ndindex(*sb):
                e = A[i] * B[j]
                c = C[i + j]
                if not (close(e.data, c.data) and bool(e.improper.all()) == bool(c.improper.all())):
                    ok = False
    if not ok:
        fail("outer:rotation", f"Rotation.outer is not the pairwise product indexed self.shape+other.shape for shapes {sa} x {sb}",
             {"A": rot_json(A), "B": rot_json(B), "backend": backend})
    miller = R.random() < 0.3
    V = mk_vec(sb, miller)
    W = A.outer(V)
    cases.append({"k": "vouter", "A": rot_json(A), "V": V.data.reshape(-1, 3).tolist(), "sV": list(sb),
                  "W": W.data.reshape(-1, 3).tolist(), "sW": list(W.shape), "backend": backend})
    st(f"vouter/ndim={len(sa)}x{len(sb)}/miller={miller}")
    ok = W.shape == sa + sb
    if ok:
        M = A.to_matrix()
        for i in np.ndindex(*sa):
            sgn = -1 if A.improper[i] else 1
            for j in np.ndindex(*sb):
                if not close(sgn * M[i] @ V.data[j], W.data[i + j], 1e-8):
                    ok = False
    if not ok:
        fail("outer:vector", f"Rotation.outer(vectors) is not sign*M@v indexed self.shape+other.shape for {sa} x {sb}",
             {"A": rot_json(A), "V": V.data.tolist(), "backend": backend})
    if miller and not (isinstance(W, Miller) and W.phase is V.phase and W.coordinate_format == V.coordinate_format):
        fail("outer:miller-meta", "outer with Miller loses phase/coordinate format", {"sa": sa, "sb": sb})
set_backend(True)

# ------------------------------------------------- broadcast element-wise products
for k in range(max(N // 4, 20)):
    backend = k % 3 != 0
    set_backend(backend)
    sa, sb = R.choice(BPAIRS)
    if R.random() < 0.5:
        sa, sb = sb, sa
    A, B = mk_rot(sa), mk_rot(sb)
    miller = R.random() < 0.3
    V = mk_vec(sb, miller)
    try:
        C = A * B
        cases.append({"k": "rbcast", "A": rot_json(A), "B": rot_json(B), "C": rot_json(C)})
    except Exception as e:  # noqa
        fail("mul:raises", f"R1*R2 raises {type(e).__name__} for broadcastable shapes {sa},{sb}", {"sa": sa, "sb": sb})
        continue
    W = A * V
    cases.append({"k": "vbcast", "A": rot_json(A), "V": V.data.reshape(-1, 3).tolist(), "sV": list(sb),
                  "W": W.data.reshape(-1, 3).tolist(), "sW": list(W.shape)})
    st(f"bcast/{len(sa)}x{len(sb)}")
    bs = np.broadcast_shapes(sa, sb)
    # oracle: matrix reference with sign, on the broadcast grid
    M = np.broadcast_to(A.to_matrix(), bs + (3, 3))
    sg = np.where(np.broadcast_to(A.improper, bs), -1.0, 1.0)
    vb = np.broadcast_to(V.data, bs + (3,))
    ref = sg[..., None] * np.einsum("...ij,...j->...i", M, vb)
    if not (W.shape == bs and close(ref, W.data, 1e-8)):
        fail("mul:improper-vector", f"R*v differs from sign*(matrix@v) for shapes {sa} * {sb}",
             {"A": rot_json(A), "V": V.data.tolist(), "backend": backend})
    # composition, both groupings
    B2 = mk_rot(sb)
    lhs = (A * B2) * V
    rhs = A * (B2 * V)
    if not close(lhs.data, rhs.data, 1e-8):
        fail("compose", f"(R1*R2)*v != R1*(R2*v) for shapes {sa},{sb}",
             {"A": rot_json(A), "B": rot_json(B2), "V": V.data.tolist()})
    # matrix of product
    Cm = np.einsum("...ij,...jk->...ik", np.broadcast_to(A.to_matrix(), bs + (3, 3)),
                   np.broadcast_to(B.to_matrix(), bs + (3, 3)))
    if not close(C.to_matrix(), Cm, 1e-8):
        fail("matrix-of-product", "matrix of a product is not the product of matrices", {"A": rot_json(A), "B": rot_json(B)})
    if not np.array_equal(C.improper, np.logical_xor(*np.broadcast_arrays(A.improper, B.improper))):
        fail("parity:mul", "properness of a product is not the xor", {"A": rot_json(A), "B": rot_json(B)})
    if not close(C.norm if hasattr(C, "norm") else 1, np.ones(bs), 1e-9):
        fail("unit", "product of unit quaternions is not unit", {"A": rot_json(A), "B": rot_json(B)})
    I = A * ~A
    if not (close(np.abs(I.data[..., 0]), np.ones(sa)) and not I.improper.any()):
        fail("inverse", "R * ~R is not the identity", {"A": rot_json(A)})
    if not np.array_equal((~A).improper, A.improper) or not np.array_equal((-A).improper, ~A.improper):
        fail("parity:inv-neg", "inverse/negation parity wrong", {"A": rot_json(A)})
    if not close((-A * V).data, -(A * V).data):
        fail("neg-action", "(-R)*v != -(R*v)", {"A": rot_json(A)})
    # lengths and mutual angles
    U = mk_vec(sb)
    d0 = np.broadcast_to(np.sum(V.data * U.data, -1), bs)
    d1 = np.sum((A * V).data * (A * U).data, -1)
    if not close(d0, d1, 1e-7):
        fail("isometry", "rotation changes inner products", {"A": rot_json(A)})
    if miller and not (isinstance(W, Miller) and W.phase is V.phase and W.coordinate_format == V.coordinate_format):
        fail("mul:miller-meta", "R*Miller loses phase/coordinate format", {"sa": sa, "sb": sb})
set_backend(True)

# -------------------------------------------- class pairs keep type and symmetry
for cls in (Rotation, Orientation, Misorientation, Quaternion):
    a = cls(np.array([rand_unit_quat(R) for _ in range(3)]))
    b = Rotation(np.array([rand_unit_quat(R) for _ in range(3)]))
    c = b * a
    st(f"class/{cls.__name__}")
    if type(c) is not cls:
        fail("class", f"Rotation * {cls.__name__} returns {type(c).__name__}", {})

# ------------------------------------------------------------ align vectors
for k in range(max(N // 10, 10)):
    n = R.choice([2, 3, 5])
    q = rand_unit_quat(R)
    v = Vector3d(np.array([rand_vec(R) for _ in range(n)]))
    if n == 2 and R.random() < 0.3:
        v = Vector3d(np.array([[1, 0, 0], [0, 1, 0]]) * 1.0)
    Rt = Rotation(q)
    w = Rt * v
    for cl in (Quaternion, Rotation, Orientation):
        if cl is Orientation:
            ph = Phase(point_group="m-3m")
            est = cl.from_align_vectors(Miller(xyz=w.data, phase=ph), Miller(xyz=v.data, phase=ph))
        else:
            est = cl.from_align_vectors(w, v)
        got = est * v.unit
        st("align")
        if not close(got.data, w.unit.data, 1e-6):
            fail("align", f"{cl.__name__}.from_align_vectors does not map initial onto other for an exact rotation",
                 {"q": q, "v": v.data.tolist()})

set_backend(True)

# ======================================================================================
# Audit strata.  Each block covers an entry point / keyword path / input class /
# parameter combination of the property's quantifier that the blocks above never reach.
# Reference throughout: the SIGNED 3x3 matrix of a (possibly improper) rotation computed
# with plain numpy from the quaternion components (qmat/smat below; not orix code).
# Products of rotations <-> matrix products, ~ <-> transpose, unary minus <-> -S,
# action on a vector <-> S @ v ("proper part followed by inversion").
# ======================================================================================
import dask  # noqa: E402
from diffpy.structure import Lattice, Structure  # noqa: E402

from orix.quaternion.symmetry import D3d  # noqa: E402

dask.config.set(scheduler="synchronous")   # tiny arrays: the thread pool only adds latency to lazy=True calls
REPS = min(5, max(1, N // 240))          # quick: 1 pass (~17 s); thorough: 5 passes with fresh random data
MODES = ["none", "mixed", "all"]
PH_CUB = Phase(point_group="m-3m")
PH_HEX = Phase(point_group="6/mmm", structure=Structure(lattice=Lattice(3.2, 3.2, 5.1, 90, 90, 120)))


def qmat(q):
    q = np.asarray(q, float)
    a, b, c, d = np.moveaxis(q, -1, 0)
    return np.stack([
        np.stack([a * a + b * b - c * c - d * d, 2 * (b * c - a * d), 2 * (b * d + a * c)], -1),
        np.stack([2 * (b * c + a * d), a * a - b * b + c * c - d * d, 2 * (c * d - a * b)], -1),
        np.stack([2 * (b * d - a * c), 2 * (c * d + a * b), a * a - b * b - c * c + d * d], -1)], -2)


def ham(p, q):
    """Hamilton product with broadcasting, plain numpy"""
    p, q = np.asarray(p, float), np.asarray(q, float)
    a1, b1, c1, d1 = np.moveaxis(p, -1, 0)
    a2, b2, c2, d2 = np.moveaxis(q, -1, 0)
    return np.stack([a1 * a2 - b1 * b2 - c1 * c2 - d1 * d2,
                     a1 * b2 + b1 * a2 + c1 * d2 - d1 * c2,
                     a1 * c2 - b1 * d2 + c1 * a2 + d1 * b2,
                     a1 * d2 + b1 * c2 - c1 * b2 + d1 * a2], -1)


def smat(r):
    return np.where(np.asarray(r.improper, bool)[..., None, None], -1.0, 1.0) * qmat(r.data[..., :4])


def outer_mm(SA, SB):
    sa, sb = SA.shape[:-2], SB.shape[:-2]
    return (SA.reshape(-1, 1, 3, 3) @ SB.reshape(1, -1, 3, 3)).reshape(sa + sb + (3, 3))


def outer_mv(SA, V):
    sa, sb = SA.shape[:-2], V.shape[:-1]
    return np.einsum("aij,bj->abi", SA.reshape(-1, 3, 3), np.asarray(V, float).reshape(-1, 3)).reshape(sa + sb + (3,))


def is_rot(X, S, tol=1e-8):
    """X (Rotation-like) is the array of signed matrices S, with unit quaternions"""
    return (tuple(X.shape) == tuple(S.shape[:-2]) and X.improper.shape == tuple(X.shape)
            and close(smat(X), S, tol) and close(np.sum(X.data[..., :4] ** 2, -1), np.ones(X.shape), 1e-9))


def is_vec(W, ref, tol=1e-8):
    return tuple(W.shape) == tuple(ref.shape[:-1]) and close(W.data, ref, tol)


def flags_for(shape, mode):
    n = int(np.prod(shape))
    if mode == "none":
        f = [False] * n
    elif mode == "all":
        f = [True] * n
    else:
        f = [R.random() < 0.5 for _ in range(n)]
        if n >= 2 and len(set(f)) == 1:          # really mixed
            f[R.randrange(n)] = not f[0]
    return np.array(f, bool).reshape(shape)


def mk_rot_mode(shape, mode, cls=Rotation, **kw):
    rot = mk_rot(shape, mixed=False)
    if cls is not Rotation:
        rot = cls(rot, **kw)
    rot.improper = flags_for(shape, mode)
    return rot


def mk_miller(shape, k):
    n = int(np.prod(shape))
    v = np.array([rand_vec(R, R.choice([0.1, 1, 7])) for _ in range(n)]).reshape(shape + (3,))
    ph, fmts = [(PH_CUB, ["xyz", "uvw", "hkl"]), (PH_HEX, ["UVTW", "hkil", "uvw", "hkl"])][k % 2]
    m = Miller(xyz=v, phase=ph)
    m.coordinate_format = fmts[(k // 2) % len(fmts)]
    return m


def miller_ok(W, V):
    return isinstance(W, Miller) and W.phase is V.phase and W.coordinate_format == V.coordinate_format


def guarded(sig, what, rep, fn):
    """run fn(); an exception on a valid input is itself an oracle failure"""
    try:
        return fn()
    except Exception as e:  # noqa
        fail(sig + ":raises", f"{what}: raises {type(e).__name__}: {e}", rep)
        return None


# ------------------- (1) improper flags of the two operands drawn INDEPENDENTLY
# none/mixed/all for the left operand x none/mixed/all for the right one, cycled over
# every broadcastable shape pair in both orders, for *, outer, ~, -, inv() and vectors
k = 0
for _rep in range(REPS):
    for (ma, mb), (p0, swap) in zip(itertools.cycle(itertools.product(MODES, MODES)),
                                    itertools.product(BPAIRS, (False, True))):
        k += 1
        backend = k % 3 != 0
        set_backend(backend)
        sa, sb = (p0[1], p0[0]) if swap else p0
        A, B = mk_rot_mode(sa, ma), mk_rot_mode(sb, mb)
        V = mk_vec(sb)
        SA, SB = smat(A), smat(B)
        rep = {"A": rot_json(A), "B": rot_json(B), "V": V.data.tolist(), "backend": backend, "modes": [ma, mb]}
        st(f"flags/{ma}x{mb}")
        C = guarded("flags:mul-rot", f"R1*R2 shapes {sa},{sb}", rep, lambda: A * B)
        if C is not None and not (is_rot(C, SA @ SB) and np.array_equal(
                C.improper, np.logical_xor(*np.broadcast_arrays(A.improper, B.improper)))):
            fail("flags:mul-rot", f"R1*R2 is not the product of the signed matrices / xor of the flags "
                 f"(flags {ma} x {mb}, shapes {sa},{sb})", rep)
        W = guarded("flags:mul-vec", f"R*v shapes {sa},{sb}", rep, lambda: A * V)
        if W is not None and not is_vec(W, np.einsum("...ij,...j->...i", SA, V.data)):
            fail("flags:mul-vec", f"R*v is not (proper part, then inversion) (flags {ma}, shapes {sa},{sb})", rep)
        if C is not None and W is not None:
            lhs, rhs = (A * B) * V, A * (B * V)
            if not (close(lhs.data, rhs.data, 1e-8) and is_vec(lhs, np.einsum("...ij,...j->...i", SA @ SB, V.data))):
                fail("flags:compose", f"(R1*R2)*v != R1*(R2*v) (flags {ma} x {mb}, shapes {sa},{sb})", rep)
        Co = guarded("flags:outer-rot", f"R1.outer(R2) shapes {sa},{sb}", rep, lambda: A.outer(B))
        if Co is not None and not is_rot(Co, outer_mm(SA, SB)):
            fail("flags:outer-rot", f"R1.outer(R2) is not the pairwise product indexed self.shape+other.shape "
                 f"(flags {ma} x {mb}, shapes {sa},{sb})", rep)
        Wo = guarded("flags:outer-vec", f"R.outer(v) shapes {sa},{sb}", rep, lambda: A.outer(V))
        if Wo is not None and not is_vec(Wo, outer_mv(SA, V.data)):
            fail("flags:outer-vec", f"R.outer(v) is not the pairwise action (flags {ma}, shapes {sa},{sb})", rep)
        for nm, X, S in (("invert", ~A, np.swapaxes(SA, -1, -2)), ("inv", A.inv(), np.swapaxes(SA, -1, -2)),
                         ("neg", -A, -SA), ("inv-of-product", ~(A * B) if C is not None else ~A,
                                           np.swapaxes(SA @ SB if C is not None else SA, -1, -2))):
            if not is_rot(X, S):
                fail(f"flags:{nm}", f"{nm} of rotations with flags {ma} (x {mb}) is not the inverse/negated signed matrix", rep)
set_backend(True)

# ------------------- (2) lazy=True (dask einsum formulas), chunk sizes below/above the axis
# lengths, progressbar on/off; rotations, quaternions, vectors, Miller; vs numpy reference
LZ = [((3,), (4,)), ((2, 3), (3,)), ((3,), (2, 3)), ((2, 3), (3, 2)), ((2, 1, 3), (1, 4)), ((1,), (5,)),
      ((5, 1), (1, 1)), ((4,), (1,)), ((2, 2, 2), (2,)), ((0,), (3,)), ((3,), (0,)), ((2, 0), (2,))]
k = 0
for _rep in range(REPS):
    for (sa, sb), (ma, mb) in zip(LZ * 2, itertools.cycle(itertools.product(MODES, MODES))):
        k += 1
        backend = k % 2 == 0
        set_backend(backend)
        cs = [1, 2, 20][k % 3]
        pb = k % 5 == 0
        A, B = mk_rot_mode(sa, ma), mk_rot_mode(sb, mb)
        miller = k % 3 == 1
        V = mk_miller(sb, k) if miller else mk_vec(sb)
        SA, SB = smat(A), smat(B)
        rep = {"A": rot_json(A), "B": rot_json(B), "V": V.data.tolist(), "chunk_size": cs, "progressbar": pb,
               "backend": backend}
        st(f"lazy/ndim={len(sa)}x{len(sb)}/chunk={cs}/pb={pb}/miller={miller}")
        C = guarded("lazy:outer-rot", f"R1.outer(R2, lazy=True, chunk_size={cs}) shapes {sa},{sb}", rep,
                    lambda: A.outer(B, lazy=True, chunk_size=cs, progressbar=pb))
        if C is not None:
            E = A.outer(B)
            if not (is_rot(C, outer_mm(SA, SB)) and type(C) is type(E) and close(C.data, E.data, 1e-9)
                    and np.array_equal(C.improper, E.improper)):
                fail("lazy:outer-rot", f"R1.outer(R2, lazy=True, chunk_size={cs}) is not the pairwise product / differs "
                     f"from lazy=False for shapes {sa},{sb}", rep)
        W = guarded("lazy:outer-vec", f"R.outer(v, lazy=True, chunk_size={cs}) shapes {sa},{sb}", rep,
                    lambda: A.outer(V, lazy=True, chunk_size=cs, progressbar=pb))
        if W is not None:
            E = A.outer(V)
            if not (is_vec(W, outer_mv(SA, V.data)) and type(W) is type(E) and close(W.data, E.data, 1e-8)):
                fail("lazy:outer-vec", f"R.outer(v, lazy=True, chunk_size={cs}) is not the pairwise action / differs "
                     f"from lazy=False for shapes {sa},{sb}", rep)
            if miller and not miller_ok(W, V):
                fail("lazy:miller-meta", "outer(lazy=True) with Miller loses phase/coordinate format", rep)
        # plain Quaternion class (non-unit allowed for the Hamilton product; unit for vectors)
        n1, n2 = int(np.prod(sa)), int(np.prod(sb))
        p = np.array([rand_unit_quat(R) for _ in range(n1)]).reshape(sa + (4,)) * ([1.0, 0.3, 2.5][k % 3])
        q = np.array([rand_unit_quat(R) for _ in range(n2)]).reshape(sb + (4,)) * ([1.0, 1.7, 0.4][(k // 3) % 3])
        P, Q = Quaternion(p), Quaternion(q)
        href = ham(p.reshape(sa + (1,) * len(sb) + (4,)), q)
        rep = {"p": p.tolist(), "q": q.tolist(), "chunk_size": cs, "backend": backend}
        for lazy in ((False, True) if (k // 3) % 2 == 0 else (False,)):   # dask calls cost ~0.1-0.3 s each
            X = guarded("quat:outer", f"Quaternion.outer(Quaternion, lazy={lazy}) shapes {sa},{sb}", rep,
                        lambda: P.outer(Q, lazy=lazy, chunk_size=cs, progressbar=False))
            if X is not None and not (type(X) is Quaternion and X.shape == sa + sb and close(X.data, href, 1e-9)):
                fail("quat:outer", f"Quaternion.outer(Quaternion, lazy={lazy}) is not the pairwise Hamilton product "
                     f"indexed self.shape+other.shape for shapes {sa},{sb}", rep)
            Pu = Quaternion(p).unit
            X = guarded("quat:outer-vec", f"Quaternion.outer(Vector3d, lazy={lazy}) shapes {sa},{sb}", rep,
                        lambda: Pu.outer(V, lazy=lazy, chunk_size=cs, progressbar=False))
            if X is not None and not is_vec(X, outer_mv(qmat(Pu.data), V.data)):
                fail("quat:outer-vec", f"Quaternion.outer(vectors, lazy={lazy}) is not the pairwise rotation for {sa},{sb}",
                     {**rep, "V": V.data.tolist()})
        if n1:
            I = P * ~P
            I2 = P.inv() * P
            one = np.broadcast_to([1.0, 0, 0, 0], sa + (4,))
            if not (close(I.data, one, 1e-9) and close(I2.data, one, 1e-9)):
                fail("quat:inverse", "Q * ~Q / Q.inv() * Q is not the identity quaternion (non-unit Q)", rep)
set_backend(True)

# ------------------- (3) empty objects (explicit in the quantifier) in every operation
EMPTY = [((0,), (0,)), ((0,), (1,)), ((1,), (0,)), ((2, 0), (2, 0)), ((2, 0), (1,)), ((2, 0), (2, 1)), ((0, 3), (3,)),
         ((1, 1), (0,))]
for k, (sa, sb) in enumerate(EMPTY * 2):
    backend = k >= len(EMPTY)
    set_backend(backend)
    A, B, V = mk_rot_mode(sa, "mixed"), mk_rot_mode(sb, "mixed"), mk_vec(sb)
    if k % 4 == 0 and sa == (0,):
        A = Rotation.empty()
    rep = {"sa": sa, "sb": sb, "backend": backend}
    st("empty")
    bs = np.broadcast_shapes(sa, sb)
    for nm, fn, shp, typ in (("mul-rot", lambda: A * B, bs, Rotation), ("mul-vec", lambda: A * V, bs, Vector3d),
                             ("outer-rot", lambda: A.outer(B), sa + sb, Rotation),
                             ("outer-vec", lambda: A.outer(V), sa + sb, Vector3d),
                             ("outer-rot-lazy", lambda: A.outer(B, lazy=True, progressbar=False), sa + sb, Rotation),
                             ("outer-vec-lazy", lambda: A.outer(V, lazy=True, progressbar=False), sa + sb, Vector3d),
                             ("invert", lambda: ~A, sa, Rotation), ("inv", lambda: A.inv(), sa, Rotation),
                             ("neg", lambda: -A, sa, Rotation)):
        X = guarded(f"empty:{nm}", f"{nm} with empty operands of shapes {sa},{sb}", rep, fn)
        if X is None:
            continue
        ok = isinstance(X, typ) and tuple(X.shape) == tuple(shp)
        if ok and typ is Rotation:
            ok = X.improper.shape == tuple(shp)
        if not ok:
            fail(f"empty:{nm}", f"{nm} with empty operands of shapes {sa},{sb} does not return an empty "
                 f"{typ.__name__} of shape {tuple(shp)} (got {type(X).__name__} {getattr(X, 'shape', None)})", rep)
set_backend(True)

# ------------------- (4) operand classes drawn INDEPENDENTLY for left and right:
# Rotation / Orientation / Misorientation / Symmetry (group elements, incl. improper
# groups); class-specific overrides of ~, -, inv(); vectors and Miller (cubic, hexagonal)
SYMS = [Oh, D6, D3d]


def mk_cls(name, shape, mode, j):
    n = int(np.prod(shape))
    if name == "Symmetry":
        g = SYMS[j % 3]
        return g[np.array([R.randrange(g.size) for _ in range(n)])].reshape(*shape)
    if name == "Orientation":
        return mk_rot_mode(shape, mode, Orientation, symmetry=SYMS[j % 3])
    if name == "Misorientation":
        return mk_rot_mode(shape, mode, Misorientation, symmetry=(SYMS[j % 3], SYMS[(j + 1) % 3]))
    return mk_rot_mode(shape, mode)


CLS = ["Rotation", "Orientation", "Misorientation", "Symmetry"]
CSHAPES = [((4,), (4,)), ((3, 1), (1, 2)), ((2, 3), (3,)), ((1,), (2, 2))]
k = 0
for _rep in range(REPS):
    for (la, lb), (ma, mb) in zip(itertools.product(CLS, CLS), itertools.cycle(itertools.product(MODES[1:], MODES))):
        for backend in (True, False):
            k += 1
            set_backend(backend)
            sa, sb = CSHAPES[k % len(CSHAPES)]
            A, B = mk_cls(la, sa, ma, k), mk_cls(lb, sb, mb, k // 3)
            V = mk_miller(sb, k) if k % 2 else mk_vec(sb)
            SA, SB = smat(A), smat(B)
            rep = {"left": la, "right": lb, "A": rot_json(A), "B": rot_json(B), "V": V.data.tolist(), "backend": backend}
            st(f"classes/{la}*{lb}")
            C = guarded(f"class:mul/{la}*{lb}", f"{la} * {lb}", rep, lambda: A * B)
            if C is not None and not is_rot(C, SA @ SB):
                fail(f"class:mul/{la}*{lb}", f"{la} * {lb} is not the product of the signed matrices", rep)
            Co = guarded(f"class:outer/{la}*{lb}", f"{la}.outer({lb})", rep, lambda: A.outer(B))
            if Co is not None and not is_rot(Co, outer_mm(SA, SB)):
                fail(f"class:outer/{la}*{lb}", f"{la}.outer({lb}) is not the pairwise product indexed self.shape+other.shape", rep)
            Cl = guarded(f"class:outer-lazy/{la}*{lb}", f"{la}.outer({lb}, lazy=True)", rep,
                         lambda: A.outer(B, lazy=True, chunk_size=2, progressbar=False))
            if Cl is not None and not is_rot(Cl, outer_mm(SA, SB)):
                fail(f"class:outer-lazy/{la}*{lb}", f"{la}.outer({lb}, lazy=True) is not the pairwise product", rep)
            for nm, fn, S in (("invert", lambda: ~A, np.swapaxes(SA, -1, -2)), ("inv", lambda: A.inv(), np.swapaxes(SA, -1, -2)),
                              ("neg", lambda: -A, -SA)):
                X = guarded(f"class:{nm}/{la}", f"{nm} of {la}", rep, fn)
                if X is not None and not (is_rot(X, S) and type(X) is type(A)):
                    fail(f"class:{nm}/{la}", f"{nm} of a {la} is not the inverse / negated signed matrix of the same class", rep)
            I = guarded(f"class:inverse/{la}", f"{la} * ~{la}", rep, lambda: A * ~A)
            if I is not None and not is_rot(I, np.broadcast_to(np.eye(3), sa + (3, 3))):
                fail(f"class:inverse/{la}", f"X * ~X is not the (proper) identity for a {la}", rep)
            vk = "Miller" if isinstance(V, Miller) else "Vector3d"
            W = guarded(f"class:mul-vec/{lb}", f"{lb} * {vk}", rep, lambda: B * V)
            if W is not None and not (is_vec(W, np.einsum("...ij,...j->...i", SB, V.data)) and (vk != "Miller" or miller_ok(W, V))):
                fail(f"class:mul-vec/{lb}", f"{lb} * {vk} is not (proper part, then inversion) or loses the phase/format", rep)
            Wo = guarded(f"class:outer-vec/{la}", f"{la}.outer({vk})", rep, lambda: A.outer(V))
            if Wo is not None and not (is_vec(Wo, outer_mv(SA, V.data)) and (vk != "Miller" or miller_ok(Wo, V))):
                fail(f"class:outer-vec/{la}", f"{la}.outer({vk}) is not the pairwise action or loses the phase/format", rep)
            if C is not None and W is not None:
                lhs = guarded(f"class:compose/{la}*{lb}", "(X*Y)*v", rep, lambda: C * V)
                rhs = guarded(f"class:compose/{la}*{lb}", "X*(Y*v)", rep, lambda: A * W)
                if lhs is not None and rhs is not None and not (
                        close(lhs.data, rhs.data, 1e-8) and is_vec(lhs, np.einsum("...ij,...j->...i", SA @ SB, V.data))):
                    fail(f"class:compose/{la}*{lb}", f"({la}*{lb})*v != {la}*({lb}*v)", rep)
# the whole groups (improper elements included): closure data of G.outer(G) and G * v
for g in SYMS:
    for backend in (True, False):
        set_backend(backend)
        st(f"classes/group={g.name}")
        SG = smat(g)
        v = mk_vec((1,))
        rep = {"group": g.name, "v": v.data.tolist(), "backend": backend}
        if not (is_rot(g.outer(g), outer_mm(SG, SG)) and is_rot(g.outer(g, lazy=True, progressbar=False), outer_mm(SG, SG))):
            fail("class:group-outer", f"{g.name}.outer({g.name}) is not the pairwise product of the signed matrices", rep)
        if not (is_vec(g * v, np.einsum("...ij,...j->...i", SG, v.data)) and is_vec(g.outer(v), outer_mv(SG, v.data))
                and is_rot(~g, np.swapaxes(SG, -1, -2))):
            fail("class:group-action", f"{g.name} * v / {g.name}.outer(v) / ~{g.name} differ from the signed matrices", rep)
set_backend(True)

# ------------------- (5) multiplication by +1/-1 (int and list path) and integer dtype input
INTQ = [[1, 0, 0, 0], [0, 1, 0, 0], [0, 0, 1, 0], [0, 0, 0, 1], [1, 1, 1, 1], [1, -1, 1, -1], [1, 1, 0, 0], [0, 1, -1, 0],
        [2, 0, 0, 0], [0, 0, -3, 0], [1, 0, 0, -1]]
for k in range(24 * REPS):
    backend = k % 2 == 0
    set_backend(backend)
    sa = [(3,), (2, 3), (1,), (3, 1)][k % 4]
    A = mk_cls(["Rotation", "Orientation", "Misorientation"][k % 3], sa, MODES[(k // 3) % 3], k)
    SA = smat(A)
    n = int(np.prod(sa))
    s_list = [R.choice([1, -1]) for _ in range(sa[-1])]
    for nm, s, sg in (("+1", 1, np.ones(sa)), ("-1", -1, -np.ones(sa)),
                      ("list", s_list, np.broadcast_to(np.array(s_list, float), sa))):
        rep = {"A": rot_json(A), "s": s, "backend": backend}
        st(f"int/{nm}")
        X = guarded("int:mul", f"R * {nm}", rep, lambda: A * s)
        if X is not None and not (is_rot(X, sg[..., None, None] * SA) and close(X.data, A.data, 1e-12)):
            fail("int:mul", f"R * ({nm}) does not toggle exactly the improper flags of the entries multiplied by -1", rep)
    # integer-dtype quaternions and vectors (symmetry-operation-like input), all entry points
    qi = np.array([INTQ[R.randrange(len(INTQ))] for _ in range(n)], dtype=np.int64).reshape(sa + (4,))
    sb = [(3,), (2, 3), (4,), (1, 2)][k % 4]
    vi = np.array([[R.randrange(-4, 5) for _ in range(3)] for _ in range(int(np.prod(sb)))], dtype=np.int64).reshape(sb + (3,))
    Ai = Rotation(qi)
    Ai.improper = flags_for(sa, MODES[k % 3])
    Vi = Vector3d(vi) if k % 3 else Miller(uvw=vi, phase=PH_CUB)
    Si = np.where(Ai.improper[..., None, None], -1.0, 1.0) * qmat(qi / np.linalg.norm(qi, axis=-1, keepdims=True))
    rep = {"q": qi.tolist(), "imp": Ai.improper.astype(int).tolist(), "v": vi.tolist(), "backend": backend}
    qi0, vi0, A0 = qi.copy(), vi.copy(), Ai.data.copy()
    st("int/dtype")
    for nm, fn, ref in (("mul-vec", lambda: Ai * Vi, None),
                        ("outer-vec", lambda: Ai.outer(Vi), outer_mv(Si, vi)),
                        ("outer-vec-lazy", lambda: Ai.outer(Vi, lazy=True, chunk_size=2, progressbar=False), outer_mv(Si, vi)),
                        ("outer-rot", lambda: Ai.outer(Ai), outer_mm(Si, Si)),
                        ("mul-rot", lambda: Ai * Ai, Si @ Si), ("invert", lambda: ~Ai, np.swapaxes(Si, -1, -2))):
        if nm == "mul-vec":
            try:
                np.broadcast_shapes(sa, sb)
            except ValueError:
                continue
            ref = np.einsum("...ij,...j->...i", Si, vi.astype(float))
        X = guarded(f"intdtype:{nm}", f"{nm} with integer-dtype input, shapes {sa},{sb}", rep, fn)
        if X is None:
            continue
        good = is_vec(X, ref) if "vec" in nm else is_rot(X, ref)
        if not good:
            fail(f"intdtype:{nm}", f"{nm} with integer-dtype quaternions/vectors differs from the signed-matrix reference "
                 f"(shapes {sa},{sb})", rep)
    if not (np.array_equal(vi, vi0) and np.array_equal(qi, qi0) and np.array_equal(Vi.data, vi0)
            and np.array_equal(Ai.data, A0)):
        fail("intdtype:input-mutated", "an operation modified its (integer-dtype) operand in place", rep)
set_backend(True)

# ------------------- (6) triples: associativity with three independently shaped/flagged operands
TRIPLES = [((3,), (3,), (3,)), ((2, 1), (1, 3), (1,)), ((3, 1), (1, 4), (3, 4)), ((2, 1, 1), (1, 3, 1), (1, 1, 4)),
           ((1,), (4,), (2, 4)), ((2, 2), (1,), (2, 1)), ((1, 1), (1,), (1, 1, 1)), ((2, 3), (2, 1), (3,))]
k = 0
for _rep in range(REPS):
    for (ma, mb, mc), shp in zip(itertools.product(MODES, MODES, MODES), itertools.cycle(TRIPLES)):
        k += 1
        backend = k % 2 == 0
        set_backend(backend)
        perm = [(0, 1, 2), (1, 2, 0), (2, 0, 1)][k % 3]
        sa, sb, sc = (shp[i] for i in perm)
        A, B, Cc = mk_rot_mode(sa, ma), mk_rot_mode(sb, mb), mk_rot_mode(sc, mc)
        bs = np.broadcast_shapes(sa, sb, sc)
        V = mk_vec([bs, (1,), sc][k % 3])
        rep = {"A": rot_json(A), "B": rot_json(B), "C": rot_json(Cc), "V": V.data.tolist(), "backend": backend}
        st(f"triple/{ma}x{mb}x{mc}")
        S3 = smat(A) @ smat(B) @ smat(Cc)
        L = guarded("triple:assoc", "(R1*R2)*R3", rep, lambda: (A * B) * Cc)
        Rr = guarded("triple:assoc", "R1*(R2*R3)", rep, lambda: A * (B * Cc))
        if L is None or Rr is None:
            continue
        if not (is_rot(L, S3) and is_rot(Rr, S3) and close(L.data, Rr.data, 1e-9) and np.array_equal(L.improper, Rr.improper)):
            fail("triple:assoc", f"(R1*R2)*R3 != R1*(R2*R3) or not the product of the three signed matrices "
                 f"(flags {ma},{mb},{mc}; shapes {sa},{sb},{sc})", rep)
        ref = np.einsum("...ij,...j->...i", S3, V.data)
        w1, w2, w3 = L * V, A * (B * (Cc * V)), (A * B) * (Cc * V)
        if not (is_vec(w1, ref) and is_vec(w2, ref) and is_vec(w3, ref)):
            fail("triple:action", f"((R1*R2)*R3)*v, R1*(R2*(R3*v)) and (R1*R2)*(R3*v) are not all S1 S2 S3 v "
                 f"(flags {ma},{mb},{mc}; shapes {sa},{sb},{sc})", rep)
        inv3 = ~Cc * (~B * ~A)
        if not is_rot(~L, np.swapaxes(S3, -1, -2)) or not is_rot(inv3, np.swapaxes(S3, -1, -2)):
            fail("triple:inverse", "~(R1*R2*R3) != ~R3*~R2*~R1 (as signed matrices)", rep)
set_backend(True)

# ------------------- (7) histories: chains of *, ~, inv(), -, *(-1), outer, reshape, transpose,
# indexing, squeeze; the signed matrices are tracked alongside and compared after EVERY step
STEPS = ["mul_r", "mul_l", "invert", "inv", "neg", "int", "outer_r", "outer_l", "reshape", "transpose", "getitem",
         "squeeze", "mul_r", "mul_l"]
for k in range(40 * REPS):
    backend = k % 2 == 0
    set_backend(backend)
    s0 = [(3,), (2, 3), (1,), (2, 1, 2), (4, 1)][k % 5]
    X = mk_rot_mode(s0, MODES[k % 3])
    S = smat(X)
    hist = [{"op": "start", "X": rot_json(X)}]
    st(f"chain/start-ndim={len(s0)}")
    bad = False
    for j in range(8):
        op = STEPS[(k * 5 + j * 3 + R.randrange(3)) % len(STEPS)]
        sh = tuple(X.shape)
        ent = {"op": op}
        try:
            if op in ("mul_r", "mul_l"):
                ys = [sh, (1,), sh[-1:], sh[:-1] + (1,)][R.randrange(4)]
                Y = mk_rot_mode(ys, MODES[R.randrange(3)])
                ent["Y"] = rot_json(Y)
                X, S = (X * Y, S @ smat(Y)) if op == "mul_r" else (Y * X, smat(Y) @ S)
            elif op in ("invert", "inv"):
                X, S = (~X if op == "invert" else X.inv()), np.swapaxes(S, -1, -2)
            elif op == "neg":
                X, S = -X, -S
            elif op == "int":
                X, S = X * -1, -S
            elif op in ("outer_r", "outer_l"):
                if X.size > 12:
                    continue
                Y = mk_rot_mode([(2,), (1,), (1, 2)][R.randrange(3)], MODES[R.randrange(3)])
                ent["Y"] = rot_json(Y)
                lazy = R.random() < 0.3
                ent["lazy"] = lazy
                if op == "outer_r":
                    X, S = X.outer(Y, lazy=lazy, chunk_size=2, progressbar=False), outer_mm(S, smat(Y))
                else:
                    X, S = Y.outer(X, lazy=lazy, chunk_size=2, progressbar=False), outer_mm(smat(Y), S)
            elif op == "reshape":
                n = X.size
                cands = [(n,), (1, n), (n, 1)] + [(a, n // a) for a in (2, 3) if n % a == 0 and n > a]
                new = cands[R.randrange(len(cands))]
                ent["shape"] = new
                X, S = X.reshape(*new), S.reshape(new + (3, 3))
            elif op == "transpose":
                if X.ndim < 2:
                    continue
                axes = list(range(X.ndim))
                R.shuffle(axes)
                if X.ndim == 2 and R.random() < 0.5:
                    axes = [1, 0]
                    X = X.transpose()
                else:
                    X = X.transpose(*axes)
                ent["axes"] = axes
                S = S.transpose(*axes, X.ndim, X.ndim + 1)
            elif op == "getitem":
                kind = R.randrange(4)
                if kind == 0:
                    key = R.randrange(sh[0])
                elif kind == 1:
                    key = slice(None, None, -1)
                elif kind == 2 or len(sh) < 2:
                    m = [R.random() < 0.6 for _ in range(sh[0])]
                    if not any(m):
                        m[0] = True
                    key = np.array(m)
                else:
                    key = (slice(None), R.randrange(sh[1]))
                ent["key"] = str(key.tolist() if isinstance(key, np.ndarray) else key)
                X = X[key]
                S = S[key]
                if S.ndim == 2:
                    S = S[None]
            elif op == "squeeze":
                X = X.squeeze()
                S = S.reshape(tuple(d for d in S.shape[:-2] if d != 1) + (3, 3))
                if S.ndim == 2:
                    S = S[None]
        except Exception as e:  # noqa
            hist.append(ent)
            fail(f"chain:{op}:raises", f"step {op} of a history raises {type(e).__name__}: {e}", {"history": hist, "backend": backend})
            bad = True
            break
        hist.append(ent)
        st(f"chain/op={op}")
        if not (isinstance(X, Rotation) and is_rot(X, S)):
            fail(f"chain:{op}", f"after step {j + 1} ({op}) of a history the rotations (data + improper flags) are not the "
                 f"tracked signed matrices", {"history": hist, "backend": backend})
            bad = True
            break
    if not bad and X.size:
        V = mk_vec((1,))
        if not is_vec(X * V, np.einsum("...ij,...j->...i", S, V.data)):
            fail("chain:action", "after a history of operations R*v is not the tracked signed matrix applied to v",
                 {"history": hist, "V": V.data.tolist(), "backend": backend})
set_backend(True)

# ------------------- (8) from_align_vectors: all four classes, weights, return_rmsd /
# return_sensitivity (tuple layout), list/tuple input, scaled and degenerate vector sets,
# both backends
for k in range(36 * REPS):
    backend = k % 2 == 0
    set_backend(backend)
    kind = ["generic", "scaled", "single", "collinear", "coplanar", "orthonormal"][k % 6]
    n = {"single": 1, "collinear": 2, "orthonormal": 3}.get(kind, [2, 3, 6][(k // 6) % 3])
    v = np.array([rand_vec(R) for _ in range(n)])
    if kind == "collinear":
        v[1] = v[0] * R.choice([2.5, 0.3])
    if kind == "coplanar" and n > 2:
        v[2:] = [v[0] * R.uniform(-2, 2) + v[1] * R.uniform(0.3, 2) for _ in range(n - 2)]
    if kind == "orthonormal":
        v = qmat(rand_unit_quat(R)).T
    q = rand_unit_quat(R)
    w = np.einsum("ij,nj->ni", qmat(q), v)              # target = exact rotation of the initial set
    if kind == "scaled":
        w = w * np.array([R.choice([0.2, 3.0, 11.0]) for _ in range(n)])[:, None]
    unit = lambda a: a / np.linalg.norm(a, axis=-1, keepdims=True)  # noqa: E731
    wts = [None, [R.uniform(0.2, 3) for _ in range(n)], None][k % 3] if kind != "collinear" else None
    rr, rs = [(False, False), (True, False), (False, True), (True, True)][(k // 2) % 4]
    if kind in ("single", "collinear"):
        rs = False          # SciPy defines no sensitivity matrix for a single (effective) vector pair
    cname = ["Quaternion", "Rotation", "Orientation", "Misorientation"][(k // 3) % 4]
    cl = {"Quaternion": Quaternion, "Rotation": Rotation, "Orientation": Orientation, "Misorientation": Misorientation}[cname]
    if cname == "Orientation":
        other, initial = Miller(xyz=w, phase=PH_HEX if k % 2 else PH_CUB), Vector3d(v)
    elif cname == "Misorientation":
        other, initial = Miller(xyz=w, phase=PH_HEX), Miller(xyz=v, phase=PH_CUB)
    elif k % 4 == 1:
        other, initial = w.tolist(), tuple(map(tuple, v))          # list / tuple input path
    else:
        other, initial = Vector3d(w), Vector3d(v)
    rep = {"class": cname, "kind": kind, "q": q, "v": v.tolist(), "w": w.tolist(), "weights": wts, "return_rmsd": rr,
           "return_sensitivity": rs, "list_input": isinstance(other, list), "backend": backend}
    st(f"align/{cname}/{kind}/weights={wts is not None}/rmsd={rr}/sens={rs}")
    kw = {}
    if wts is not None:
        kw["weights"] = wts
    if rr:
        kw["return_rmsd"] = True
    if rs:
        kw["return_sensitivity"] = True
    out = guarded(f"align:{cname}", f"{cname}.from_align_vectors({kw})", rep, lambda: cl.from_align_vectors(other, initial, **kw))
    if out is None:
        continue
    parts = list(out) if isinstance(out, tuple) else [out]
    est = parts[0]
    lay = len(parts) == 1 + rr + rs and type(est) is cl
    if lay and rr:
        lay = np.ndim(parts[1]) == 0 and abs(float(parts[1])) < 1e-6
    if lay and rs and kind not in ("single", "collinear"):
        lay = np.shape(parts[-1]) == (3, 3)
    if not lay:
        fail("align:return-layout", f"{cname}.from_align_vectors({sorted(kw)}) does not return (estimate[, rmsd ~ 0][, 3x3 "
             f"sensitivity]) for an exactly alignable set", rep)
        continue
    got = est * Vector3d(unit(v))
    if not close(got.data, unit(w), 1e-6):
        fail(f"align:{cname}", f"{cname}.from_align_vectors (set: {kind}, weights: {wts is not None}) does not map the initial "
             f"set onto the target set although an exact rotation exists", rep)
    if cname == "Orientation" and est.symmetry.name != other.phase.point_group.name:
        fail("align:symmetry", "Orientation.from_align_vectors does not take the point group of the crystal vectors", rep)
    if cname == "Misorientation" and [s.name for s in est.symmetry] != [PH_CUB.point_group.name, PH_HEX.point_group.name]:
        fail("align:symmetry", "Misorientation.from_align_vectors symmetry is not (initial, other) point groups", rep)
set_backend(True)

emit({"cases": cases, "fails": fails, "strata": strata})
