"""C02 implementation harness: observations for the Coq correspondence and
the property oracle, both on /repo's working tree."""
import itertools
import math

import numpy as np
from common import emit, payload, rand_unit_quat, rand_vec, rng, set_backend

from orix.crystal_map import Phase
from orix.quaternion import Misorientation, Orientation, Quaternion, Rotation
from orix.quaternion.symmetry import C1, Oh, D6
from orix.vector import Miller, Vector3d

P = payload()
R = rng(P.get("seed", 0))
N = P.get("n", 200)
TOL = 1e-9

cases = []      # for Coq
fails = []      # oracle failures
strata = {}


def st(k):
    strata[k] = strata.get(k, 0) + 1


SHAPES = [(1,), (3,), (2, 3), (1, 4), (3, 1), (2, 1, 3), (4,), (1, 1), (2, 2)]
BPAIRS = [((3,), (3,)), ((1,), (4,)), ((4,), (1,)), ((3, 1), (4,)), ((3, 1), (1, 4)), ((3, 1), (3, 4)),
          ((2, 3), (3,)), ((2, 1, 4), (3, 1)), ((1, 1), (2, 2)), ((2, 2), (2, 2)), ((1,), (1,)),
          ((2, 1), (1, 3)), ((3,), (2, 3)), ((2, 3), (1, 3)), ((2, 1, 3), (2, 4, 1))]


def mk_rot(shape, mixed=True):
    n = int(np.prod(shape))
    q = np.array([rand_unit_quat(R) for _ in range(n)]).reshape(shape + (4,))
    rot = Rotation(q)
    if mixed:
        rot.improper = np.array([R.random() < 0.5 for _ in range(n)]).reshape(shape)
    return rot


def mk_vec(shape, miller=False):
    n = int(np.prod(shape))
    v = np.array([rand_vec(R, R.choice([0.1, 1, 7])) for _ in range(n)]).reshape(shape + (3,))
    if miller:
        ph = Phase(point_group="m-3m")
        m = Miller(xyz=v, phase=ph)
        m.coordinate_format = R.choice(["xyz", "uvw", "hkl"])
        return m
    return Vector3d(v)


def rot_json(r):
    return {"shape": list(r.shape), "q": r.data.reshape(-1, 4).tolist(),
            "imp": r.improper.reshape(-1).astype(int).tolist()}


def close(a, b, tol=TOL):
    a, b = np.asarray(a, float), np.asarray(b, float)
    return a.shape == b.shape and bool(np.all(np.abs(a - b) <= tol * np.maximum(1, np.abs(b))))


def fail(sig, what, rep):
    fails.append({"sig": sig, "what": what, "replay": rep})


# ---------------------------------------------------------------- kernel level
for k in range(N):
    backend = k % 2 == 0
    set_backend(backend)
    kind = R.choice(["unit", "unit", "nonunit"])
    p = rand_unit_quat(R)
    q = rand_unit_quat(R)
    if kind == "nonunit":
        s1, s2 = R.uniform(0.2, 3), R.uniform(0.2, 3)
        p = [x * s1 for x in p]
        q = [x * s2 for x in q]
    v = rand_vec(R, R.choice([0.01, 1, 30]))
    out = (Quaternion(p) * Quaternion(q)).data.reshape(-1).tolist()
    cj = Quaternion(p).conj.data.reshape(-1).tolist()
    cases.append({"k": "qmul", "p": p, "q": q, "out": out, "conj": cj, "backend": backend})
    st(f"qmul/{kind}/backend={backend}")
    if kind == "unit":
        rv = (Rotation(p) * Vector3d(v)).data.reshape(-1).tolist()
        cases.append({"k": "qrot", "q": p, "v": v, "out": rv, "backend": backend})
        st(f"qrot/backend={backend}")
set_backend(True)

# ------------------------------------------------------------- outer products
for k in range(max(N // 6, 12)):
    backend = k % 3 != 0
    set_backend(backend)
    sa, sb = R.choice(SHAPES), R.choice(SHAPES)
    A, B = mk_rot(sa), mk_rot(sb)
    C = A.outer(B)
    cases.append({"k": "router", "A": rot_json(A), "B": rot_json(B), "C": rot_json(C),
                  "backend": backend})
    st(f"router/ndim={len(sa)}x{len(sb)}")
    # oracle: pairwise
    ok = C.shape == sa + sb
    if ok:
        for i in np.ndindex(*sa):
            for j in np.ndindex(*sb):
                e = A[i] * B[j]
                c = C[i + j]
                if not (close(e.data, c.data) and bool(e.improper.all()) == bool(c.improper.all())):
                    ok = False
    if not ok:
        fail("outer:rotation", f"Rotation.outer is not the pairwise product indexed self.shape+other.shape for shapes {sa} x {sb}",
             {"A": rot_json(A), "B": rot_json(B), "backend": backend})
    miller = R.random() < 0.3
    V = mk_vec(sb, miller)
    W = A.outer(V)
    cases.append({"k": "vouter", "A": rot_json(A), "V": V.data.reshape(-1, 3).tolist(), "sV": list(sb),
                  "W": W.data.reshape(-1, 3).tolist(), "sW": list(W.shape), "backend": backend})
    st(f"vouter/ndim={len(sa)}x{len(sb)}/miller={miller}")
    ok = W.shape == sa + sb
    if ok:
        M = A.to_matrix()
        for i in np.ndindex(*sa):
            sgn = -1 if A.improper[i] else 1
            for j in np.ndindex(*sb):
                if not close(sgn * M[i] @ V.data[j], W.data[i + j], 1e-8):
                    ok = False
    if not ok:
        fail("outer:vector", f"Rotation.outer(vectors) is not sign*M@v indexed self.shape+other.shape for {sa} x {sb}",
             {"A": rot_json(A), "V": V.data.tolist(), "backend": backend})
    if miller and not (isinstance(W, Miller) and W.phase is V.phase and W.coordinate_format == V.coordinate_format):
        fail("outer:miller-meta", "outer with Miller loses phase/coordinate format", {"sa": sa, "sb": sb})
set_backend(True)

# ------------------------------------------------- broadcast element-wise products
for k in range(max(N // 4, 20)):
    backend = k % 3 != 0
    set_backend(backend)
    sa, sb = R.choice(BPAIRS)
    if R.random() < 0.5:
        sa, sb = sb, sa
    A, B = mk_rot(sa), mk_rot(sb)
    miller = R.random() < 0.3
    V = mk_vec(sb, miller)
    try:
        C = A * B
        cases.append({"k": "rbcast", "A": rot_json(A), "B": rot_json(B), "C": rot_json(C)})
    except Exception as e:  # noqa
        fail("mul:raises", f"R1*R2 raises {type(e).__name__} for broadcastable shapes {sa},{sb}", {"sa": sa, "sb": sb})
        continue
    W = A * V
    cases.append({"k": "vbcast", "A": rot_json(A), "V": V.data.reshape(-1, 3).tolist(), "sV": list(sb),
                  "W": W.data.reshape(-1, 3).tolist(), "sW": list(W.shape)})
    st(f"bcast/{len(sa)}x{len(sb)}")
    bs = np.broadcast_shapes(sa, sb)
    # oracle: matrix reference with sign, on the broadcast grid
    M = np.broadcast_to(A.to_matrix(), bs + (3, 3))
    sg = np.where(np.broadcast_to(A.improper, bs), -1.0, 1.0)
    vb = np.broadcast_to(V.data, bs + (3,))
    ref = sg[..., None] * np.einsum("...ij,...j->...i", M, vb)
    if not (W.shape == bs and close(ref, W.data, 1e-8)):
        fail("mul:improper-vector", f"R*v differs from sign*(matrix@v) for shapes {sa} * {sb}",
             {"A": rot_json(A), "V": V.data.tolist(), "backend": backend})
    # composition, both groupings
    B2 = mk_rot(sb)
    lhs = (A * B2) * V
    rhs = A * (B2 * V)
    if not close(lhs.data, rhs.data, 1e-8):
        fail("compose", f"(R1*R2)*v != R1*(R2*v) for shapes {sa},{sb}",
             {"A": rot_json(A), "B": rot_json(B2), "V": V.data.tolist()})
    # matrix of product
    Cm = np.einsum("...ij,...jk->...ik", np.broadcast_to(A.to_matrix(), bs + (3, 3)),
                   np.broadcast_to(B.to_matrix(), bs + (3, 3)))
    if not close(C.to_matrix(), Cm, 1e-8):
        fail("matrix-of-product", "matrix of a product is not the product of matrices", {"A": rot_json(A), "B": rot_json(B)})
    if not np.array_equal(C.improper, np.logical_xor(*np.broadcast_arrays(A.improper, B.improper))):
        fail("parity:mul", "properness of a product is not the xor", {"A": rot_json(A), "B": rot_json(B)})
    if not close(C.norm if hasattr(C, "norm") else 1, np.ones(bs), 1e-9):
        fail("unit", "product of unit quaternions is not unit", {"A": rot_json(A), "B": rot_json(B)})
    I = A * ~A
    if not (close(np.abs(I.data[..., 0]), np.ones(sa)) and not I.improper.any()):
        fail("inverse", "R * ~R is not the identity", {"A": rot_json(A)})
    if not np.array_equal((~A).improper, A.improper) or not np.array_equal((-A).improper, ~A.improper):
        fail("parity:inv-neg", "inverse/negation parity wrong", {"A": rot_json(A)})
    if not close((-A * V).data, -(A * V).data):
        fail("neg-action", "(-R)*v != -(R*v)", {"A": rot_json(A)})
    # lengths and mutual angles
    U = mk_vec(sb)
    d0 = np.broadcast_to(np.sum(V.data * U.data, -1), bs)
    d1 = np.sum((A * V).data * (A * U).data, -1)
    if not close(d0, d1, 1e-7):
        fail("isometry", "rotation changes inner products", {"A": rot_json(A)})
    if miller and not (isinstance(W, Miller) and W.phase is V.phase and W.coordinate_format == V.coordinate_format):
        fail("mul:miller-meta", "R*Miller loses phase/coordinate format", {"sa": sa, "sb": sb})
set_backend(True)

# -------------------------------------------- class pairs keep type and symmetry
for cls in (Rotation, Orientation, Misorientation, Quaternion):
    a = cls(np.array([rand_unit_quat(R) for _ in range(3)]))
    b = Rotation(np.array([rand_unit_quat(R) for _ in range(3)]))
    c = b * a
    st(f"class/{cls.__name__}")
    if type(c) is not cls:
        fail("class", f"Rotation * {cls.__name__} returns {type(c).__name__}", {})

# ------------------------------------------------------------ align vectors
for k in range(max(N // 10, 10)):
    n = R.choice([2, 3, 5])
    q = rand_unit_quat(R)
    v = Vector3d(np.array([rand_vec(R) for _ in range(n)]))
    if n == 2 and R.random() < 0.3:
        v = Vector3d(np.array([[1, 0, 0], [0, 1, 0]]) * 1.0)
    Rt = Rotation(q)
    w = Rt * v
    for cl in (Quaternion, Rotation, Orientation):
        if cl is Orientation:
            ph = Phase(point_group="m-3m")
            est = cl.from_align_vectors(Miller(xyz=w.data, phase=ph), Miller(xyz=v.data, phase=ph))
        else:
            est = cl.from_align_vectors(w, v)
        got = est * v.unit
        st("align")
        if not close(got.data, w.unit.data, 1e-6):
            fail("align", f"{cl.__name__}.from_align_vectors does not map initial onto other for an exact rotation",
                 {"q": q, "v": v.data.tolist()})

emit({"cases": cases, "fails": fails, "strata": strata})
