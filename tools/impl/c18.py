"""C18 implementation harness: observations for the Coq correspondence (lazy and
eager outputs of every operation with a lazy mode, both backends of q*v) and the
property oracle (lazy == eager for all chunk sizes, backend on == off, float32 /
integer inputs == float64 inputs, whole array == element by element), all on
/repo's working tree."""
import itertools
import math

import numpy as np
from common import emit, payload, rand_unit_quat, rand_vec, rng, set_backend

from orix.quaternion import Misorientation, Orientation, Quaternion, Rotation
from orix.quaternion import symmetry as osym
from orix.quaternion.symmetry import _get_unique_symmetry_elements
from orix.vector import Vector3d

P = payload()
R = rng(P.get("seed", 0))
N = P.get("n", 200)
ONLY = P.get("only")          # replay: list of section names
TOL = 1e-10

cases = []
fails = []
strata = {}


def st(k):
    strata[k] = strata.get(k, 0) + 1


def fail(sig, what, rep):
    fails.append({"sig": sig, "what": what, "replay": rep})


def close(a, b, tol=TOL):
    a, b = np.asarray(a, float), np.asarray(b, float)
    if a.shape != b.shape:
        return False
    if a.size == 0:
        return True
    return bool(np.all(np.abs(a - b) <= tol * np.maximum(1, np.abs(b))))


SHAPES = [(1,), (2,), (3,), (5,), (2, 2), (2, 3), (1, 4), (3, 1), (2, 1, 2), (1, 1)]
SMALL = [(1,), (2,), (3,), (2, 2), (1, 3), (2, 1)]
KS = [1, 2, 3, 4, 7, 20]


def size(s):
    return int(np.prod(s)) if len(s) else 1


def pick_k(sa, sb):
    """chunk sizes from 1 to beyond the operand size"""
    m = max(list(sa) + list(sb) + [1])
    return R.choice([1, 1, 2, 3, m, m + 1, m + 5, 20])


def quat_data(shape, kind):
    n = size(shape)
    out = []
    for _ in range(n):
        q = rand_unit_quat(R)
        if kind == "nonunit":
            s = R.choice([0.25, 0.5, 2.0, 3.0, R.uniform(0.2, 4)])
            q = [x * s for x in q]
        out.append(q)
    return np.array(out).reshape(shape + (4,))


def vec_data(shape):
    n = size(shape)
    return np.array([rand_vec(R, R.choice([0.1, 1, 7])) for _ in range(n)]).reshape(shape + (3,))


def mk_rot(shape, cls=Rotation, flags="mixed", sym=None):
    r = cls(quat_data(shape, "unit"))
    if flags == "mixed":
        r.improper = np.array([R.random() < 0.5 for _ in range(size(shape))]).reshape(shape)
    elif flags == "all":
        r.improper = np.ones(shape, dtype=bool)
    elif flags == "one":
        f = np.zeros(size(shape), dtype=bool)
        if f.size:
            f[R.randrange(f.size)] = True
        r.improper = f.reshape(shape)
    if sym is not None:
        r.symmetry = sym
    return r


def rot_json(r):
    return {"shape": list(r.shape), "q": r.data.reshape(-1, 4).tolist(),
            "imp": r.improper.reshape(-1).astype(int).tolist()}


def flat(a, k):
    return np.asarray(a, float).reshape(-1, k).tolist()


def want(name):
    return ONLY is None or name in ONLY


def lazy_kw(k):
    return {"lazy": True, "chunk_size": k, "progressbar": False}


# ================================================================ element level
if want("elem"):
    for t in range(max(N // 2, 20)):
        kind = R.choice(["unit", "nonunit", "nonunit"])
        p = quat_data((1,), kind)[0].tolist()
        q = quat_data((1,), R.choice(["unit", "nonunit"]))[0].tolist()
        v = rand_vec(R, R.choice([0.01, 1, 30]))
        set_backend(True)
        lqq = Quaternion(p).outer(Quaternion(q), **lazy_kw(1)).data.reshape(-1).tolist()
        lqv = Quaternion(p).outer(Vector3d(v), **lazy_kw(1)).data.reshape(-1).tolist()
        m_npq = (Quaternion(p) * Vector3d(v)).data.reshape(-1).tolist()
        set_backend(False)
        m_bi = (Quaternion(p) * Vector3d(v)).data.reshape(-1).tolist()
        e_bi = Quaternion(p).outer(Vector3d(v)).data.reshape(-1).tolist()
        set_backend(True)
        e_npq = Quaternion(p).outer(Vector3d(v)).data.reshape(-1).tolist()
        cases.append({"k": "elem", "p": p, "q": q, "v": v, "lqq": lqq, "lqv": lqv, "m_npq": m_npq,
                      "m_bi": m_bi, "e_bi": e_bi, "e_npq": e_npq, "kind": kind})
        st(f"elem/{kind}")
        if not close(m_npq, m_bi):
            fail(f"backend:Quaternion*Vector3d:{kind}", "q*v differs between numpy-quaternion and the built-in kernel",
                 {"p": p, "v": v})
        if not close(e_npq, e_bi):
            fail(f"backend:Quaternion.outer(Vector3d):{kind}", "eager outer(q, v) differs between the backends",
                 {"p": p, "v": v})
        if not close(lqv, e_npq, 1e-9):
            fail(f"Quaternion.outer(Vector3d):lazy!=eager:{kind}",
                 f"Quaternion.outer(Vector3d, lazy=True) differs from lazy=False for a {kind} quaternion "
                 f"(|q|^2 = {sum(x * x for x in p):.4g}): lazy {lqv} eager {e_npq}", {"q": p, "v": v})


# =================================================== outer products, lazy vs eager
def oracle_lazy(sig, what, eager, lazy, rep):
    if np.asarray(eager).shape != np.asarray(lazy).shape:
        fail(sig + ":shape", f"{what}: lazy shape {np.asarray(lazy).shape} != eager shape {np.asarray(eager).shape}", rep)
    elif not close(lazy, eager, 1e-9):
        fail(sig, f"{what}: lazy values differ from eager values", rep)


if want("outer"):
    for t in range(max(N // 4, 16)):
        sa, sb = R.choice(SHAPES), R.choice(SHAPES)
        k = pick_k(sa, sb)
        backend = t % 3 != 0
        set_backend(backend)
        # --- bare quaternions (non-unit allowed)
        kind = R.choice(["unit", "nonunit"])
        A, B = Quaternion(quat_data(sa, kind)), Quaternion(quat_data(sb, R.choice(["unit", "nonunit"])))
        V = Vector3d(vec_data(sb))
        eq, lq = A.outer(B), A.outer(B, **lazy_kw(k))
        ev, lv = A.outer(V), A.outer(V, **lazy_kw(k))
        cases.append({"k": "qq", "ck": k, "sA": list(sa), "sB": list(sb), "A": flat(A.data, 4), "B": flat(B.data, 4),
                      "sE": list(eq.shape), "E": flat(eq.data, 4), "sL": list(lq.shape), "L": flat(lq.data, 4)})
        cases.append({"k": "qv", "ck": k, "sA": list(sa), "sB": list(sb), "A": flat(A.data, 4), "V": flat(V.data, 3),
                      "sE": list(ev.shape), "E": flat(ev.data, 3), "sL": list(lv.shape), "L": flat(lv.data, 3)})
        st(f"qq/ndim={len(sa)}x{len(sb)}/k={'1' if k == 1 else 'mid' if k <= max(sa + sb) else 'beyond'}")
        st(f"qv/{kind}")
        rep = {"sa": sa, "sb": sb, "k": k, "A": A.data.tolist(), "backend": backend}
        oracle_lazy("Quaternion.outer(Quaternion):lazy!=eager", f"Quaternion.outer {sa}x{sb} chunk {k}",
                    eq.data, lq.data, dict(rep, B=B.data.tolist()))
        oracle_lazy(f"Quaternion.outer(Vector3d):lazy!=eager:{kind}",
                    f"Quaternion.outer(Vector3d) {sa}x{sb} chunk {k}, {kind} quaternions", ev.data, lv.data,
                    dict(rep, V=V.data.tolist()))
        # --- rotations with improper flags
        RA, RB = mk_rot(sa), mk_rot(sb)
        er, lr = RA.outer(RB), RA.outer(RB, **lazy_kw(k))
        ew, lw = RA.outer(V), RA.outer(V, **lazy_kw(k))
        cases.append({"k": "rr", "ck": k, "A": rot_json(RA), "B": rot_json(RB), "E": rot_json(er), "L": rot_json(lr)})
        cases.append({"k": "rv", "ck": k, "A": rot_json(RA), "sB": list(sb), "V": flat(V.data, 3),
                      "sE": list(ew.shape), "E": flat(ew.data, 3), "sL": list(lw.shape), "L": flat(lw.data, 3)})
        st("rr"); st("rv")
        rep = {"A": rot_json(RA), "B": rot_json(RB), "k": k, "backend": backend}
        oracle_lazy("Rotation.outer(Rotation):lazy!=eager", f"Rotation.outer {sa}x{sb} chunk {k}", er.data, lr.data, rep)
        if er.shape == lr.shape and not np.array_equal(er.improper, lr.improper):
            fail("Rotation.outer(Rotation):lazy!=eager:improper", "improper flags differ between lazy and eager", rep)
        oracle_lazy("Rotation.outer(Vector3d):lazy!=eager", f"Rotation.outer(Vector3d) {sa}x{sb} chunk {k}", ew.data,
                    lw.data, dict(rep, V=V.data.tolist()))
        # --- vectors
        U = Vector3d(vec_data(sa))
        ed, ld = U.dot_outer(V), U.dot_outer(V, **lazy_kw(k))
        cases.append({"k": "vv", "ck": k, "sA": list(sa), "sB": list(sb), "U": flat(U.data, 3), "V": flat(V.data, 3),
                      "sE": list(ed.shape), "E": ed.reshape(-1).tolist(), "sL": list(ld.shape), "L": ld.reshape(-1).tolist()})
        st("vv")
        oracle_lazy("Vector3d.dot_outer:lazy!=eager", f"Vector3d.dot_outer {sa}x{sb} chunk {k}", ed, ld,
                    {"U": U.data.tolist(), "V": V.data.tolist(), "k": k})
        # layout against the pairwise reference (self.shape ++ other.shape)
        for nm, arr, ref in (("Quaternion.outer(Quaternion)", lq, lambda i, j: (A[i] * B[j]).data),
                             ("Rotation.outer(Vector3d)", lw, lambda i, j: (RA[i] * V[j]).data)):
            ok = arr.shape == sa + sb
            if ok:
                for i in np.ndindex(*sa):
                    for j in np.ndindex(*sb):
                        if not close(arr.data[i + j], ref(i, j).reshape(-1), 1e-9):
                            ok = False
            if not ok:
                fail(f"{nm}:lazy:layout", f"lazy {nm} is not the pairwise product indexed self.shape+other.shape "
                     f"for {sa}x{sb} chunk {k}", rep)
    # --- Miller operands: the lazy result must be the same KIND of object as the eager one (class, phase,
    # coordinate format), otherwise its hkl / uvw coordinates differ (or cannot be read at all)
    from orix.crystal_map import Phase as _Phase
    from orix.vector import Miller as _Miller
    from diffpy.structure import Lattice as _Lattice, Structure as _Structure
    _phases = [_Phase(point_group="m-3m"),
               _Phase(point_group="6/mmm", structure=_Structure(lattice=_Lattice(3.2, 3.2, 5.1, 90, 90, 120))),
               _Phase(point_group="2/m", structure=_Structure(lattice=_Lattice(4.0, 5.0, 6.5, 90, 104, 90)))]
    for t in range(max(N // 30, 6)):
        sa, sb = R.choice(SHAPES), R.choice(SHAPES)
        k = pick_k(sa, sb)
        ph = _phases[t % 3]
        fmt = ["hkl", "uvw", "hkil", "UVTW", "xyz"][t % 5]
        if fmt in ("hkil", "UVTW") and ph.point_group.name != "6/mmm":
            fmt = "hkl"
        M = _Miller(xyz=np.array(vec_data(sb)), phase=ph)
        M.coordinate_format = fmt
        for cls, A in (("Quaternion", Quaternion(quat_data(sa, "unit"))), ("Rotation", mk_rot(sa))):
            e, l = A.outer(M), A.outer(M, **lazy_kw(k))
            st(f"miller/{cls}/{fmt}")
            rep = {"sa": sa, "sb": sb, "k": k, "A": A.data.tolist(), "xyz": M.data.tolist(), "format": fmt,
                   "point_group": ph.point_group.name}
            oracle_lazy(f"{cls}.outer(Miller):lazy!=eager", f"{cls}.outer(Miller) {sa}x{sb} chunk {k}", e.data, l.data, rep)
            same_kind = (type(e) is type(l) and getattr(l, "coordinate_format", None) == e.coordinate_format
                         and getattr(l, "phase", None) is not None
                         and l.phase.point_group.name == e.phase.point_group.name
                         and np.allclose(l.phase.structure.lattice.abcABG(), e.phase.structure.lattice.abcABG()))
            if same_kind:
                same_kind = np.allclose(l.coordinates, e.coordinates, atol=1e-9)
            if not same_kind:
                fail(f"{cls}.outer(Miller):lazy!=eager:kind",
                     f"{cls}.outer(Miller, lazy=True) is not the same kind of object as with lazy=False: "
                     f"{type(l).__name__} format {getattr(l, 'coordinate_format', None)!r} phase "
                     f"{getattr(getattr(l, 'phase', None), 'point_group', None)!r} instead of {type(e).__name__} "
                     f"format {e.coordinate_format!r} phase {e.phase.point_group.name}", rep)
    set_backend(True)

# ================================================ orientations: dot_outer / angles
GROUPS = ["C1", "Ci", "C2", "Cs", "D2", "C2v", "C2h", "C3", "D3", "C4", "S4", "C3v", "C6"]


def qmul_np(p, q):
    a, b, c, d = p
    e, f, g, h = q
    return np.array([a * e - b * f - c * g - d * h, b * e + a * f - d * g + c * h,
                     c * e + d * f + a * g - b * h, d * e - c * f + b * g + a * h])


def ref_dots(X, Y, S, mode):
    """brute force, numpy only: D[i ++ j] = max_s term(y_j x_i^-1, s); the pair is improper when exactly
    one of x_i, y_j is (angle_with_outer works on self.unit, which keeps the flags of self).
    mode "eager":   Rotation.dot_outer semantics -- 0 where exactly one of (pair, s) is improper, clip at 1;
                    since the repair of _dot_outer_dask this is what both modes compute;
    mode "noflags": what _dot_outer_dask computed before the repair -- proper symmetry elements only,
                    orientation flags unused (kept to give a regression its old signature)"""
    xs, ys = X.data.reshape(-1, 4), Y.data.reshape(-1, 4)
    fx, fy = X.improper.reshape(-1), Y.improper.reshape(-1)
    sd, sf = S.data.reshape(-1, 4), S.improper.reshape(-1)
    out = np.zeros((len(xs), len(ys)))
    for i, x in enumerate(xs):
        xi = x * np.array([1, -1, -1, -1])
        for j, y in enumerate(ys):
            m = qmul_np(y, xi)
            fm = bool(fy[j]) != bool(fx[i])
            best = 0.0
            for s, f in zip(sd, sf):
                d = abs(float(np.dot(m, s)))
                if mode == "eager":
                    d = 0.0 if fm != bool(f) else min(1.0, d)
                elif bool(f):
                    continue
                best = max(best, d)
            out[i, j] = best
    return out.reshape(X.shape + Y.shape)


def to_angle(d):
    return np.nan_to_num(np.arccos(np.clip(2 * d ** 2 - 1, -1, 1)))


def swap_groups(arr, n_first):
    """array indexed a ++ b (a has n_first axes) -> indexed b ++ a"""
    nd = arr.ndim
    return arr.transpose(tuple(range(n_first, nd)) + tuple(range(n_first)))


if want("ori"):
    for t in range(max(N // 5, 14)):
        ss, so = R.choice(SMALL), R.choice(SMALL)
        if t % 3 == 0:
            so = R.choice([s for s in SMALL if len(s) == len(ss)])
        g1 = R.choice(GROUPS)
        g2 = g1 if R.random() < 0.7 else R.choice(GROUPS)
        if t % 4 == 1:
            # pairs whose product sets differ with the order of the factors (cubic with trigonal / hexagonal):
            # only there does the ORDER of the two symmetries in the element set matter
            g1, g2 = R.choice([("D3", "T"), ("T", "D3"), ("D6", "O"), ("O", "D6"), ("C3", "O"), ("T", "C6")])
        G1, G2 = getattr(osym, g1), getattr(osym, g2)
        flags = R.choice(["none", "none", "mixed"])
        fX = fY = flags
        if t % 5 == 2:
            # the improper flags of the two operands are independent: one operand all proper, the other with one / some /
            # only improper orientations -- with a group that has improper operations, since only those relate a proper to
            # an improper orientation (a shortcut decided on the flags of ONE operand shows here and nowhere else)
            fX, fY = [("none", "one"), ("one", "none"), ("none", "all"), ("all", "none"), ("none", "mixed"), ("mixed", "none")][(t // 5) % 6]
            g1 = g2 = R.choice(["Ci", "C2h", "Cs", "C2v", "S4", "C3v", "D2h", "Oh", "D6h"])
            G1, G2 = getattr(osym, g1), getattr(osym, g2)
            flags = f"{fX}/{fY}"
        X = mk_rot(ss, Orientation, fX, G1)
        Y = mk_rot(so, Orientation, fY, G2)
        S = _get_unique_symmetry_elements(G2, G1)      # (other.symmetry, self.symmetry), as the three methods do
        k = pick_k(ss, so)
        sj = {"shape": [S.size], "q": S.data.reshape(-1, 4).tolist(), "imp": S.improper.reshape(-1).astype(int).tolist()}
        de = X.dot_outer(Y)
        dl = X._dot_outer_dask(Y, chunk_size=k).compute()
        ae = X.angle_with_outer(Y)
        al = X.angle_with_outer(Y, **lazy_kw(k))
        cases.append({"k": "odot", "ck": k, "X": rot_json(X), "Y": rot_json(Y), "S": sj,
                      "sE": list(de.shape), "E": de.reshape(-1).tolist(), "sL": list(dl.shape), "L": dl.reshape(-1).tolist(),
                      "sAE": list(ae.shape), "AE": np.cos(ae).reshape(-1).tolist(),
                      "sAL": list(al.shape), "AL": np.cos(al).reshape(-1).tolist(), "g": [g1, g2], "flags": flags})
        samend = len(ss) == len(so)
        st(f"odot/ndim={'eq' if samend else 'ne'}/flags={flags}/sym={'improper' if S.improper.any() else 'proper'}")
        # ---- oracle: lazy angle_with_outer vs eager
        rep = {"X": rot_json(X), "Y": rot_json(Y), "groups": [g1, g2], "k": k}
        if not (ae.shape == al.shape and close(al, ae, 1e-6)):
            # classify against numpy references (indexed self.shape + other.shape)
            R1 = to_angle(ref_dots(X, Y, S, "eager"))
            R0 = to_angle(ref_dots(X, Y, S, "noflags"))
            if al.shape == R0.shape and close(al, R0, 1e-6) and not close(R0, R1, 1e-6) and (
                    X.improper.any() or Y.improper.any()):
                fail("Orientation.angle_with_outer:lazy:improper-orientation-ignored",
                     f"angle_with_outer(lazy=True) ignores the improper flags of the orientations: "
                     f"self {ss} other {so} groups {g1},{g2}, chunk {k}", rep)
            elif al.shape != ae.shape or (len(ss + so) > 1 and al.shape == swap_groups(R0, len(ss)).shape and (
                    close(al, swap_groups(R0, len(ss)), 1e-6) or close(al, swap_groups(R1, len(ss)), 1e-6))):
                fail("Orientation.angle_with_outer:lazy:axes-order",
                     f"angle_with_outer(lazy=True) is not indexed self.shape+other.shape like lazy=False: self {ss} "
                     f"other {so} -> lazy shape {al.shape}, eager shape {ae.shape}", rep)
            else:
                fail("Orientation.angle_with_outer:lazy:values",
                     f"angle_with_outer(lazy=True) matches neither the eager result nor the reference of the lazy "
                     f"formula: self {ss} other {so} groups {g1},{g2} flags {flags}", rep)
        # ---- get_distance_matrix lazy vs eager (self with self)
        ge = X.get_distance_matrix()
        gl = X.get_distance_matrix(**lazy_kw(k))
        st("odm")
        if not (ge.shape == gl.shape and close(gl, ge, 1e-6)):
            R1 = to_angle(ref_dots(X, X, G1, "eager"))
            R0 = to_angle(ref_dots(X, X, G1, "noflags"))
            if close(gl, R0, 1e-6) and not close(R0, R1, 1e-6) and X.improper.any():
                fail("Orientation.get_distance_matrix:lazy:improper-orientation-ignored",
                     f"get_distance_matrix(lazy=True) ignores the improper flags of the orientations: group {g1}, "
                     f"shape {ss}", rep)
            else:
                fail("Orientation.get_distance_matrix:lazy:values",
                     f"get_distance_matrix(lazy=True) differs from lazy=False: group {g1}, shape {ss}, flags {flags}", rep)
        # chunk independence of the lazy result itself
        k2 = R.choice([x for x in KS if x != k])
        al2 = X.angle_with_outer(Y, **lazy_kw(k2))
        if not (al.shape == al2.shape and close(al, al2, 1e-7)):
            fail("Orientation.angle_with_outer:lazy:chunk-dependence",
                 f"angle_with_outer(lazy=True) differs between chunk sizes {k} and {k2}", rep)

# ================================================ misorientation distance matrix
if want("mis"):
    MG = ["C1", "C2", "Ci", "Cs", "D2", "C3"]
    for t in range(max(N // 14, 6)):
        s = R.choice([(1,), (2,), (3,), (2, 2), (1, 2)])
        g1 = R.choice(MG)
        g2 = g1 if R.random() < 0.6 else R.choice(MG)
        G1, G2 = getattr(osym, g1), getattr(osym, g2)
        M = mk_rot(s, Misorientation, R.choice(["none", "mixed"]))
        M.symmetry = (G1, G2)
        S = _get_unique_symmetry_elements(G1, G2)
        k = R.choice([1, 2, 3, S.size, S.size + 1, 20])
        D = M.get_distance_matrix(chunk_size=k, progressbar=False)
        sj = {"shape": [S.size], "q": S.data.reshape(-1, 4).tolist(), "imp": S.improper.reshape(-1).astype(int).tolist()}
        cases.append({"k": "mis", "ck": k, "X": rot_json(M), "S": sj, "sD": list(D.shape),
                      "D": np.cos(D).reshape(-1).tolist()})
        st(f"mis/ndim={len(s)}/k={'1' if k == 1 else 'mid' if k < S.size else 'beyond'}")
        for k2 in (1, 2, 5, 20):
            D2 = M.get_distance_matrix(chunk_size=k2, progressbar=False)
            if not (D.shape == D2.shape and close(D, D2, 1e-7)):
                fail("Misorientation.get_distance_matrix:chunk-dependence",
                     f"get_distance_matrix differs between chunk sizes {k} and {k2}: shape {s} groups {g1},{g2}",
                     {"M": rot_json(M), "groups": [g1, g2], "k": [k, k2]})
                break


# ===================================== backend / dtype / whole-vs-element oracle
def arr(x):
    """canonical ndarray of a result"""
    if isinstance(x, (Rotation,)):
        return np.concatenate([x.data, x.improper[..., None].astype(float)], -1)
    if hasattr(x, "data") and not isinstance(x, np.ndarray):
        return np.asarray(x.data, float)
    return np.asarray(x, float)


def build(cls, data, sym=None):
    o = cls(data)
    if sym is not None and hasattr(o, "symmetry"):
        o.symmetry = sym
    return o


# name -> (arity kind, function).  kinds: "q" unary on quaternion-like, "qq" pair (broadcast, same shape),
# "qv" quaternion-like with vector, "qqo"/"qvo" outer, "v", "vv", "vvo"
OPS = {
    "conj": ("q", lambda a: a.conj), "inv": ("q", lambda a: ~a), "unit": ("q", lambda a: a.unit),
    "norm": ("q", lambda a: a.norm), "angle": ("q", lambda a: a.angle), "axis": ("q", lambda a: a.axis),
    "to_euler": ("q", lambda a: a.to_euler()), "to_matrix": ("q", lambda a: a.to_matrix()),
    "to_axes_angles": ("q", lambda a: a.to_axes_angles()), "to_rodrigues": ("q", lambda a: a.to_rodrigues()),
    "to_homochoric": ("q", lambda a: a.to_homochoric()),
    "mul": ("qq", lambda a, b: a * b), "dot": ("qq", lambda a, b: a.dot(b)),
    "mulv": ("qv", lambda a, v: a * v),
    "outer": ("qqo", lambda a, b: a.outer(b)), "dot_outer": ("qqo", lambda a, b: a.dot_outer(b)),
    "outer_lazy": ("qqo", lambda a, b: a.outer(b, lazy=True, chunk_size=2, progressbar=False)),
    "outerv": ("qvo", lambda a, v: a.outer(v)),
    "outerv_lazy": ("qvo", lambda a, v: a.outer(v, lazy=True, chunk_size=2, progressbar=False)),
}
ROPS = {
    "angle_with": ("qq", lambda a, b: a.angle_with(b)),
    "angle_with_outer": ("qqo", lambda a, b: a.angle_with_outer(b)),
}
VOPS = {
    "v.dot": ("vv", lambda u, v: u.dot(v)), "v.cross": ("vv", lambda u, v: u.cross(v)),
    "v.angle_with": ("vv", lambda u, v: u.angle_with(v)), "v.unit": ("v", lambda u: u.unit),
    "v.norm": ("v", lambda u: u.norm), "v.dot_outer": ("vvo", lambda u, v: u.dot_outer(v)),
    "v.dot_outer_lazy": ("vvo", lambda u, v: u.dot_outer(v, lazy=True, chunk_size=2, progressbar=False)),
    "v.azimuth": ("v", lambda u: u.azimuth), "v.polar": ("v", lambda u: u.polar),
}
FROM = {
    "from_euler": (3, lambda c, d: c.from_euler(d)),
    "from_axes_angles": (4, lambda c, d: c.from_axes_angles(d[..., :3], d[..., 3])),
    "from_rodrigues": (3, lambda c, d: c.from_rodrigues(d)),
    "from_homochoric": (3, lambda c, d: c.from_homochoric(d)),
    "from_matrix": (9, lambda c, d: c.from_matrix(d.reshape(d.shape[:-1] + (3, 3)))),
}


def ops_for(cls):
    d = dict(OPS)
    if cls is not Quaternion:
        d.update(ROPS)
    return d


def run_op(kind, f, a, b, v):
    if kind == "q":
        return f(a)
    if kind in ("qq", "qqo"):
        return f(a, b)
    return f(a, v)


def grid_data(shape, dim, kind):
    """values exactly representable in float32 (and as small integers for kind == 'int')"""
    n = size(shape)
    if kind == "int":
        out = []
        while len(out) < n:
            r = [R.randint(-3, 3) for _ in range(dim)]
            if any(r):
                out.append(r)
        return np.array(out, dtype=np.int64).reshape(shape + (dim,))
    if dim == 4:
        d = quat_data(shape, R.choice(["unit", "nonunit"]))
    else:
        d = np.array([[R.gauss(0, 1) for _ in range(dim)] for _ in range(n)]).reshape(shape + (dim,))
    return d.astype(np.float32)


if want("strategy"):
    for t in range(max(N // 14, 7)):
        cls = R.choice([Quaternion, Quaternion, Rotation, Orientation])
        sym = getattr(osym, R.choice(["C1", "D2", "C3", "C2h"])) if cls is Orientation else None
        sa = R.choice(SMALL)
        sb = R.choice(SMALL)
        dkind = R.choice(["float32", "float32", "int"])
        dA, dB, dB2 = grid_data(sa, 4, dkind), grid_data(sb, 4, dkind), grid_data(sa, 4, dkind)
        dV, dV2 = grid_data(sb, 3, dkind), grid_data(sa, 3, dkind)
        res = {}
        # relative perturbations of a few float32 ulps, to measure how ill-conditioned an operation is at
        # these inputs (a float32 arithmetic path may legitimately deviate by a multiple of that)
        pert = {id(d): np.array([R.uniform(-1, 1) for _ in range(d.size)]).reshape(d.shape) * 2.0 ** -22
                for d in (dA, dB, dB2, dV, dV2)}

        def run_all(backend, conv, key):
            set_backend(backend)
            a, b, b2 = build(cls, conv(dA), sym), build(cls, conv(dB), sym), build(cls, conv(dB2), sym)
            v, v2 = Vector3d(conv(dV)), Vector3d(conv(dV2))
            for name, (kind, f) in ops_for(cls).items():
                bb = b if kind.endswith("o") else b2
                vv = v if kind.endswith("o") else v2
                try:
                    res[(name, backend, key)] = arr(run_op(kind, f, a, bb, vv))
                except Exception as e:  # noqa
                    res[(name, backend, key)] = f"raises {type(e).__name__}"
            if cls is Quaternion and backend:
                u2 = Vector3d(conv(dV2))
                w2 = Vector3d(conv(dV2)[..., ::-1].copy())
                for name, (kind, f) in VOPS.items():
                    other = v if kind.endswith("o") else w2
                    try:
                        res[(name, backend, key)] = arr(f(u2) if kind == "v" else f(u2, other))
                    except Exception as e:  # noqa
                        res[(name, backend, key)] = f"raises {type(e).__name__}"

        for backend in (True, False):
            run_all(backend, lambda d: d.astype(np.float64), True)
            run_all(backend, lambda d: d, False)
            if dkind == "float32":
                run_all(backend, lambda d: d.astype(np.float64) * (1 + pert[id(d)]), "pert")
        set_backend(True)
        st(f"strategy/{cls.__name__}/{dkind}")
        names = sorted({k[0] for k in res})
        for name in names:
            ref = res.get((name, True, True))
            cname = "Vector3d" if name in VOPS else cls.__name__
            oname = name[2:] if name in VOPS else name
            rep = {"cls": cname, "op": name, "dtype": dkind, "sa": sa, "sb": sb, "A": dA.tolist(),
                   "B": dB.tolist(), "B2": dB2.tolist(), "V": dV.tolist(), "V2": dV2.tolist()}

            def canon(x):
                return np.concatenate([np.cos(x), np.sin(x)], -1) if name == "to_euler" else x

            def dev(x, y, sens=None):
                """None if equal, else a short class of the deviation"""
                if isinstance(x, str) or isinstance(y, str):
                    return None if (isinstance(x, str) and isinstance(y, str) and x == y) else "raises"
                x, y = canon(x), canon(y)
                if close(x, y, 1e-9):
                    return None
                if x.shape != y.shape:
                    return "mismatch"
                tol = 2e-5
                if sens is not None and not isinstance(sens, str) and canon(sens).shape == y.shape:
                    s = float(np.max(np.abs(canon(sens) - y) / np.maximum(1, np.abs(y))))
                    tol = max(tol, 64 * s)
                return "f32-rounding" if close(x, y, tol) else "mismatch"
            # backend switch, on float64 inputs
            if (name, False, True) in res:
                dv = dev(res[(name, False, True)], ref)
                if dv:
                    fail(f"backend:{cname}.{oname}:{dv}", f"{cname}.{oname} differs between "
                         f"numpy-quaternion and the built-in kernels on float64 inputs ({dv})", rep)
            # dtype, per backend
            for backend in (True, False):
                if (name, backend, False) in res and (name, backend, True) in res:
                    dv = dev(res[(name, backend, False)], res[(name, backend, True)], res.get((name, backend, "pert")))
                    if dv:
                        what = {"raises": "raises (or stops raising)", "f32-rounding": "differs at float32 rounding level from",
                                "mismatch": "differs grossly from"}[dv]
                        r2 = res[(name, backend, False)]
                        fail(f"dtype:{cname}.{oname}:{dkind}:{'npq' if backend else 'builtin'}:{dv}",
                             f"{cname}.{oname} on {dkind} input {what} the same values given as float64 "
                             f"(backend {'numpy-quaternion' if backend else 'built-in'})"
                             + (f": {r2}" if isinstance(r2, str) else ""), rep)

    # ---- constructors from other representations: dtype and whole-vs-element
    for t in range(max(N // 25, 4)):
        shape = R.choice(SMALL)
        for name, (dim, f) in FROM.items():
            n = size(shape)
            if name == "from_matrix":
                d = np.array([Quaternion(rand_unit_quat(R)).to_matrix().reshape(9) for _ in range(n)])
            elif name == "from_homochoric":
                d = np.array([[R.uniform(-0.7, 0.7) for _ in range(3)] for _ in range(n)])
            elif name == "from_axes_angles":
                d = np.array([rand_vec(R) + [R.uniform(0, 3)] for _ in range(n)])
            else:
                d = np.array([[R.uniform(0, 3) for _ in range(dim)] for _ in range(n)])
            d32 = d.reshape(shape + (dim,)).astype(np.float32)
            d64 = d32.astype(np.float64)
            st(f"from/{name}")
            for cls in (Quaternion, Rotation):
                try:
                    w64, w32 = f(cls, d64), f(cls, d32)
                except Exception as e:  # noqa
                    fail(f"dtype:{cls.__name__}.{name}:raises", f"{name} raises {type(e).__name__}: {e}", {"d": d32.tolist()})
                    continue
                if not close(w32.data, w64.data, 1e-9):
                    dv = "f32-rounding" if close(w32.data, w64.data, 2e-5) or close(-w32.data, w64.data, 2e-5) else "mismatch"
                    fail(f"dtype:{cls.__name__}.{name}:float32:{dv}", f"{cls.__name__}.{name} on float32 input differs "
                         f"from the same values given as float64 ({dv})", {"d": d32.tolist()})
                ok = w64.shape == shape
                if ok:
                    for i in np.ndindex(*shape):
                        one = f(cls, d64[i][None, :] if name != "from_axes_angles" else d64[i][None, :])
                        if not close(one.data.reshape(-1), w64.data[i].reshape(-1), 1e-12):
                            ok = False
                if not ok:
                    fail(f"elementwise:{cls.__name__}.{name}", f"{cls.__name__}.{name} of an array differs from "
                         f"element-by-element evaluation (shape {shape})", {"d": d64.tolist()})

    # ---- whole n-d object vs element by element
    for t in range(max(N // 14, 7)):
        cls = R.choice([Quaternion, Rotation, Orientation])
        sym = getattr(osym, R.choice(["C1", "D2", "C3"])) if cls is Orientation else None
        sa, sb = R.choice(SHAPES[:9]), R.choice(SMALL)
        backend = R.random() < 0.6
        set_backend(backend)
        kind = "nonunit" if cls is Quaternion and R.random() < 0.5 else "unit"
        a, b2, b = build(cls, quat_data(sa, kind), sym), build(cls, quat_data(sa, kind), sym), build(cls, quat_data(sb, kind), sym)
        if cls is not Quaternion:
            a.improper = np.array([R.random() < 0.4 for _ in range(size(sa))]).reshape(sa)
        v2, v = Vector3d(vec_data(sa)), Vector3d(vec_data(sb))
        st(f"elementwise/{cls.__name__}/ndim={len(sa)}")
        for name, (okind, f) in ops_for(cls).items():
            try:
                whole = arr(run_op(okind, f, a, b if okind.endswith("o") else b2, v if okind.endswith("o") else v2))
            except Exception as e:  # noqa
                fail(f"elementwise:{cls.__name__}.{name}:raises", f"{name} raises {type(e).__name__} on shape {sa}", {})
                continue
            ok = True
            nav = whole.shape[:len(sa) + (len(sb) if okind.endswith("o") else 0)]
            if nav != sa + (sb if okind.endswith("o") else ()):
                ok = False
            else:
                for i in np.ndindex(*sa):
                    ai = a[i]
                    if okind.endswith("o"):
                        for j in np.ndindex(*sb):
                            one = arr(run_op(okind, f, ai, b[j], v[j]))
                            if not close(one.reshape(-1), whole[i + j].reshape(-1), 1e-10):
                                ok = False
                    else:
                        one = arr(run_op(okind, f, ai, b2[i], v2[i]))
                        if not close(one.reshape(-1), whole[i].reshape(-1), 1e-10):
                            ok = False
            if not ok:
                fail(f"elementwise:{cls.__name__}.{name}", f"{cls.__name__}.{name} on an array of shape {sa} differs "
                     f"from element-by-element evaluation (backend {backend})",
                     {"cls": cls.__name__, "op": name, "sa": sa, "sb": sb, "A": rot_json(a) if cls is not Quaternion
                      else a.data.tolist(), "backend": backend})
    set_backend(True)

emit({"cases": cases, "fails": fails, "strata": strata})
