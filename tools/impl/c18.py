"""C18 implementation harness: observations for the Coq correspondence (lazy and
eager outputs of every operation with a lazy mode, both backends of q*v) and the
property oracle (lazy == eager for all chunk sizes, backend on == off, float32 /
integer inputs == float64 inputs, whole array == element by element), all on
/repo's working tree."""
import itertools
import math

import numpy as np
from common import emit, payload, rand_unit_quat, rand_vec, rng, set_backend

from orix.quaternion import Misorientation, Orientation, Quaternion, Rotation
from orix.quaternion import symmetry as osym
from orix.quaternion.symmetry import _get_unique_symmetry_elements
from orix.vector import Vector3d

P = payload()
R = rng(P.get("seed", 0))
N = P.get("n", 200)
ONLY = P.get("only")          # replay: list of section names
TOL = 1e-10

cases = []
fails = []
strata = {}


def st(k):
    strata[k] = strata.get(k, 0) + 1


def fail(sig, what, rep):
    fails.append({"sig": sig, "what": what, "replay": rep})


def close(a, b, tol=TOL):
    a, b = np.asarray(a, float), np.asarray(b, float)
    if a.shape != b.shape:
        return False
    if a.size == 0:
        return True
    return bool(np.all(np.abs(a - b) <= tol * np.maximum(1, np.abs(b))))


SHAPES = [(1,), (2,), (3,), (5,), (2, 2), (2, 3), (1, 4), (3, 1), (2, 1, 2), (1, 1)]
SMALL = [(1,), (2,), (3,), (2, 2), (1, 3), (2, 1)]
KS = [1, 2, 3, 4, 7, 20]


def size(s):
    return int(np.prod(s)) if len(s) else 1


def pick_k(sa, sb):
    """chunk sizes from 1 to beyond the operand size"""
    m = max(list(sa) + list(sb) + [1])
    return R.choice([1, 1, 2, 3, m, m + 1, m + 5, 20])


def quat_data(shape, kind):
    n = size(shape)
    out = []
    for _ in range(n):
        q = rand_unit_quat(R)
        if kind == "nonunit":
            s = R.choice([0.25, 0.5, 2.0, 3.0, R.uniform(0.2, 4)])
            q = [x * s for x in q]
        out.append(q)
    return np.array(out).reshape(shape + (4,))


def vec_data(shape):
    n = size(shape)
    return np.array([rand_vec(R, R.choice([0.1, 1, 7])) for _ in range(n)]).reshape(shape + (3,))


def mk_rot(shape, cls=Rotation, flags="mixed", sym=None):
    r = cls(quat_data(shape, "unit"))
    if flags == "mixed":
        r.improper = np.array([R.random() < 0.5 for _ in range(size(shape))]).reshape(shape)
    elif flags == "all":
        r.improper = np.ones(shape, dtype=bool)
    elif flags == "one":
        f = np.zeros(size(shape), dtype=bool)
        if f.size:
            f[R.randrange(f.size)] = True
        r.improper = f.reshape(shape)
    if sym is not None:
        r.symmetry = sym
    return r


def rot_json(r):
    return {"shape": list(r.shape), "q": r.data.reshape(-1, 4).tolist(),
            "imp": r.improper.reshape(-1).astype(int).tolist()}


def flat(a, k):
    return np.asarray(a, float).reshape(-1, k).tolist()


def want(name):
    return ONLY is None or name in ONLY


def lazy_kw(k):
    return {"lazy": True, "chunk_size": k, "progressbar": False}


# ================================================================ element level
if want("elem"):
    for t in range(max(N // 2, 20)):
        kind = R.choice(["unit", "nonunit", "nonunit"])
        p = quat_data((1,), kind)[0].tolist()
        q = quat_data((1,), R.choice(["unit", "nonunit"]))[0].tolist()
        v = rand_vec(R, R.choice([0.01, 1, 30]))
        set_backend(True)
        lqq = Quaternion(p).outer(Quaternion(q), **lazy_kw(1)).data.reshape(-1).tolist()
        lqv = Quaternion(p).outer(Vector3d(v), **lazy_kw(1)).data.reshape(-1).tolist()
        m_npq = (Quaternion(p) * Vector3d(v)).data.reshape(-1).tolist()
        set_backend(False)
        m_bi = (Quaternion(p) * Vector3d(v)).data.reshape(-1).tolist()
        e_bi = Quaternion(p).outer(Vector3d(v)).data.reshape(-1).tolist()
        set_backend(True)
        e_npq = Quaternion(p).outer(Vector3d(v)).data.reshape(-1).tolist()
        cases.append({"k": "elem", "p": p, "q": q, "v": v, "lqq": lqq, "lqv": lqv, "m_npq": m_npq,
                      "m_bi": m_bi, "e_bi": e_bi, "e_npq": e_npq, "kind": kind})
        st(f"elem/{kind}")
        if not close(m_npq, m_bi):
            fail(f"backend:Quaternion*Vector3d:{kind}", "q*v differs between numpy-quaternion and the built-in kernel",
                 {"p": p, "v": v})
        if not close(e_npq, e_bi):
            fail(f"backend:Quaternion.outer(Vector3d):{kind}", "eager outer(q, v) differs between the backends",
                 {"p": p, "v": v})
        if not close(lqv, e_npq, 1e-9):
            fail(f"Quaternion.outer(Vector3d):lazy!=eager:{kind}",
                 f"Quaternion.outer(Vector3d, lazy=True) differs from lazy=False for a {kind} quaternion "
                 f"(|q|^2 = {sum(x * x for x in p):.4g}): lazy {lqv} eager {e_npq}", {"q": p, "v": v})


# =================================================== outer products, lazy vs eager
def oracle_lazy(sig, what, eager, lazy, rep):
    if np.asarray(eager).shape != np.asarray(lazy).shape:
        fail(sig + ":shape", f"{what}: lazy shape {np.asarray(lazy).shape} != eager shape {np.asarray(eager).shape}", rep)
    elif not close(lazy, eager, 1e-9):
        fail(sig, f"{what}: lazy values differ from eager values", rep)


if want("outer"):
    for t in range(max(N // 4, 16)):
        sa, sb = R.choice(SHAPES), R.choice(SHAPES)
        k = pick_k(sa, sb)
        backend = t % 3 != 0
        set_backend(backend)
        # --- bare quaternions (non-unit allowed)
        kind = R.choice(["unit", "nonunit"])
        A, B = Quaternion(quat_data(sa, kind)), Quaternion(quat_data(sb, R.choice(["unit", "nonunit"])))
        V = Vector3d(vec_data(sb))
        eq, lq = A.outer(B), A.outer(B, **lazy_kw(k))
        ev, lv = A.outer(V), A.outer(V, **lazy_kw(k))
        cases.append({"k": "qq", "ck": k, "sA": list(sa), "sB": list(sb), "A": flat(A.data, 4), "B": flat(B.data, 4),
                      "sE": list(eq.shape), "E": flat(eq.data, 4), "sL": list(lq.shape), "L": flat(lq.data, 4)})
        cases.append({"k": "qv", "ck": k, "sA": list(sa), "sB": list(sb), "A": flat(A.data, 4), "V": flat(V.data, 3),
                      "sE": list(ev.shape), "E": flat(ev.data, 3), "sL": list(lv.shape), "L": flat(lv.data, 3)})
        st(f"qq/ndim={len(sa)}x{len(sb)}/k={'1' if k == 1 else 'mid' if k <= max(sa + sb) else 'beyond'}")
        st(f"qv/{kind}")
        rep = {"sa": sa, "sb": sb, "k": k, "A": A.data.tolist(), "backend": backend}
        oracle_lazy("Quaternion.outer(Quaternion):lazy!=eager", f"Quaternion.outer {sa}x{sb} chunk {k}",
                    eq.data, lq.data, dict(rep, B=B.data.tolist()))
        oracle_lazy(f"Quaternion.outer(Vector3d):lazy!=eager:{kind}",
                    f"Quaternion.outer(Vector3d) {sa}x{sb} chunk {k}, {kind} quaternions", ev.data, lv.data,
                    dict(rep, V=V.data.tolist()))
        # --- rotations with improper flags
        RA, RB = mk_rot(sa), mk_rot(sb)
        er, lr = RA.outer(RB), RA.outer(RB, **lazy_kw(k))
        ew, lw = RA.outer(V), RA.outer(V, **lazy_kw(k))
        cases.append({"k": "rr", "ck": k, "A": rot_json(RA), "B": rot_json(RB), "E": rot_json(er), "L": rot_json(lr)})
        cases.append({"k": "rv", "ck": k, "A": rot_json(RA), "sB": list(sb), "V": flat(V.data, 3),
                      "sE": list(ew.shape), "E": flat(ew.data, 3), "sL": list(lw.shape), "L": flat(lw.data, 3)})
        st("rr"); st("rv")
        rep = {"A": rot_json(RA), "B": rot_json(RB), "k": k, "backend": backend}
        oracle_lazy("Rotation.outer(Rotation):lazy!=eager", f"Rotation.outer {sa}x{sb} chunk {k}", er.data, lr.data, rep)
        if er.shape == lr.shape and not np.array_equal(er.improper, lr.improper):
            fail("Rotation.outer(Rotation):lazy!=eager:improper", "improper flags differ between lazy and eager", rep)
        oracle_lazy("Rotation.outer(Vector3d):lazy!=eager", f"Rotation.outer(Vector3d) {sa}x{sb} chunk {k}", ew.data,
                    lw.data, dict(rep, V=V.data.tolist()))
        # --- vectors
        U = Vector3d(vec_data(sa))
        ed, ld = U.dot_outer(V), U.dot_outer(V, **lazy_kw(k))
        cases.append({"k": "vv", "ck": k, "sA": list(sa), "sB": list(sb), "U": flat(U.data, 3), "V": flat(V.data, 3),
                      "sE": list(ed.shape), "E": ed.reshape(-1).tolist(), "sL": list(ld.shape), "L": ld.reshape(-1).tolist()})
        st("vv")
        oracle_lazy("Vector3d.dot_outer:lazy!=eager", f"Vector3d.dot_outer {sa}x{sb} chunk {k}", ed, ld,
                    {"U": U.data.tolist(), "V": V.data.tolist(), "k": k})
        # layout against the pairwise reference (self.shape ++ other.shape)
        for nm, arr, ref in (("Quaternion.outer(Quaternion)", lq, lambda i, j: (A[i] * B[j]).data),
                             ("Rotation.outer(Vector3d)", lw, lambda i, j: (RA[i] * V[j]).data)):
            ok = arr.shape == sa + sb
            if ok:
                for i in np.ndindex(*sa):
                    for j in np.ndindex(*sb):
                        if not close(arr.data[i + j], ref(i, j).reshape(-1), 1e-9):
                            ok = False
            if not ok:
                fail(f"{nm}:lazy:layout", f"lazy {nm} is not the pairwise product indexed self.shape+other.shape "
                     f"for {sa}x{sb} chunk {k}", rep)
    # --- Miller operands: the lazy result must be the same KIND of object as the eager one (class, phase,
    # coordinate format), otherwise its hkl / uvw coordinates differ (or cannot be read at all)
    from orix.crystal_map import Phase as _Phase
    from orix.vector import Miller as _Miller
    from diffpy.structure import Lattice as _Lattice, Structure as _Structure
    _phases = [_Phase(point_group="m-3m"),
               _Phase(point_group="6/mmm", structure=_Structure(lattice=_Lattice(3.2, 3.2, 5.1, 90, 90, 120))),
               _Phase(point_group="2/m", structure=_Structure(lattice=_Lattice(4.0, 5.0, 6.5, 90, 104, 90)))]
    for t in range(max(N // 30, 6)):
        sa, sb = R.choice(SHAPES), R.choice(SHAPES)
        k = pick_k(sa, sb)
        ph = _phases[t % 3]
        fmt = ["hkl", "uvw", "hkil", "UVTW", "xyz"][t % 5]
        if fmt in ("hkil", "UVTW") and ph.point_group.name != "6/mmm":
            fmt = "hkl"
        M = _Miller(xyz=np.array(vec_data(sb)), phase=ph)
        M.coordinate_format = fmt
        for cls, A in (("Quaternion", Quaternion(quat_data(sa, "unit"))), ("Rotation", mk_rot(sa))):
            e, l = A.outer(M), A.outer(M, **lazy_kw(k))
            st(f"miller/{cls}/{fmt}")
            rep = {"sa": sa, "sb": sb, "k": k, "A": A.data.tolist(), "xyz": M.data.tolist(), "format": fmt,
                   "point_group": ph.point_group.name}
            oracle_lazy(f"{cls}.outer(Miller):lazy!=eager", f"{cls}.outer(Miller) {sa}x{sb} chunk {k}", e.data, l.data, rep)
            same_kind = (type(e) is type(l) and getattr(l, "coordinate_format", None) == e.coordinate_format
                         and getattr(l, "phase", None) is not None
                         and l.phase.point_group.name == e.phase.point_group.name
                         and np.allclose(l.phase.structure.lattice.abcABG(), e.phase.structure.lattice.abcABG()))
            if same_kind:
                same_kind = np.allclose(l.coordinates, e.coordinates, atol=1e-9)
            if not same_kind:
                fail(f"{cls}.outer(Miller):lazy!=eager:kind",
                     f"{cls}.outer(Miller, lazy=True) is not the same kind of object as with lazy=False: "
                     f"{type(l).__name__} format {getattr(l, 'coordinate_format', None)!r} phase "
                     f"{getattr(getattr(l, 'phase', None), 'point_group', None)!r} instead of {type(e).__name__} "
                     f"format {e.coordinate_format!r} phase {e.phase.point_group.name}", rep)
    set_backend(True)

# ================================================ orientations: dot_outer / angles
GROUPS = ["C1", "Ci", "C2", "Cs", "D2", "C2v", "C2h", "C3", "D3", "C4", "S4", "C3v", "C6"]


def qmul_np(p, q):
    a, b, c, d = p
    e, f, g, h = q
    return np.array([a * e - b * f - c * g - d * h, b * e + a * f - d * g + c * h,
                     c * e + d * f + a * g - b * h, d * e - c * f + b * g + a * h])


def ref_dots(X, Y, S, mode):
    """brute force, numpy only: D[i ++ j] = max_s term(y_j x_i^-1, s); the pair is improper when exactly
    one of x_i, y_j is (angle_with_outer works on self.unit, which keeps the flags of self).
    mode "eager":   Rotation.dot_outer semantics -- 0 where exactly one of (pair, s) is improper, clip at 1;
                    since the repair of _dot_outer_dask this is what both modes compute;
    mode "noflags": what _dot_outer_dask computed before the repair -- proper symmetry elements only,
                    orientation flags unused (kept to give a regression its old signature)"""
    xs, ys = X.data.reshape(-1, 4), Y.data.reshape(-1, 4)
    fx, fy = X.improper.reshape(-1), Y.improper.reshape(-1)
    sd, sf = S.data.reshape(-1, 4), S.improper.reshape(-1)
    out = np.zeros((len(xs), len(ys)))
    for i, x in enumerate(xs):
        xi = x * np.array([1, -1, -1, -1])
        for j, y in enumerate(ys):
            m = qmul_np(y, xi)
            fm = bool(fy[j]) != bool(fx[i])
            best = 0.0
            for s, f in zip(sd, sf):
                d = abs(float(np.dot(m, s)))
                if mode == "eager":
                    d = 0.0 if fm != bool(f) else min(1.0, d)
                elif bool(f):
                    continue
                best = max(best, d)
            out[i, j] = best
    return out.reshape(X.shape + Y.shape)


def to_angle(d):
    return np.nan_to_num(np.arccos(np.clip(2 * d ** 2 - 1, -1, 1)))


def swap_groups(arr, n_first):
    """array indexed a ++ b (a has n_first axes) -> indexed b ++ a"""
    nd = arr.ndim
    return arr.transpose(tuple(range(n_first, nd)) + tuple(range(n_first)))


if want("ori"):
    for t in range(max(N // 5, 14)):
        ss, so = R.choice(SMALL), R.choice(SMALL)
        if t % 3 == 0:
            so = R.choice([s for s in SMALL if len(s) == len(ss)])
        g1 = R.choice(GROUPS)
        g2 = g1 if R.random() < 0.7 else R.choice(GROUPS)
        if t % 4 == 1:
            # pairs whose product sets differ with the order of the factors (cubic with trigonal / hexagonal):
            # only there does the ORDER of the two symmetries in the element set matter
            g1, g2 = R.choice([("D3", "T"), ("T", "D3"), ("D6", "O"), ("O", "D6"), ("C3", "O"), ("T", "C6")])
        G1, G2 = getattr(osym, g1), getattr(osym, g2)
        flags = R.choice(["none", "none", "mixed"])
        fX = fY = flags
        if t % 5 == 2:
            # the improper flags of the two operands are independent: one operand all proper, the other with one / some /
            # only improper orientations -- with a group that has improper operations, since only those relate a proper to
            # an improper orientation (a shortcut decided on the flags of ONE operand shows here and nowhere else)
            fX, fY = [("none", "one"), ("one", "none"), ("none", "all"), ("all", "none"), ("none", "mixed"), ("mixed", "none")][(t // 5) % 6]
            g1 = g2 = R.choice(["Ci", "C2h", "Cs", "C2v", "S4", "C3v", "D2h", "Oh", "D6h"])
            G1, G2 = getattr(osym, g1), getattr(osym, g2)
            flags = f"{fX}/{fY}"
        X = mk_rot(ss, Orientation, fX, G1)
        Y = mk_rot(so, Orientation, fY, G2)
        S = _get_unique_symmetry_elements(G2, G1)      # (other.symmetry, self.symmetry), as the three methods do
        k = pick_k(ss, so)
        sj = {"shape": [S.size], "q": S.data.reshape(-1, 4).tolist(), "imp": S.improper.reshape(-1).astype(int).tolist()}
        de = X.dot_outer(Y)
        dl = X._dot_outer_dask(Y, chunk_size=k).compute()
        ae = X.angle_with_outer(Y)
        al = X.angle_with_outer(Y, **lazy_kw(k))
        cases.append({"k": "odot", "ck": k, "X": rot_json(X), "Y": rot_json(Y), "S": sj,
                      "sE": list(de.shape), "E": de.reshape(-1).tolist(), "sL": list(dl.shape), "L": dl.reshape(-1).tolist(),
                      "sAE": list(ae.shape), "AE": np.cos(ae).reshape(-1).tolist(),
                      "sAL": list(al.shape), "AL": np.cos(al).reshape(-1).tolist(), "g": [g1, g2], "flags": flags})
        samend = len(ss) == len(so)
        st(f"odot/ndim={'eq' if samend else 'ne'}/flags={flags}/sym={'improper' if S.improper.any() else 'proper'}")
        # ---- oracle: lazy angle_with_outer vs eager
        rep = {"X": rot_json(X), "Y": rot_json(Y), "groups": [g1, g2], "k": k}
        if not (ae.shape == al.shape and close(al, ae, 1e-6)):
            # classify against numpy references (indexed self.shape + other.shape)
            R1 = to_angle(ref_dots(X, Y, S, "eager"))
            R0 = to_angle(ref_dots(X, Y, S, "noflags"))
            if al.shape == R0.shape and close(al, R0, 1e-6) and not close(R0, R1, 1e-6) and (
                    X.improper.any() or Y.improper.any()):
                fail("Orientation.angle_with_outer:lazy:improper-orientation-ignored",
                     f"angle_with_outer(lazy=True) ignores the improper flags of the orientations: "
                     f"self {ss} other {so} groups {g1},{g2}, chunk {k}", rep)
            elif al.shape != ae.shape or (len(ss + so) > 1 and al.shape == swap_groups(R0, len(ss)).shape and (
                    close(al, swap_groups(R0, len(ss)), 1e-6) or close(al, swap_groups(R1, len(ss)), 1e-6))):
                fail("Orientation.angle_with_outer:lazy:axes-order",
                     f"angle_with_outer(lazy=True) is not indexed self.shape+other.shape like lazy=False: self {ss} "
                     f"other {so} -> lazy shape {al.shape}, eager shape {ae.shape}", rep)
            else:
                fail("Orientation.angle_with_outer:lazy:values",
                     f"angle_with_outer(lazy=True) matches neither the eager result nor the reference of the lazy "
                     f"formula: self {ss} other {so} groups {g1},{g2} flags {flags}", rep)
        # ---- the degrees keyword on the lazy path (converted once, like the eager path)
        st("oang/degrees")
        try:
            aed = X.angle_with_outer(Y, degrees=True)
            ald = X.angle_with_outer(Y, degrees=True, **lazy_kw(k))
            if not (aed.shape == ald.shape and close(ald, aed, 1e-4)) or not close(aed, np.rad2deg(ae), 1e-6):
                fail("Orientation.angle_with_outer:lazy:degrees", f"angle_with_outer(degrees=True) differs between lazy and eager (or is not "
                     f"the radian result converted once): max lazy {float(np.max(ald)) if ald.size else 0:.4f}, max eager "
                     f"{float(np.max(aed)) if aed.size else 0:.4f}", rep)
            ged = X.get_distance_matrix(degrees=True)
            gld = X.get_distance_matrix(degrees=True, **lazy_kw(k))
            if not (ged.shape == gld.shape and close(gld, ged, 1e-4)):
                fail("Orientation.get_distance_matrix:lazy:degrees", "get_distance_matrix(degrees=True) differs between lazy and eager", rep)
        except Exception as e:  # noqa
            fail("Orientation.angle_with_outer:lazy:degrees:raises", f"{type(e).__name__}: {e}", rep)
        # ---- get_distance_matrix lazy vs eager (self with self)
        ge = X.get_distance_matrix()
        gl = X.get_distance_matrix(**lazy_kw(k))
        st("odm")
        if not (ge.shape == gl.shape and close(gl, ge, 1e-6)):
            R1 = to_angle(ref_dots(X, X, G1, "eager"))
            R0 = to_angle(ref_dots(X, X, G1, "noflags"))
            if close(gl, R0, 1e-6) and not close(R0, R1, 1e-6) and X.improper.any():
                fail("Orientation.get_distance_matrix:lazy:improper-orientation-ignored",
                     f"get_distance_matrix(lazy=True) ignores the improper flags of the orientations: group {g1}, "
                     f"shape {ss}", rep)
            else:
                fail("Orientation.get_distance_matrix:lazy:values",
                     f"get_distance_matrix(lazy=True) differs from lazy=False: group {g1}, shape {ss}, flags {flags}", rep)
        # chunk independence of the lazy result itself
        k2 = R.choice([x for x in KS if x != k])
        al2 = X.angle_with_outer(Y, **lazy_kw(k2))
        if not (al.shape == al2.shape and close(al, al2, 1e-7)):
            fail("Orientation.angle_with_outer:lazy:chunk-dependence",
                 f"angle_with_outer(lazy=True) differs between chunk sizes {k} and {k2}", rep)

# ================================================ misorientation distance matrix
if want("mis"):
    MG = ["C1", "C2", "Ci", "Cs", "D2", "C3"]
    for t in range(max(N // 14, 6)):
        s = R.choice([(1,), (2,), (3,), (2, 2), (1, 2)])
        g1 = R.choice(MG)
        g2 = g1 if R.random() < 0.6 else R.choice(MG)
        G1, G2 = getattr(osym, g1), getattr(osym, g2)
        M = mk_rot(s, Misorientation, R.choice(["none", "mixed"]))
        M.symmetry = (G1, G2)
        S = _get_unique_symmetry_elements(G1, G2)
        k = R.choice([1, 2, 3, S.size, S.size + 1, 20])
        D = M.get_distance_matrix(chunk_size=k, progressbar=False)
        sj = {"shape": [S.size], "q": S.data.reshape(-1, 4).tolist(), "imp": S.improper.reshape(-1).astype(int).tolist()}
        cases.append({"k": "mis", "ck": k, "X": rot_json(M), "S": sj, "sD": list(D.shape),
                      "D": np.cos(D).reshape(-1).tolist()})
        st(f"mis/ndim={len(s)}/k={'1' if k == 1 else 'mid' if k < S.size else 'beyond'}")
        for k2 in (1, 2, 5, 20):
            D2 = M.get_distance_matrix(chunk_size=k2, progressbar=False)
            if not (D.shape == D2.shape and close(D, D2, 1e-7)):
                fail("Misorientation.get_distance_matrix:chunk-dependence",
                     f"get_distance_matrix differs between chunk sizes {k} and {k2}: shape {s} groups {g1},{g2}",
                     {"M": rot_json(M), "groups": [g1, g2], "k": [k, k2]})
                break


# ===================================== backend / dtype / whole-vs-element oracle
def arr(x):
    """canonical ndarray of a result"""
    if isinstance(x, (Rotation,)):
        return np.concatenate([x.data, x.improper[..., None].astype(float)], -1)
    if hasattr(x, "data") and not isinstance(x, np.ndarray):
        return np.asarray(x.data, float)
    return np.asarray(x, float)


def build(cls, data, sym=None):
    o = cls(data)
    if sym is not None and hasattr(o, "symmetry"):
        o.symmetry = sym
    return o


# name -> (arity kind, function).  kinds: "q" unary on quaternion-like, "qq" pair (broadcast, same shape),
# "qv" quaternion-like with vector, "qqo"/"qvo" outer, "v", "vv", "vvo"
OPS = {
    "conj": ("q", lambda a: a.conj), "inv": ("q", lambda a: ~a), "unit": ("q", lambda a: a.unit),
    "norm": ("q", lambda a: a.norm), "angle": ("q", lambda a: a.angle), "axis": ("q", lambda a: a.axis),
    "to_euler": ("q", lambda a: a.to_euler()), "to_matrix": ("q", lambda a: a.to_matrix()),
    "to_axes_angles": ("q", lambda a: a.to_axes_angles()), "to_rodrigues": ("q", lambda a: a.to_rodrigues()),
    "to_homochoric": ("q", lambda a: a.to_homochoric()),
    "mul": ("qq", lambda a, b: a * b), "dot": ("qq", lambda a, b: a.dot(b)),
    "mulv": ("qv", lambda a, v: a * v),
    "outer": ("qqo", lambda a, b: a.outer(b)), "dot_outer": ("qqo", lambda a, b: a.dot_outer(b)),
    "outer_lazy": ("qqo", lambda a, b: a.outer(b, lazy=True, chunk_size=2, progressbar=False)),
    "outerv": ("qvo", lambda a, v: a.outer(v)),
    "outerv_lazy": ("qvo", lambda a, v: a.outer(v, lazy=True, chunk_size=2, progressbar=False)),
}
ROPS = {
    "angle_with": ("qq", lambda a, b: a.angle_with(b)),
    "angle_with_outer": ("qqo", lambda a, b: a.angle_with_outer(b)),
}
VOPS = {
    "v.dot": ("vv", lambda u, v: u.dot(v)), "v.cross": ("vv", lambda u, v: u.cross(v)),
    "v.angle_with": ("vv", lambda u, v: u.angle_with(v)), "v.unit": ("v", lambda u: u.unit),
    "v.norm": ("v", lambda u: u.norm), "v.dot_outer": ("vvo", lambda u, v: u.dot_outer(v)),
    "v.dot_outer_lazy": ("vvo", lambda u, v: u.dot_outer(v, lazy=True, chunk_size=2, progressbar=False)),
    "v.azimuth": ("v", lambda u: u.azimuth), "v.polar": ("v", lambda u: u.polar),
}
FROM = {
    "from_euler": (3, lambda c, d: c.from_euler(d)),
    "from_axes_angles": (4, lambda c, d: c.from_axes_angles(d[..., :3], d[..., 3])),
    "from_rodrigues": (3, lambda c, d: c.from_rodrigues(d)),
    "from_homochoric": (3, lambda c, d: c.from_homochoric(d)),
    "from_matrix": (9, lambda c, d: c.from_matrix(d.reshape(d.shape[:-1] + (3, 3)))),
}


def ops_for(cls):
    d = dict(OPS)
    if cls is not Quaternion:
        d.update(ROPS)
    return d


def run_op(kind, f, a, b, v):
    if kind == "q":
        return f(a)
    if kind in ("qq", "qqo"):
        return f(a, b)
    return f(a, v)


def grid_data(shape, dim, kind):
    """values exactly representable in float32 (and as small integers for kind == 'int')"""
    n = size(shape)
    if kind == "int":
        out = []
        while len(out) < n:
            r = [R.randint(-3, 3) for _ in range(dim)]
            if any(r):
                out.append(r)
        return np.array(out, dtype=np.int64).reshape(shape + (dim,))
    if dim == 4:
        d = quat_data(shape, R.choice(["unit", "nonunit"]))
    else:
        d = np.array([[R.gauss(0, 1) for _ in range(dim)] for _ in range(n)]).reshape(shape + (dim,))
    return d.astype(np.float32)


if want("strategy"):
    for t in range(max(N // 14, 7)):
        cls = R.choice([Quaternion, Quaternion, Rotation, Orientation])
        sym = getattr(osym, R.choice(["C1", "D2", "C3", "C2h"])) if cls is Orientation else None
        sa = R.choice(SMALL)
        sb = R.choice(SMALL)
        dkind = R.choice(["float32", "float32", "int"])
        dA, dB, dB2 = grid_data(sa, 4, dkind), grid_data(sb, 4, dkind), grid_data(sa, 4, dkind)
        dV, dV2 = grid_data(sb, 3, dkind), grid_data(sa, 3, dkind)
        res = {}
        # relative perturbations of a few float32 ulps, to measure how ill-conditioned an operation is at
        # these inputs (a float32 arithmetic path may legitimately deviate by a multiple of that)
        pert = {id(d): np.array([R.uniform(-1, 1) for _ in range(d.size)]).reshape(d.shape) * 2.0 ** -22
                for d in (dA, dB, dB2, dV, dV2)}

        def run_all(backend, conv, key):
            set_backend(backend)
            a, b, b2 = build(cls, conv(dA), sym), build(cls, conv(dB), sym), build(cls, conv(dB2), sym)
            v, v2 = Vector3d(conv(dV)), Vector3d(conv(dV2))
            for name, (kind, f) in ops_for(cls).items():
                bb = b if kind.endswith("o") else b2
                vv = v if kind.endswith("o") else v2
                try:
                    res[(name, backend, key)] = arr(run_op(kind, f, a, bb, vv))
                except Exception as e:  # noqa
                    res[(name, backend, key)] = f"raises {type(e).__name__}"
            if cls is Quaternion and backend:
                u2 = Vector3d(conv(dV2))
                w2 = Vector3d(conv(dV2)[..., ::-1].copy())
                for name, (kind, f) in VOPS.items():
                    other = v if kind.endswith("o") else w2
                    try:
                        res[(name, backend, key)] = arr(f(u2) if kind == "v" else f(u2, other))
                    except Exception as e:  # noqa
                        res[(name, backend, key)] = f"raises {type(e).__name__}"

        for backend in (True, False):
            run_all(backend, lambda d: d.astype(np.float64), True)
            run_all(backend, lambda d: d, False)
            if dkind == "float32":
                run_all(backend, lambda d: d.astype(np.float64) * (1 + pert[id(d)]), "pert")
        set_backend(True)
        st(f"strategy/{cls.__name__}/{dkind}")
        names = sorted({k[0] for k in res})
        for name in names:
            ref = res.get((name, True, True))
            cname = "Vector3d" if name in VOPS else cls.__name__
            oname = name[2:] if name in VOPS else name
            rep = {"cls": cname, "op": name, "dtype": dkind, "sa": sa, "sb": sb, "A": dA.tolist(),
                   "B": dB.tolist(), "B2": dB2.tolist(), "V": dV.tolist(), "V2": dV2.tolist()}

            def canon(x):
                return np.concatenate([np.cos(x), np.sin(x)], -1) if name == "to_euler" else x

            def dev(x, y, sens=None):
                """None if equal, else a short class of the deviation"""
                if isinstance(x, str) or isinstance(y, str):
                    return None if (isinstance(x, str) and isinstance(y, str) and x == y) else "raises"
                x, y = canon(x), canon(y)
                if close(x, y, 1e-9):
                    return None
                if x.shape != y.shape:
                    return "mismatch"
                tol = 2e-5
                if sens is not None and not isinstance(sens, str) and canon(sens).shape == y.shape:
                    s = float(np.max(np.abs(canon(sens) - y) / np.maximum(1, np.abs(y))))
                    tol = max(tol, 64 * s)
                return "f32-rounding" if close(x, y, tol) else "mismatch"
            # backend switch, on float64 inputs
            if (name, False, True) in res:
                dv = dev(res[(name, False, True)], ref)
                if dv:
                    fail(f"backend:{cname}.{oname}:{dv}", f"{cname}.{oname} differs between "
                         f"numpy-quaternion and the built-in kernels on float64 inputs ({dv})", rep)
            # dtype, per backend
            for backend in (True, False):
                if (name, backend, False) in res and (name, backend, True) in res:
                    dv = dev(res[(name, backend, False)], res[(name, backend, True)], res.get((name, backend, "pert")))
                    if dv:
                        what = {"raises": "raises (or stops raising)", "f32-rounding": "differs at float32 rounding level from",
                                "mismatch": "differs grossly from"}[dv]
                        r2 = res[(name, backend, False)]
                        fail(f"dtype:{cname}.{oname}:{dkind}:{'npq' if backend else 'builtin'}:{dv}",
                             f"{cname}.{oname} on {dkind} input {what} the same values given as float64 "
                             f"(backend {'numpy-quaternion' if backend else 'built-in'})"
                             + (f": {r2}" if isinstance(r2, str) else ""), rep)

    # ---- constructors from other representations: dtype and whole-vs-element
    for t in range(max(N // 25, 4)):
        shape = R.choice(SMALL)
        for name, (dim, f) in FROM.items():
            n = size(shape)
            if name == "from_matrix":
                d = np.array([Quaternion(rand_unit_quat(R)).to_matrix().reshape(9) for _ in range(n)])
            elif name == "from_homochoric":
                d = np.array([[R.uniform(-0.7, 0.7) for _ in range(3)] for _ in range(n)])
            elif name == "from_axes_angles":
                d = np.array([rand_vec(R) + [R.uniform(0, 3)] for _ in range(n)])
            else:
                d = np.array([[R.uniform(0, 3) for _ in range(dim)] for _ in range(n)])
            d32 = d.reshape(shape + (dim,)).astype(np.float32)
            d64 = d32.astype(np.float64)
            st(f"from/{name}")
            for cls in (Quaternion, Rotation):
                try:
                    w64, w32 = f(cls, d64), f(cls, d32)
                except Exception as e:  # noqa
                    fail(f"dtype:{cls.__name__}.{name}:raises", f"{name} raises {type(e).__name__}: {e}", {"d": d32.tolist()})
                    continue
                if not close(w32.data, w64.data, 1e-9):
                    dv = "f32-rounding" if close(w32.data, w64.data, 2e-5) or close(-w32.data, w64.data, 2e-5) else "mismatch"
                    fail(f"dtype:{cls.__name__}.{name}:float32:{dv}", f"{cls.__name__}.{name} on float32 input differs "
                         f"from the same values given as float64 ({dv})", {"d": d32.tolist()})
                ok = w64.shape == shape
                if ok:
                    for i in np.ndindex(*shape):
                        one = f(cls, d64[i][None, :] if name != "from_axes_angles" else d64[i][None, :])
                        if not close(one.data.reshape(-1), w64.data[i].reshape(-1), 1e-12):
                            ok = False
                if not ok:
                    fail(f"elementwise:{cls.__name__}.{name}", f"{cls.__name__}.{name} of an array differs from "
                         f"element-by-element evaluation (shape {shape})", {"d": d64.tolist()})

    # ---- whole n-d object vs element by element
    for t in range(max(N // 14, 7)):
        cls = R.choice([Quaternion, Rotation, Orientation])
        sym = getattr(osym, R.choice(["C1", "D2", "C3"])) if cls is Orientation else None
        sa, sb = R.choice(SHAPES[:9]), R.choice(SMALL)
        backend = R.random() < 0.6
        set_backend(backend)
        kind = "nonunit" if cls is Quaternion and R.random() < 0.5 else "unit"
        a, b2, b = build(cls, quat_data(sa, kind), sym), build(cls, quat_data(sa, kind), sym), build(cls, quat_data(sb, kind), sym)
        if cls is not Quaternion:
            a.improper = np.array([R.random() < 0.4 for _ in range(size(sa))]).reshape(sa)
        v2, v = Vector3d(vec_data(sa)), Vector3d(vec_data(sb))
        st(f"elementwise/{cls.__name__}/ndim={len(sa)}")
        for name, (okind, f) in ops_for(cls).items():
            try:
                whole = arr(run_op(okind, f, a, b if okind.endswith("o") else b2, v if okind.endswith("o") else v2))
            except Exception as e:  # noqa
                fail(f"elementwise:{cls.__name__}.{name}:raises", f"{name} raises {type(e).__name__} on shape {sa}", {})
                continue
            ok = True
            nav = whole.shape[:len(sa) + (len(sb) if okind.endswith("o") else 0)]
            if nav != sa + (sb if okind.endswith("o") else ()):
                ok = False
            else:
                for i in np.ndindex(*sa):
                    ai = a[i]
                    if okind.endswith("o"):
                        for j in np.ndindex(*sb):
                            one = arr(run_op(okind, f, ai, b[j], v[j]))
                            if not close(one.reshape(-1), whole[i + j].reshape(-1), 1e-10):
                                ok = False
                    else:
                        one = arr(run_op(okind, f, ai, b2[i], v2[i]))
                        if not close(one.reshape(-1), whole[i].reshape(-1), 1e-10):
                            ok = False
            if not ok:
                fail(f"elementwise:{cls.__name__}.{name}", f"{cls.__name__}.{name} on an array of shape {sa} differs "
                     f"from element-by-element evaluation (backend {backend})",
                     {"cls": cls.__name__, "op": name, "sa": sa, "sb": sb, "A": rot_json(a) if cls is not Quaternion
                      else a.data.tolist(), "backend": backend})
    set_backend(True)


# ======================================================================================================
# Audit strata (coverage holes of the strata above).  They come LAST so that the random stream of the
# sections above -- and with it the cases of the Coq correspondence -- is unchanged.  Each is guarded by the
# section that `replay` of tools/props/C18.py selects for its signature prefix.
# ======================================================================================================
import contextlib
import io


@contextlib.contextmanager
def quiet():
    """dask's ProgressBar writes to stdout"""
    with contextlib.redirect_stdout(io.StringIO()):
        yield


def qrot_np(q, v):
    """numpy only: rotate v by the unit quaternion q / |q| (q v q* / |q|^2)"""
    q = np.asarray(q, float)
    w = qmul_np(qmul_np(q, np.array([0.0, v[0], v[1], v[2]])), q * np.array([1, -1, -1, -1]))
    return w[1:] / float(np.dot(q, q))


def outcome(f):
    """(result, None) or (None, 'raises <Type>')"""
    try:
        with quiet():
            return f(), None
    except Exception as e:  # noqa
        return None, f"raises {type(e).__name__}"


def sym_names(o):
    s = getattr(o, "symmetry", None)
    if s is None:
        return None
    return [x.name for x in s] if isinstance(s, (tuple, list)) else s.name


def same_object(e, l, tol=1e-9):
    """None if the two results are the same kind of object with the same values, else what differs"""
    if type(e) is not type(l):
        return f"class {type(l).__name__} instead of {type(e).__name__}"
    if e.shape != l.shape:
        return f"shape {l.shape} instead of {e.shape}"
    if not close(l.data, e.data, tol):
        return "values differ"
    if isinstance(e, Rotation) and not np.array_equal(e.improper, l.improper):
        return "improper flags differ"
    if sym_names(e) != sym_names(l):
        return f"symmetry {sym_names(l)} instead of {sym_names(e)}"
    if hasattr(e, "coordinate_format") and (getattr(l, "coordinate_format", None) != e.coordinate_format
                                            or l.phase.point_group.name != e.phase.point_group.name):
        return "Miller phase / coordinate format differ"
    return None


CLS_LEFT = ["Quaternion", "Rotation", "Orientation", "Misorientation", "Symmetry"]
CLS_RIGHT = CLS_LEFT + ["Vector3d", "Miller"]


def mk_obj(c, shape):
    if c == "Quaternion":
        return Quaternion(quat_data(shape, "nonunit"))
    if c == "Rotation":
        return mk_rot(shape)
    if c == "Orientation":
        return mk_rot(shape, Orientation, "mixed", R.choice([osym.D2, osym.C2h, osym.C3]))
    if c == "Misorientation":
        m = mk_rot(shape, Misorientation, "mixed")
        m.symmetry = R.choice([(osym.C2, osym.D3), (osym.Ci, osym.C1)])
        return m
    if c == "Symmetry":
        return R.choice([osym.C2v, osym.S4, osym.C3, osym.C2h])      # own shape, proper and improper elements
    if c == "Vector3d":
        return Vector3d(vec_data(shape))
    if c == "Miller":
        from orix.crystal_map import Phase
        from orix.vector import Miller
        from diffpy.structure import Lattice, Structure
        m = Miller(xyz=np.array(vec_data(shape)),
                   phase=Phase(point_group="6/mmm", structure=Structure(lattice=Lattice(3.2, 3.2, 5.1, 90, 90, 120))))
        m.coordinate_format = R.choice(["hkl", "uvw", "hkil", "UVTW"])
        return m
    raise ValueError(c)


def obj_json(o):
    d = {"cls": type(o).__name__, "shape": list(o.shape), "data": o.data.tolist()}
    if isinstance(o, Rotation):
        d["imp"] = o.improper.astype(int).tolist()
    if sym_names(o) is not None:
        d["symmetry"] = sym_names(o)
    return d


PAIRS_MIX = [((2,), (3,)), ((2, 1), (3,)), ((1,), (2, 2)), ((1, 2, 2), (2,)), ((3,), (1, 2, 1)), ((2, 2), (1, 3))]

if want("outer"):
    # ---- (1) operands of DIFFERENT classes: every class with an outer() (bare quaternion, rotation, orientation,
    # misorientation, symmetry) with every operand class (those and Vector3d, Miller); the sections above only pair
    # Quaternion x Quaternion / Vector3d and Rotation x Rotation / Vector3d.  Lazy and eager results must be the same
    # kind of object (class, shape, values, improper flags, symmetry) and equal the pairwise numpy reference.
    for t in range(min(max(N // 50, 2), 8)):
        for ci, (ca, cb) in enumerate(itertools.product(CLS_LEFT, CLS_RIGHT)):
            sa, sb = PAIRS_MIX[(t * 5 + ci) % len(PAIRS_MIX)]
            backend = (ci + t) % 2 == 0
            set_backend(backend)
            A, B = mk_obj(ca, sa), mk_obj(cb, sb)
            k = pick_k(A.shape, B.shape)
            st(f"classmix/{ca}x{cb}")
            rep = {"A": obj_json(A), "B": obj_json(B), "k": k, "backend": backend}
            (e, ee), (l, le) = outcome(lambda: A.outer(B)), outcome(lambda: A.outer(B, **lazy_kw(k)))
            sig = f"outer:classmix:{ca}x{cb}"
            if ee or le:
                if ee != le:
                    fail(sig + ":raises", f"{ca}.outer({cb}): lazy=False {ee or 'returns'}, lazy=True {le or 'returns'} "
                         f"(shapes {A.shape} x {B.shape}, chunk {k})", rep)
                continue
            d = same_object(e, l)
            if d:
                fail(sig + ":lazy!=eager", f"{ca}.outer({cb}, lazy=True) differs from lazy=False: {d} "
                     f"(shapes {A.shape} x {B.shape}, chunk {k}, numpy-quaternion {backend})", rep)
                continue
            ok = e.shape == A.shape + B.shape
            if ok:
                isrot = isinstance(e, Rotation)
                for i in np.ndindex(*A.shape):
                    for j in np.ndindex(*B.shape):
                        if isinstance(B, Quaternion):
                            ref = qmul_np(A.data[i], B.data[j])
                            if isrot:
                                ref = ref / np.linalg.norm(ref)
                        else:
                            ref = qrot_np(A.data[i], B.data[j])
                            if isinstance(A, Rotation) and A.improper[i]:
                                ref = -ref
                        if not (close(e.data[i + j], ref, 1e-9) and close(l.data[i + j], ref, 1e-9)):
                            ok = False
                        if isrot and isinstance(A, Rotation) and bool(e.improper[i + j]) != (
                                bool(A.improper[i]) != bool(B.improper[j])):
                            ok = False
            if not ok:
                fail(sig + ":reference", f"{ca}.outer({cb}) (both modes) is not the pairwise product indexed "
                     f"self.shape + other.shape (shapes {A.shape} x {B.shape}, numpy-quaternion {backend})", rep)
        # Vector3d.dot_outer with a Miller operand (Miller.dot_outer itself has no lazy mode)
        sa, sb = PAIRS_MIX[t % len(PAIRS_MIX)]
        U, M_ = mk_obj("Vector3d", sa), mk_obj("Miller", sb)
        k = pick_k(sa, sb)
        st("classmix/Vector3d.dot_outer(Miller)")
        for nm, a, b in (("Vector3d.dot_outer(Miller)", U, M_), ("Miller.dot_outer(Vector3d)", M_, U)):
            e, l = Vector3d.dot_outer(a, b), Vector3d.dot_outer(a, b, **lazy_kw(k))
            ref = np.einsum("...i,...i", a.data.reshape(a.shape + (1,) * b.ndim + (3,)), b.data)
            if not (e.shape == l.shape == ref.shape and close(l, e, 1e-9) and close(l, ref, 1e-9)):
                fail(f"outer:classmix:{nm}:lazy!=eager", f"{nm}: lazy / eager / numpy reference differ "
                     f"(shapes {a.shape} x {b.shape}, chunk {k})", {"U": obj_json(a), "V": obj_json(b), "k": k})
    set_backend(True)

    # ---- (2) the DEFAULT keyword path (chunk_size left at its default, progressbar=True: the `with ProgressBar()`
    # branch is separate code in every lazy method and is never entered above), positional arguments, degrees=True
    for t in range(min(max(N // 50, 2), 8)):
        sa, sb = R.choice(SHAPES), R.choice(SHAPES)
        so1, so2 = R.choice(SMALL), R.choice(SMALL)
        backend = t % 2 == 0
        set_backend(backend)
        A, B = Quaternion(quat_data(sa, "nonunit")), Quaternion(quat_data(sb, "nonunit"))
        U, V = Vector3d(vec_data(sa)), Vector3d(vec_data(sb))
        RA, RB = mk_rot(sa), mk_rot(sb)
        g1, g2 = [("D2", "C2h"), ("C3v", "C3v"), ("S4", "D3"), ("C1", "Ci")][t % 4]
        X = mk_rot(so1, Orientation, "mixed", getattr(osym, g1))
        Y = mk_rot(so2, Orientation, ["none", "mixed"][t % 2], getattr(osym, g2))
        Mi = mk_rot(R.choice([(2,), (1, 2), (2, 1, 1)]), Misorientation, "mixed")
        Mi.symmetry = (getattr(osym, g1), getattr(osym, g2))
        k = R.choice([2, 3, 7, 20])        # chunk size 1 is exercised above; the keyword path is the point here
        rep = {"A": A.data.tolist(), "B": B.data.tolist(), "U": U.data.tolist(), "V": V.data.tolist(),
               "RA": rot_json(RA), "RB": rot_json(RB), "X": rot_json(X), "Y": rot_json(Y), "groups": [g1, g2],
               "Mi": rot_json(Mi), "k": k, "backend": backend}
        calls = [
            ("Quaternion.outer(Quaternion)", lambda **kw: A.outer(B, **kw), lambda *a: A.outer(B, *a)),
            ("Quaternion.outer(Vector3d)", lambda **kw: A.outer(V, **kw), lambda *a: A.outer(V, *a)),
            ("Rotation.outer(Rotation)", lambda **kw: RA.outer(RB, **kw), lambda *a: RA.outer(RB, *a)),
            ("Rotation.outer(Vector3d)", lambda **kw: RA.outer(V, **kw), lambda *a: RA.outer(V, *a)),
            ("Vector3d.dot_outer", lambda **kw: U.dot_outer(V, **kw), lambda *a: U.dot_outer(V, *a)),
            ("Orientation.angle_with_outer", lambda **kw: X.angle_with_outer(Y, **kw), lambda *a: X.angle_with_outer(Y, *a)),
            ("Orientation.get_distance_matrix", lambda **kw: X.get_distance_matrix(**kw), lambda *a: X.get_distance_matrix(*a)),
        ]
        for nm, fk, fp in calls:
            st(f"defaults/{nm}")
            e, ee = outcome(lambda: fk())
            variants = [("lazy=True, other keywords at their defaults", lambda: fk(lazy=True), "default"),
                        ("lazy=True, progressbar=True", lambda: fk(lazy=True, chunk_size=k, progressbar=True), "progressbar"),
                        ("positional (lazy, chunk_size, progressbar)", lambda: fp(True, k, False), "positional")]
            for vn, f, tag in variants:
                l, le = outcome(f)
                if ee or le:
                    if ee != le:
                        fail(f"defaults:{nm}:{tag}:raises", f"{nm}: eager {ee or 'returns'}, {vn} {le or 'returns'}", rep)
                    continue
                if isinstance(e, np.ndarray):
                    d = None if (e.shape == l.shape and close(l, e, 1e-6)) else "shape or values differ"
                else:
                    d = same_object(e, l)
                if d:
                    fail(f"defaults:{nm}:{tag}", f"{nm} with {vn} differs from lazy=False: {d} (chunk {k})", rep)
        # degrees=True in both modes, against the result in radians
        for nm, f in (("Orientation.angle_with_outer", lambda **kw: X.angle_with_outer(Y, **kw)),
                      ("Orientation.get_distance_matrix", lambda **kw: X.get_distance_matrix(**kw))):
            st(f"defaults/{nm}/degrees")
            rad = f()
            with quiet():
                ed, ld, ldd = f(degrees=True), f(degrees=True, **lazy_kw(k)), f(degrees=True, lazy=True)
            for tag, got in (("eager", ed), ("lazy", ld), ("lazy-default", ldd)):
                if not (got.shape == rad.shape and close(np.deg2rad(got), rad, 1e-6)):
                    fail(f"defaults:{nm}:degrees:{tag}", f"{nm}(degrees=True), {tag}, is not the result in radians "
                         f"converted to degrees (chunk {k})", rep)
        # Misorientation.get_distance_matrix has a chunked mode only: default call, positional call, degrees
        st("defaults/Misorientation.get_distance_matrix")
        Dm = Mi.get_distance_matrix(chunk_size=k, progressbar=False)
        with quiet():
            alts = [("default", Mi.get_distance_matrix()), ("progressbar", Mi.get_distance_matrix(chunk_size=k, progressbar=True)),
                    ("positional", Mi.get_distance_matrix(k, False)),
                    ("degrees", np.deg2rad(Mi.get_distance_matrix(chunk_size=k, progressbar=False, degrees=True))),
                    ("degrees-default", np.deg2rad(Mi.get_distance_matrix(degrees=True)))]
        for tag, got in alts:
            if not (got.shape == Dm.shape and close(got, Dm, 1e-7)):
                fail(f"defaults:Misorientation.get_distance_matrix:{tag}", f"Misorientation.get_distance_matrix ({tag}) "
                     f"differs from the call with chunk_size={k}, progressbar=False", rep)
    set_backend(True)

    # ---- (3) EMPTY operands (a zero-length axis on the left, on the right, on both, next to non-empty axes)
    EMPTY_PAIRS = [((0,), (2,)), ((2,), (0,)), ((0,), (0,)), ((0, 2), (3,)), ((2, 0), (1, 2)), ((3,), (2, 0)), ((1, 0), (0,))]
    for t, (sa, sb) in enumerate(EMPTY_PAIRS):
        backend = t % 2 == 0
        set_backend(backend)
        A, B = Quaternion(quat_data(sa, "nonunit")), Quaternion(quat_data(sb, "unit"))
        U, V = Vector3d(vec_data(sa)), Vector3d(vec_data(sb))
        RA, RB = mk_rot(sa), mk_rot(sb)
        X, Y = mk_rot(sa, Orientation, "mixed", osym.D2), mk_rot(sb, Orientation, "mixed", osym.C2h)
        k = [1, 2, 20][t % 3]
        for nm, f, shp in (("Quaternion.outer(Quaternion)", lambda **kw: A.outer(B, **kw), sa + sb),
                           ("Quaternion.outer(Vector3d)", lambda **kw: A.outer(V, **kw), sa + sb),
                           ("Rotation.outer(Rotation)", lambda **kw: RA.outer(RB, **kw), sa + sb),
                           ("Rotation.outer(Vector3d)", lambda **kw: RA.outer(V, **kw), sa + sb),
                           ("Vector3d.dot_outer", lambda **kw: U.dot_outer(V, **kw), sa + sb),
                           ("Orientation.angle_with_outer", lambda **kw: X.angle_with_outer(Y, **kw), sa + sb),
                           ("Orientation.get_distance_matrix", lambda **kw: X.get_distance_matrix(**kw), sa + sa)):
            st(f"empty/{nm}")
            (e, ee), (l, le) = outcome(lambda: f()), outcome(lambda: f(**lazy_kw(k)))
            rep = {"op": nm, "self_shape": sa, "other_shape": sb, "k": k, "backend": backend}
            if ee or le:
                if ee != le:
                    fail(f"empty:{nm}:raises", f"{nm} on shapes {sa} x {sb}: lazy=False {ee or 'returns'}, "
                         f"lazy=True {le or 'returns'}", rep)
            elif not (tuple(e.shape) == tuple(l.shape) == tuple(shp) and type(e) is type(l)):
                fail(f"empty:{nm}:shape", f"{nm} on shapes {sa} x {sb}: eager {type(e).__name__}{e.shape}, lazy "
                     f"{type(l).__name__}{l.shape}, expected shape {shp}", rep)
    set_backend(True)

    # ---- (7) operands with a HISTORY (views: transposed, reversed, strided, reshaped, flattened, a column): the data
    # are not C-contiguous; all evaluation strategies must give what a fresh copy of the same elements gives
    def fresh(o):
        if isinstance(o, Vector3d):
            return Vector3d(np.array(o.data, dtype=float, order="C", copy=True))
        n = o.__class__(np.array(o.data, dtype=float, order="C", copy=True))
        if isinstance(o, Rotation):
            n.improper = o.improper.copy()
            if isinstance(o, Orientation):
                n.symmetry = o.symmetry
        return n

    HIST = [("id", (2, 3), lambda o: o), ("transpose", (2, 3), lambda o: o.transpose()),
            ("reversed", (4,), lambda o: o[::-1]), ("strided", (5,), lambda o: o[::2]),
            ("reshape", (2, 3), lambda o: o.reshape(3, 2)), ("column", (3, 2), lambda o: o[:, 1]),
            ("transpose3", (2, 1, 3), lambda o: o.transpose(2, 0, 1)), ("flatten", (2, 2), lambda o: o.flatten()),
            ("rows-reversed", (3, 2), lambda o: o[::-1, ::-1])]
    nh = len(HIST)
    for t in range(min(max(N // 4, 18), 81)):
        # every history meets "id" on the other side (both orders) and a different history; all 3 x 9 in 27 rounds
        hh = (t + t // 3) % nh
        h1, h2 = [(hh, 0), (0, hh), (hh, (hh * 2 + 1) % nh)][t % 3]
        (n1, s1, f1), (n2, s2, f2) = HIST[h1], HIST[h2]
        backend = (t // 2) % 2 == 0
        k = [20, 3, 2, 3][t % 4]             # (one block, or a few: the chunk grid itself is exercised above)
        objs = {"q": (f1(Quaternion(quat_data(s1, "nonunit"))), f2(Quaternion(quat_data(s2, "unit")))),
                "r": (f1(mk_rot(s1)), f2(mk_rot(s2))),
                "v": (f1(Vector3d(vec_data(s1))), f2(Vector3d(vec_data(s2)))),
                "o": (f1(mk_rot(s1, Orientation, "mixed", osym.C2h)), f2(mk_rot(s2, Orientation, "mixed", osym.D3)))}
        fr = {key: (fresh(a), fresh(b)) for key, (a, b) in objs.items()}
        st(f"views/{n1}x{n2}")
        ops = [("Quaternion.outer(Quaternion)", lambda o, **kw: o["q"][0].outer(o["q"][1], **kw)),
               ("Quaternion.outer(Vector3d)", lambda o, **kw: o["q"][0].outer(o["v"][1], **kw)),
               ("Rotation.outer(Rotation)", lambda o, **kw: o["r"][0].outer(o["r"][1], **kw)),
               ("Rotation.outer(Vector3d)", lambda o, **kw: o["r"][0].outer(o["v"][1], **kw)),
               ("Vector3d.dot_outer", lambda o, **kw: o["v"][0].dot_outer(o["v"][1], **kw)),
               ("Orientation.angle_with_outer", lambda o, **kw: o["o"][0].angle_with_outer(o["o"][1], **kw))]
        for oi, (nm, f) in enumerate(ops):
            set_backend(True)
            want_ = f(fr)
            set_backend(backend)
            # eager always; lazy (a dask graph each: costly) for two of the six operations per round, in turn
            modes = [("eager", outcome(lambda: f(objs)))]
            if (oi - t) % 3 == 0:
                modes.append(("lazy", outcome(lambda: f(objs, **lazy_kw(k)))))
            for tag, got in modes:
                res, err = got
                if err:
                    d = err
                elif isinstance(want_, np.ndarray):
                    d = None if (res.shape == want_.shape and close(res, want_, 1e-6)) else "shape or values differ"
                else:
                    d = same_object(want_, res)
                if d:
                    fail(f"views:{nm}:{tag}", f"{nm} ({tag}, numpy-quaternion {backend}) on operands that are views "
                         f"({n1} / {n2}) differs from the result on fresh copies of the same elements: {d}",
                         {"op": nm, "history": [n1, n2], "base_shapes": [s1, s2], "k": k, "backend": backend,
                          "operands": {key: [obj_json(a), obj_json(b)] for key, (a, b) in fr.items()}})
    set_backend(True)

if want("ori"):
    # ---- (4) orientations with >= 3 axes and unequal numbers of axes in BOTH orders (SMALL has at most 2 axes): the
    # transposition to self.shape + other.shape moves a block of other.ndim axes over a block of self.ndim axes
    PAIRS3 = [((2, 1, 2), (3,)), ((3,), (1, 2, 2)), ((1, 2, 2), (2, 3)), ((2, 3), (2, 1, 1)), ((1, 1, 2), (1, 2, 1)),
              ((2, 2, 1), (2,)), ((2,), (1, 1, 3)), ((1, 2, 1, 2), (3,))]
    GP3 = [("D2", "D2"), ("C2h", "C2h"), ("D3", "T"), ("C3v", "Cs"), ("C1", "S4"), ("O", "D6"), ("Ci", "C2v")]
    FL3 = [("none", "none"), ("mixed", "none"), ("none", "mixed"), ("mixed", "mixed"), ("all", "one")]
    for t in range(min(max(N // 12, 8), 56)):
        ss, so = PAIRS3[t % len(PAIRS3)]
        g1, g2 = GP3[t % len(GP3)]
        fX, fY = FL3[t % len(FL3)]
        G1, G2 = getattr(osym, g1), getattr(osym, g2)
        X, Y = mk_rot(ss, Orientation, fX, G1), mk_rot(so, Orientation, fY, G2)
        S = _get_unique_symmetry_elements(G2, G1)
        k = pick_k(ss, so)
        st(f"ori3/ndim={len(ss)}x{len(so)}/flags={fX}/{fY}")
        rep = {"X": rot_json(X), "Y": rot_json(Y), "groups": [g1, g2], "k": k}
        D = ref_dots(X, Y, S, "eager")
        got = [("dot_outer", X.dot_outer(Y), D, 1e-9), ("_dot_outer_dask", X._dot_outer_dask(Y, chunk_size=k).compute(), D, 1e-9),
               ("angle_with_outer:eager", X.angle_with_outer(Y), to_angle(D), 1e-6),
               ("angle_with_outer:lazy", X.angle_with_outer(Y, **lazy_kw(k)), to_angle(D), 1e-6)]
        DX = ref_dots(X, X, _get_unique_symmetry_elements(G1, G1), "eager")
        got += [("get_distance_matrix:eager", X.get_distance_matrix(), to_angle(DX), 1e-6),
                ("get_distance_matrix:lazy", X.get_distance_matrix(**lazy_kw(k)), to_angle(DX), 1e-6)]
        for nm, arr_, ref, tol in got:
            if arr_.shape != ref.shape:
                fail(f"Orientation.{nm}:ndim3:axes-order", f"Orientation.{nm.replace(':', ', ')} for self {ss} other {so} "
                     f"has shape {arr_.shape}, expected self.shape + other.shape = {ref.shape}", rep)
            elif not close(np.cos(arr_) if "angle" in nm or "distance" in nm else arr_,
                           np.cos(ref) if "angle" in nm or "distance" in nm else ref, tol):
                fail(f"Orientation.{nm}:ndim3:values", f"Orientation.{nm.replace(':', ', ')} for self {ss} other {so}, groups "
                     f"{g1},{g2}, flags {fX}/{fY}, chunk {k} differs from the pairwise numpy reference indexed "
                     f"self.shape + other.shape", rep)

if want("mis"):
    # ---- (5) Misorientation.get_distance_matrix: >= 3 axes and size-1 axes (the reduction axes are computed from
    # ndim), all flag patterns, whole array against the matrices of single pairs / single elements
    SH5 = [(2, 1, 2), (1, 2, 1), (1, 1, 1), (3,), (2, 2), (1, 3)]
    GP5 = [("D2", "C3"), ("C2h", "C2"), ("Cs", "Ci"), ("C3", "C3"), ("C1", "D2"), ("S4", "C2v")]
    FL5 = ["none", "mixed", "all", "one"]
    for t in range(min(max(N // 25, 4), 24)):
        s = SH5[t % len(SH5)]
        g1, g2 = GP5[t % len(GP5)]
        M = mk_rot(s, Misorientation, FL5[t % len(FL5)])
        M.symmetry = (getattr(osym, g1), getattr(osym, g2))
        k = [2, 3, 20, 5][t % 4]             # (the symmetry axes are chunked too: chunk size 1 costs minutes here)
        D = M.get_distance_matrix(chunk_size=k, progressbar=False)
        st(f"mis3/ndim={len(s)}")
        rep = {"M": rot_json(M), "groups": [g1, g2], "k": k}
        if D.shape != s + s:
            fail("Misorientation.get_distance_matrix:ndim3:shape", f"get_distance_matrix of shape {s} has shape {D.shape}, "
                 f"expected {s + s}", rep)
            continue
        idx = list(np.ndindex(*s))
        pairs = [(i, j) for i in idx for j in idx if i <= j]
        if len(pairs) > 6:
            pairs = [pairs[(t + 3 * n) % len(pairs)] for n in range(6)]
        ok = True
        for i, j in pairs:
            Pm = Misorientation(np.stack([M.data[i], M.data[j]]), symmetry=M.symmetry)
            Pm.improper = np.array([M.improper[i], M.improper[j]])
            d2 = Pm.get_distance_matrix(chunk_size=[2, 20, 3][(t + sum(i) + sum(j)) % 3], progressbar=False)
            if not (d2.shape == (2, 2) and close(np.cos([d2[0, 1], d2[1, 0], d2[0, 0], d2[1, 1]]),
                                                 np.cos([D[i + j], D[j + i], D[i + i], D[j + j]]), 1e-7)):
                ok = False
                rep = dict(rep, pair=[list(i), list(j)])
        if not ok:
            fail("Misorientation.get_distance_matrix:elementwise", f"get_distance_matrix of an array of shape {s} (groups "
                 f"{g1},{g2}, chunk {k}) differs from the matrices of its pairs of elements", rep)

if want("strategy"):
    # ---- (6) BROADCAST products of operands of different (compatible) shapes: above, `*` and dot() only ever see two
    # operands of the same shape, yet the two backends broadcast by different mechanisms
    BPAIRS = [((2, 1), (1, 3)), ((3,), (2, 3)), ((2, 3), (3,)), ((1,), (2, 2)), ((2, 2), (1,)), ((2, 1, 2), (3, 1)),
              ((1, 1), (3,)), ((2,), (2, 1))]
    for t in range(max(N // 12, 8)):
        sa, sb = BPAIRS[t % len(BPAIRS)]
        bs = tuple(np.broadcast_shapes(sa, sb))
        A, B, V = Quaternion(quat_data(sa, "nonunit")), Quaternion(quat_data(sb, "nonunit")), Vector3d(vec_data(sb))
        RA, RB = mk_rot(sa, flags=["mixed", "none", "all"][t % 3]), mk_rot(sb, flags=["none", "mixed", "mixed"][t % 3])
        Mb = mk_obj("Miller", sb)
        qa, qb = np.broadcast_to(A.data, bs + (4,)), np.broadcast_to(B.data, bs + (4,))
        ra, rb = np.broadcast_to(RA.data, bs + (4,)), np.broadcast_to(RB.data, bs + (4,))
        ia, ib = np.broadcast_to(RA.improper, bs), np.broadcast_to(RB.improper, bs)
        vb, mb = np.broadcast_to(V.data, bs + (3,)), np.broadcast_to(Mb.data, bs + (3,))
        sgn = np.where(ia, -1.0, 1.0)[..., None]
        refs = {
            "Quaternion*Quaternion": np.array([qmul_np(qa[i], qb[i]) for i in np.ndindex(*bs)]).reshape(bs + (4,)),
            "Quaternion*Vector3d": np.array([qrot_np(qa[i], vb[i]) for i in np.ndindex(*bs)]).reshape(bs + (3,)),
            "Quaternion*Miller": np.array([qrot_np(qa[i], mb[i]) for i in np.ndindex(*bs)]).reshape(bs + (3,)),
            "Quaternion.dot": np.sum(qa * qb, -1),
            "Rotation*Rotation": np.concatenate([np.array([qmul_np(ra[i], rb[i]) for i in np.ndindex(*bs)]).reshape(bs + (4,)),
                                                 np.logical_xor(ia, ib)[..., None].astype(float)], -1),
            "Rotation*Vector3d": sgn * np.array([qrot_np(ra[i], vb[i]) for i in np.ndindex(*bs)]).reshape(bs + (3,)),
            "Rotation*Quaternion": np.array([qmul_np(ra[i], qb[i]) for i in np.ndindex(*bs)]).reshape(bs + (4,)),
        }
        fs = {"Quaternion*Quaternion": lambda: A * B, "Quaternion*Vector3d": lambda: A * V, "Quaternion*Miller": lambda: A * Mb,
              "Quaternion.dot": lambda: A.dot(B), "Rotation*Rotation": lambda: RA * RB, "Rotation*Vector3d": lambda: RA * V,
              "Rotation*Quaternion": lambda: RA * B}
        st(f"broadcast/{len(sa)}x{len(sb)}")
        rep = {"sa": sa, "sb": sb, "A": A.data.tolist(), "B": B.data.tolist(), "V": V.data.tolist(), "RA": rot_json(RA),
               "RB": rot_json(RB), "miller_xyz": Mb.data.tolist()}
        for nm, f in fs.items():
            out = {}
            for backend in (True, False):
                set_backend(backend)
                r_, err = outcome(f)
                out[backend] = err if err else arr(r_)
                if nm == "Quaternion*Miller" and not err and not (hasattr(r_, "coordinate_format")
                                                                  and r_.coordinate_format == Mb.coordinate_format
                                                                  and r_.phase.point_group.name == Mb.phase.point_group.name):
                    fail(f"backend:broadcast:{nm}:kind", f"{nm} does not keep the phase / coordinate format "
                         f"(numpy-quaternion {backend})", rep)
            set_backend(True)
            a_, b_ = out[True], out[False]
            if isinstance(a_, str) or isinstance(b_, str):
                fail(f"backend:broadcast:{nm}:raises", f"{nm} on shapes {sa} and {sb}: numpy-quaternion {a_ if isinstance(a_, str) else 'returns'}, "
                     f"built-in {b_ if isinstance(b_, str) else 'returns'}", rep)
                continue
            if not close(b_, a_, 1e-9):
                fail(f"backend:broadcast:{nm}", f"{nm} on broadcast shapes {sa} and {sb} differs between numpy-quaternion "
                     f"(shape {a_.shape}) and the built-in kernels (shape {b_.shape})", rep)
            for backend, got in ((True, a_), (False, b_)):
                if not close(got, refs[nm], 1e-9):
                    fail(f"elementwise:broadcast:{nm}:{'npq' if backend else 'builtin'}", f"{nm} on broadcast shapes {sa} and "
                         f"{sb} is not the element-by-element product of the broadcast operands "
                         f"(got shape {got.shape}, expected {refs[nm].shape})", rep)
    set_backend(True)

    # ---- (8) INTEGER input (int64, int32, nested lists of ints) to the constructors from other representations, and
    # their keyword paths (degrees, direction, Rodrigues-Frank angles); above they only get float32 and the defaults
    def signed_perm():
        """a proper rotation matrix with entries 0, +-1"""
        p = list(range(3))
        R.shuffle(p)
        m = np.zeros((3, 3), dtype=np.int64)
        for r_, c_ in enumerate(p):
            m[r_, c_] = R.choice([-1, 1])
        if round(np.linalg.det(m)) < 0:
            m[0] = -m[0]
        return m

    def int_rows(n, dim, lo, hi):
        out = []
        while len(out) < n:
            r_ = [R.randint(lo, hi) for _ in range(dim)]
            if any(r_):
                out.append(r_)
        return np.array(out, dtype=np.int64)

    KW_FROM = [
        ("from_euler", {}, lambda n: int_rows(n, 3, -3, 6)), ("from_euler", {"degrees": True}, lambda n: int_rows(n, 3, -180, 360)),
        ("from_euler", {"direction": "crystal2lab"}, lambda n: int_rows(n, 3, -3, 6)),
        ("from_euler", {"direction": "MTEX", "degrees": True}, lambda n: int_rows(n, 3, -90, 270)),
        ("from_matrix", {}, lambda n: np.array([signed_perm() for _ in range(n)])),
        ("from_rodrigues", {}, lambda n: int_rows(n, 3, -3, 3)),
        ("from_homochoric", {}, lambda n: np.array([R.choice([[1, 0, 0], [0, -1, 0], [0, 0, 1], [-1, 0, 0], [0, 0, 0]])
                                                    for _ in range(n)], dtype=np.int64)),
    ]
    for t in range(max(N // 25, 4)):
        shape = SMALL[t % len(SMALL)]
        n = size(shape)
        itype = ["int64", "int32", "list"][t % 3]

        def as_int(d):
            return d.astype(np.int64).tolist() if itype == "list" else d.astype(itype)
        for cls in (Quaternion, Rotation, Orientation):
            for name, kw, gen in KW_FROM:
                d = gen(n).reshape(shape + ((3, 3) if name == "from_matrix" else (3,)))
                tag = name + "".join(f"[{a}={b}]" for a, b in kw.items())
                st(f"from-int/{tag}/{itype}")
                rep = {"cls": cls.__name__, "constructor": name, "kwargs": kw, "input": d.tolist(), "dtype": itype}
                (wf, ef), (wi, ei) = (outcome(lambda: getattr(cls, name)(d.astype(np.float64), **kw)),
                                      outcome(lambda: getattr(cls, name)(as_int(d), **kw)))
                if ef or ei:
                    if ef != ei:
                        fail(f"dtype:{cls.__name__}.{tag}:{itype}:raises", f"{cls.__name__}.{tag}: float64 input "
                             f"{ef or 'returns'}, the same values as {itype} {ei or 'returns'}", rep)
                    continue
                if not (wf.shape == wi.shape and close(wi.data, wf.data, 1e-9)):
                    fail(f"dtype:{cls.__name__}.{tag}:{itype}:mismatch", f"{cls.__name__}.{tag} on {itype} input differs from "
                         f"the same values given as float64", rep)
                # whole array vs element by element, on the keyword paths too
                ok = wf.shape == shape
                if ok:
                    for i in np.ndindex(*shape):
                        one = getattr(cls, name)(d[i].astype(np.float64)[None], **kw)
                        if not close(one.data.reshape(-1), wf.data[i].reshape(-1), 1e-12):
                            ok = False
                if not ok:
                    fail(f"elementwise:{cls.__name__}.{tag}", f"{cls.__name__}.{tag} of an array of shape {shape} differs "
                         f"from element-by-element evaluation", rep)
            # axis-angle pairs and Rodrigues-Frank vectors take two arrays
            ax, an = int_rows(n, 3, -3, 3).reshape(shape + (3,)), np.array([R.randint(-3, 3) for _ in range(n)]).reshape(shape)
            and_ = np.array([R.randint(-180, 180) for _ in range(n)]).reshape(shape)
            two = [("from_axes_angles", {}, ax, an), ("from_axes_angles", {"degrees": True}, ax, and_),
                   ("from_rodrigues[angles]", {}, ax, np.abs(an))]
            for name, kw, d1, d2 in two:
                tag = name + "".join(f"[{a}={b}]" for a, b in kw.items())
                fn = getattr(cls, name.split("[")[0])
                st(f"from-int/{tag}/{itype}")
                rep = {"cls": cls.__name__, "constructor": tag, "first": d1.tolist(), "second": d2.tolist(), "dtype": itype}
                if name.startswith("from_rodrigues"):
                    # `angles` must be an array there (list input is not part of its contract)
                    conv2 = (lambda x: x.astype(np.int64)) if itype == "list" else (lambda x: x.astype(itype))
                else:
                    conv2 = as_int
                (wf, ef), (wi, ei) = (outcome(lambda: fn(d1.astype(np.float64), d2.astype(np.float64), **kw)),
                                      outcome(lambda: fn(as_int(d1), conv2(d2), **kw)))
                if ef or ei:
                    if ef != ei:
                        fail(f"dtype:{cls.__name__}.{tag}:{itype}:raises", f"{cls.__name__}.{tag}: float64 input "
                             f"{ef or 'returns'}, the same values as {itype} {ei or 'returns'}", rep)
                    continue
                if not (wf.shape == wi.shape and close(wi.data, wf.data, 1e-9)):
                    fail(f"dtype:{cls.__name__}.{tag}:{itype}:mismatch", f"{cls.__name__}.{tag} on {itype} input differs from "
                         f"the same values given as float64", rep)
        # keyword paths of the conversions TO other representations, on a quaternion built from integers
        qi = grid_data(shape, 4, "int")
        for name, f in (("to_euler[degrees=True]", lambda q: q.to_euler(degrees=True)),
                        ("to_rodrigues[frank=True]", lambda q: q.to_rodrigues(frank=True)),
                        ("to_axes_angles", lambda q: np.concatenate([q.to_axes_angles().axis.data, q.to_axes_angles().angle[..., None]], -1))):
            st(f"from-int/{name}/{itype}")
            for backend in (True, False):
                set_backend(backend)
                (wf, ef), (wi, ei) = outcome(lambda: arr(f(Quaternion(qi.astype(np.float64))))), outcome(lambda: arr(f(Quaternion(as_int(qi)))))
                if not (ef or ei) and wf.shape == wi.shape and "rodrigues" in name:
                    # a half turn has an infinite Rodrigues-Frank length: the same entries must be infinite
                    inf_same = np.array_equal(np.isfinite(wf), np.isfinite(wi)) and np.array_equal(wf[~np.isfinite(wf)], wi[~np.isfinite(wi)])
                    wf, wi = np.where(np.isfinite(wf), wf, 0.0), np.where(np.isfinite(wi), wi, 0.0 if inf_same else 1.0)
                bad = (ef != ei) if (ef or ei) else not (wf.shape == wi.shape and close(
                    np.concatenate([np.cos(np.deg2rad(wi)), np.sin(np.deg2rad(wi))], -1) if "euler" in name else wi,
                    np.concatenate([np.cos(np.deg2rad(wf)), np.sin(np.deg2rad(wf))], -1) if "euler" in name else wf, 1e-9))
                if bad:
                    fail(f"dtype:Quaternion.{name}:{itype}:{'npq' if backend else 'builtin'}:{'raises' if (ef or ei) else 'mismatch'}",
                         f"Quaternion.{name} on {itype} data differs from the same values given as float64: "
                         f"{ei or ''} / {ef or ''}", {"q": qi.tolist(), "dtype": itype})
        set_backend(True)

emit({"cases": cases, "fails": fails, "strata": strata})
