"""C08 implementation harness: observations of the TSL IPF colour key on /repo's
working tree for the Coq correspondence, and the property oracle.

payload: {"seed": int, "n": directions per named point group, "no": orientations per group,
          "nk": kernel cases, "only": [group names] (optional, used by replay)}"""
import itertools
import math

import numpy as np
from common import emit, payload, rand_unit_quat, rand_vec, rng

import matplotlib.colors as mcolors
from orix.plot import DirectionColorKeyTSL, IPFColorKeyTSL
from orix.plot.direction_color_keys import _util
from orix.crystal_map import Phase
from orix.quaternion import Misorientation, Orientation, Rotation, symmetry
from orix.vector import Vector3d

P = payload()
R = rng(P.get("seed", 0))
N = P.get("n", 24)
NO = P.get("no", 6)
NK = P.get("nk", 120)
ONLY = P.get("only")

groups = []
fails = []
strata = {}
TOL_INV = 1e-4      # colours of equivalent directions (see design.d/C08.md: round(.,10) before arccos)


def st(k, n=1):
    strata[k] = strata.get(k, 0) + n


def fail(sig, what, rep):
    fails.append({"sig": sig, "what": what, "replay": rep})


def fl(a):
    return np.asarray(a, float).reshape(-1).tolist()


def unit(v):
    v = np.asarray(v, float)
    return v / np.linalg.norm(v)


# ------------------------------------------------------------------ kernels
hsv_cases = []
hsl_cases = []
grid = [0.0, 1.0, 0.5, 1 / 6, 2 / 6, 3 / 6, 4 / 6, 5 / 6, 1 / 3, 2 / 3, 1e-12, 1 - 1e-12, 0.999999]
for k in range(NK):
    if k < len(grid) * 3:
        h = grid[k % len(grid)]
        s = [1.0, 0.0, 0.37][k // len(grid)]
        v = [1.0, 0.6, 0.0][k // len(grid)]
        kind = "grid"
    else:
        h, s, v = R.random(), R.choice([R.random(), 1.0, 0.0]), R.choice([R.random(), 1.0])
        kind = "random"
    out = mcolors.hsv_to_rgb(np.array([h, s, v])).tolist()
    hsv_cases.append({"hsv": [h, s, v], "rgb": out})
    st(f"hsv/{kind}/sextant={min(int(h * 6), 6)}/s0={s == 0}")
for k in range(NK):
    if k < 12:
        h, s, l = [(0.3, 1.0, 0.5), (0.3, 1.0, 1.0), (0.3, 1.0, 0.0), (0.1, 0.0, 0.0), (0.2, 0.0, 0.7),
                   (0.9, 1.0, 0.75), (0.5, 0.5, 0.5), (0.5, 0.5, 0.25), (0.0, 1.0, 0.5000000001),
                   (0.0, 1.0, 0.4999999999), (1.0, 0.3, 1.0), (0.7, 0.0, 1.0)][k]
        kind = "grid"
    else:
        h, s, l = R.random(), R.choice([R.random(), 1.0, 1.0]), R.choice([R.random(), 0.5 + R.random() / 2])
        kind = "random"
    with np.errstate(all="ignore"):
        o = _util.hsl_to_hsv(np.array([h]), np.array([s]), np.array([l]))
    hsl_cases.append({"hsl": [h, s, l], "out": [float(o[0][0]), float(o[1][0]), float(o[2][0])]})
    st(f"hsl/{kind}/upper={2 * l > 1}/nan={(2 * l == 0)}")

# ----------------------------------------------------- cases per point group
SHAPES = [(1,), (4,), (2, 3), (2, 1, 2), (3, 1)]
# audit strata (sections (7)-(13) below): shapes with an empty axis / four axes, the combinations of
# (improper flag) x (how the sample direction is given) x (class / symmetry of the orientation object) cycled
# deterministically, Laue-class twins, space-group route to the point group
SHAPES_EXTRA = [(0,), (2, 0), (1, 2, 1, 2)]
ORI_COMBOS = [(imp, dk, oc) for imp in (False, True) for dk in ("default", "x", "nonunit", "int")
              for oc in ("same", "C1", "other", "rotation", "misorientation")]
NCOMBO = 5          # combinations per point group; 38 groups x 5 cover the 40 combinations ~4.75 times
SG_OF = {}
for _n in range(1, 231):
    SG_OF.setdefault(symmetry.get_point_group(_n).name, _n)
TWINS = {}          # (Laue name, canonical element set) -> (first point group, directions, colours)
TWIN_DIRS = np.array([unit(rand_vec(R)) for _ in range(8)])
GI = 0


def rot_ref(q, d, imp):
    """numpy reference for (improper) rotation q acting on d: q d q^-1, negated if improper"""
    q = np.asarray(q, float)
    d = np.asarray(d, float)
    a, u = q[0], q[1:]
    w = d + 2 * a * np.cross(u, d) + 2 * np.cross(u, np.cross(u, d))
    return -w if imp else w


def canon_elements(S):
    out = []
    for q, i in zip(S.data.reshape(-1, 4), S.improper.reshape(-1)):
        q = np.round(q, 6) + 0.0
        nz = q[np.abs(q) > 1e-6]
        if nz.size and nz[0] < 0:
            q = -q
        out.append(tuple((q + 0.0).tolist()) + (bool(i),))
    return tuple(sorted(out))


def classify(ck, L, fs, v, w):
    """why do two equivalent directions v, w get different colours"""
    hv = v.in_fundamental_sector(L)
    hw = w.in_fundamental_sector(L)
    inv = bool((hv <= fs).all())
    inw = bool((hw <= fs).all())
    if not (inv and inw):
        return "outside-sector"
    if np.abs(hv.unit.data - hw.unit.data).max() > 1e-6:
        return "two-in-sector"
    return "other"


def near_boundary(fs, h, eps=1e-6):
    d = fs.dot_outer(h.unit)
    return np.any(np.abs(d) < eps, axis=0)


for g in symmetry._groups:
    if ONLY and g.name not in ONLY:
        continue
    L = g.laue
    fs = L.fundamental_sector
    ck = DirectionColorKeyTSL(g)
    center = fs.center
    verts = fs.vertices
    normals = fs
    cu = center.unit
    nv = verts.size
    rx = (Vector3d.xvector() if nv == 0 else Vector3d.zvector()) - cu
    az2 = np.linspace(0, 2 * np.pi, 1000)
    tbl = _util._correct_azimuth(az2.copy(), fs, rx).tolist() if nv != 0 else []
    G = {"q": L.data.reshape(-1, 4).tolist(), "imp": L.improper.reshape(-1).astype(int).tolist()}
    entry = {"group": g.name, "laue": L.name, "G": G, "normals": normals.data.reshape(-1, 3).tolist(),
             "center": fl(center.data), "verts": verts.data.reshape(-1, 3).tolist(), "tbl": tbl,
             "dirs": [], "oris": []}

    # ---- directions, by stratum
    dirs = []
    for k in range(N):
        kind = ["generic", "generic", "scaled", "insector", "equiv"][k % 5]
        if kind == "generic":
            v = unit(rand_vec(R))
        elif kind == "scaled":
            v = np.array(rand_vec(R)) * R.choice([1e-3, 0.05, 7.0, 300.0])
        elif kind == "insector":
            # pull a random direction towards the centre, keep it if inside
            v = unit(unit(rand_vec(R)) * R.choice([0.02, 0.2, 0.6]) + cu.data.reshape(3))
        else:
            base = dirs[-1][1] if dirs else unit(rand_vec(R))
            s = L[R.randrange(L.size)]
            v = (s * Vector3d(base)).data.reshape(3)
        dirs.append((kind, np.asarray(v, float)))
    special = [("center", cu.data.reshape(3)), ("center-nonunit", center.data.reshape(3) * 1.0)]
    for i in range(nv):
        special.append(("vertex", verts[i].data.reshape(3)))
    for i in range(normals.size):
        # exact-ish boundary points: project an interior point onto the plane of normal i
        n = unit(normals[i].data.reshape(3))
        p = unit(cu.data.reshape(3) + 0.3 * np.array(rand_vec(R)))
        b = unit(p - np.dot(p, n) * n)
        special.append(("boundary", b))
    for i, j in itertools.combinations(range(nv), 2):
        a, b = verts[i].data.reshape(3), verts[j].data.reshape(3)
        t = R.choice([0.5, R.random()])
        special.append(("edge", unit(t * a + (1 - t) * b)))
    axes = [(1, 0, 0), (0, 1, 0), (0, 0, 1), (0, 0, -1), (1, 1, 0), (1, 0, 1), (0, 1, 1), (1, 1, 1), (-1, 1, 0),
            (1, -1, 1), (-1, -1, -1), (2, 1, 0), (1, 2, 3)]
    for a in (axes if N >= 20 else axes[:6]):
        special.append(("lowindex", np.array(a, float)))
    if L.name == "m-3":
        # fixed directions just across the plane x = z of the hand-set m-3 sector (design-phase finding):
        # their projection lands outside the sector
        special.append(("m-3-band", np.array([0.6933, 0.2008, 0.6921])))
        special.append(("m-3-band", np.array([-0.7057, 0.7053, 0.0669])))
    dirs += special

    V = Vector3d(np.array([d[1] for d in dirs]))
    with np.errstate(all="ignore"):
        H = V.in_fundamental_sector(L)
        AZ, PO = _util.polar_coordinates_in_sector(fs, H)
        RGB = ck.direction2color(V)
    for (kind, v), h, az, po, rgb in zip(dirs, H.data, AZ, PO, RGB):
        entry["dirs"].append({"tag": kind, "v": fl(v), "h": fl(h), "az": float(az), "pol": float(po), "rgb": fl(rgb)})
        st(f"dir/{kind}")
    st(f"group/laue={L.name}/order={L.size}/normals={normals.size}/vertices={nv}")

    # ---- orientations
    for k in range(NO):
        q = rand_unit_quat(R)
        imp = (k % 3 == 2)
        d = [(0, 0, 1), (1, 0, 0), tuple(unit(rand_vec(R)))][k % 3]
        o = Orientation(q, symmetry=g)
        if imp:
            o.improper = np.array([True])
        key = IPFColorKeyTSL(g, direction=Vector3d(d))
        rgb = key.orientation2color(o)
        entry["oris"].append({"q": q, "imp": int(imp), "d": list(map(float, d)), "rgb": fl(rgb)})
        st(f"ori/improper={imp}/dir={'z' if k % 3 == 0 else 'x' if k % 3 == 1 else 'random'}")
        # oracle: orientation colour = direction colour of o*d, default direction is z
        ref = ck.direction2color(o * Vector3d(d))
        if not np.array_equal(ref, rgb):
            fail(f"orientation2color:{g.name}", "orientation2color(o) differs from direction2color(o * direction)",
                 {"group": g.name, "q": q, "imp": int(imp), "d": d})
        if k % 3 == 0 and not np.array_equal(IPFColorKeyTSL(g).orientation2color(o), rgb):
            fail(f"orientation2color:default-direction:{g.name}", "default sample direction is not z",
                 {"group": g.name, "q": q})
    groups.append(entry)

    # ------------------------------------------------------------- oracle
    # (1) finite RGB in [0,1], shape = input shape + (3,)
    for shp in SHAPES:
        n = int(np.prod(shp))
        arr = Vector3d(np.array([rand_vec(R, R.choice([0.1, 1, 20])) for _ in range(n)]).reshape(shp + (3,)))
        c = ck.direction2color(arr)
        st(f"oracle/shape/ndim={len(shp)}")
        if c.shape != shp + (3,):
            fail(f"shape:direction2color:{g.name}", f"colour array has shape {c.shape} for directions of shape {shp}",
                 {"group": g.name, "shape": shp, "v": arr.data.tolist()})
        elif not (np.isfinite(c).all() and c.min() >= 0 and c.max() <= 1):
            fail(f"range:direction2color:{g.name}", f"colour not a finite RGB in [0,1]: min {c.min()} max {c.max()}",
                 {"group": g.name, "v": arr.data.tolist()})
        else:
            # (C-order element list; Object3d.flatten() is NOT used: it enumerates in another order)
            flat = ck.direction2color(Vector3d(arr.data.reshape(-1, 3)))
            if not np.array_equal(flat.reshape(shp + (3,)), c):
                fail(f"shape:layout:{g.name}", "colour of a reshaped array is not the reshaped colour array",
                     {"group": g.name, "shape": shp, "v": arr.data.tolist()})
        q = np.array([rand_unit_quat(R) for _ in range(n)]).reshape(shp + (4,))
        co = IPFColorKeyTSL(g).orientation2color(Orientation(q, symmetry=g))
        if co.shape != shp + (3,) or not (np.isfinite(co).all() and co.min() >= 0 and co.max() <= 1):
            fail(f"shape:orientation2color:{g.name}", f"orientation colours: shape {co.shape} for {shp}, "
                 f"range [{co.min()}, {co.max()}]", {"group": g.name, "shape": shp, "q": q.tolist()})
    c_special = RGB[N:]
    if not (np.isfinite(RGB).all() and RGB.min() >= 0 and RGB.max() <= 1):
        bad = int(np.argmax(~np.isfinite(RGB).all(axis=-1) | (RGB.min(axis=-1) < 0) | (RGB.max(axis=-1) > 1)))
        fail(f"range:direction2color:{g.name}:{dirs[bad][0]}", f"colour of a {dirs[bad][0]} direction is not a finite RGB in [0,1]: {RGB[bad]}",
             {"group": g.name, "v": fl(dirs[bad][1])})

    # (2) invariance under every element of the Laue group, directions
    nb = near_boundary(fs, H)
    for idx in range(len(dirs)):
        kind, v = dirs[idx]
        if kind in ("center", "center-nonunit", "vertex", "boundary", "edge", "lowindex") or nb[idx]:
            continue   # invariance is claimed off the sector boundary (C07)
        vv = Vector3d(v)
        eq = L * vv
        ce = ck.direction2color(eq)
        dev = np.abs(ce - RGB[idx]).max(axis=-1)
        st("oracle/invariance/direction", L.size)
        if dev.max() > TOL_INV:
            j = int(np.argmax(dev))
            cls = classify(ck, L, fs, vv, eq[j])
            fail(f"invariance:direction:{g.name}:{cls}",
                 f"IPF colour of direction {fl(v)} is {fl(RGB[idx])} but its equivalent under element {j} of the "
                 f"Laue group {L.name} of point group {g.name} gets {fl(ce[j])}",
                 {"group": g.name, "v": fl(v), "element": j, "element_quat": fl(L[j].data),
                  "element_improper": bool(L[j].improper[0]), "colour": fl(RGB[idx]), "colour_equivalent": fl(ce[j])})
    # (3) colour depends only on the projected direction
    keep = ~nb
    with np.errstate(all="ignore"):
        CH = ck.direction2color(H)
    dev = np.abs(CH - RGB).max(axis=-1)
    dev[~keep] = 0
    st("oracle/projected", int(keep.sum()))
    if dev.max() > TOL_INV:
        j = int(np.argmax(dev))
        cls = "outside-sector" if not bool((H[j] <= fs).all()) else "other"
        fail(f"projected:{g.name}:{cls}",
             f"colour of {fl(dirs[j][1])} differs from the colour of its projection {fl(H.data[j])} into the sector of {L.name}",
             {"group": g.name, "v": fl(dirs[j][1]), "h": fl(H.data[j])})
    # (4) invariance for orientations: s*o for s in the Laue group (left multiplication acts on the crystal direction)
    for k in range(max(2, NO // 2)):
        q = rand_unit_quat(R)
        o = Orientation(q, symmetry=g)
        d = Vector3d([(0, 0, 1), tuple(unit(rand_vec(R)))][k % 2])
        key = IPFColorKeyTSL(g, direction=d)
        c0 = key.orientation2color(o)[0]
        h = (o * d).in_fundamental_sector(L)
        if near_boundary(fs, h)[0]:
            continue
        eq = Orientation((Rotation(L) * Rotation(q)), symmetry=g)
        ce = key.orientation2color(eq)
        dev = np.abs(ce - c0).max(axis=-1)
        st("oracle/invariance/orientation", L.size)
        if dev.max() > TOL_INV:
            j = int(np.argmax(dev))
            cls = classify(ck, L, fs, o * d, eq[j] * d)
            fail(f"invariance:orientation:{g.name}:{cls}",
                 f"IPF colour of orientation {q} (sample direction {fl(d.data)}) is {fl(c0)} but the equivalent "
                 f"orientation S[{j}]*o under the Laue group {L.name} of {g.name} gets {fl(ce[j])}",
                 {"group": g.name, "q": q, "d": fl(d.data), "element": j})
    # (5) position in the sector: centre white and the unique lightest point, boundary fully saturated
    cc = ck.direction2color(cu)[0]
    if np.abs(cc - 1).max() > 1e-9:
        fail(f"centre:white:{g.name}", f"sector centre of {L.name} is not white: {fl(cc)}", {"group": g.name, "v": fl(cu.data)})
    light = (RGB.max(axis=-1) + RGB.min(axis=-1)) / 2
    exp_l = 0.5 + PO / 2
    if np.abs(light - exp_l).max() > 1e-9:
        j = int(np.argmax(np.abs(light - exp_l)))
        fail(f"lightness:{g.name}", f"HSL lightness of the colour ({light[j]}) is not 0.5 + polar/2 ({exp_l[j]})",
             {"group": g.name, "v": fl(dirs[j][1])})
    away = np.array([np.abs(unit(h) - cu.data.reshape(3)).max() > 1e-4 for h in H.data])
    if away.any() and light[away].max() >= 1 - 1e-12:
        j = int(np.argmax(np.where(away, light, 0)))
        fail(f"centre:lightest:{g.name}", f"direction {fl(dirs[j][1])} away from the centre is as light as the centre",
             {"group": g.name, "v": fl(dirs[j][1])})
    if not (PO.min() >= 0 and PO.max() <= 1):
        j = int(np.argmax(np.maximum(PO - 1, -PO)))
        fail(f"polar-range:{g.name}", f"polar coordinate {PO[j]} outside [0,1]", {"group": g.name, "v": fl(dirs[j][1])})
    for (kind, v), po, rgb, h in zip(dirs, PO, RGB, H.data):
        onb = np.abs(fs.unit.dot_outer(Vector3d(h).unit)).min() < 1e-9
        if kind in ("vertex", "boundary", "edge") and onb and bool((Vector3d(h) <= fs).all()):
            st("oracle/boundary-saturated")
            if not (abs(rgb.max() - 1) < 1e-4 and abs(rgb.min()) < 1e-4):
                fail(f"boundary:saturated:{g.name}:{kind}", f"{kind} direction {fl(v)} of the sector is not fully "
                     f"saturated: {fl(rgb)} (polar {po})", {"group": g.name, "v": fl(v)})
    # (6) the corners of a three-vertex key are red, green, blue (north pole red), to the table's resolution
    if nv == 3:
        cv = ck.direction2color(verts)
        order = np.argsort(_util._calculate_azimuth(cu, rx, verts))
        want = np.eye(3)
        st("oracle/corners")
        if np.abs(verts[order[0]].data - [0, 0, 1]).max() < 1e-9:
            for i, nm in enumerate(["red", "green", "blue"]):
                if np.abs(cv[order[i]] - want[i]).max() > 2e-2:
                    fail(f"corner:{nm}:{g.name}", f"vertex {fl(verts[order[i]].data)} of the {L.name} key is {fl(cv[order[i]])}, expected {nm}",
                         {"group": g.name, "v": fl(verts[order[i]].data)})

    # ======================================================= audit strata (7)-(13)
    gi = GI
    GI += 1

    def nbv(vec):
        """is the projection of each vector of `vec` next to the sector boundary (bool array of vec.shape)"""
        with np.errstate(all="ignore"):
            return near_boundary(fs, vec.in_fundamental_sector(L))

    def bad_rgb(c):
        return not (np.isfinite(c).all() and c.min() >= 0 and c.max() <= 1)

    # (7) other routes to the same key: the Laue group given directly, its own Laue group, the point group of a
    #     Phase (given as point group and, where the name is a standard setting, as space group), the direction
    #     colour key held by an IPFColorKeyTSL -- all must carry the Laue group of g and give identical colours
    v7 = Vector3d(np.array([unit(rand_vec(R)) for _ in range(6)]))
    v7_before = v7.data.copy()
    c7 = ck.direction2color(v7)
    nb7 = nbv(v7)
    routes = [("laue", lambda: DirectionColorKeyTSL(L)),
              ("laue-of-laue", lambda: DirectionColorKeyTSL(L.laue)),
              ("phase-point-group", lambda: DirectionColorKeyTSL(Phase(point_group=g).point_group)),
              ("ipf-key", lambda: IPFColorKeyTSL(g).direction_color_key),
              ("ipf-key-laue", lambda: IPFColorKeyTSL(L, direction=Vector3d.xvector()).direction_color_key)]
    if g.name in SG_OF:
        routes.append(("phase-space-group",
                       lambda: DirectionColorKeyTSL(Phase(space_group=SG_OF[g.name]).point_group)))
    for nm, mk in routes:
        k2 = mk()
        c2 = k2.direction2color(v7)
        st(f"oracle/route/{nm}")
        if k2.symmetry.name != L.name or canon_elements(k2.symmetry) != canon_elements(L):
            fail(f"route:{nm}:symmetry:{g.name}",
                 f"colour key obtained via '{nm}' for point group {g.name} carries symmetry {k2.symmetry.name} with "
                 f"{k2.symmetry.size} elements, not the Laue group {L.name} ({L.size} elements)",
                 {"group": g.name, "route": nm, "space_group": SG_OF.get(g.name)})
        else:
            dev = np.abs(c2 - c7).max(axis=-1)
            dev[nb7] = 0
            if dev.max() > 1e-9:
                j = int(np.argmax(dev))
                fail(f"route:{nm}:colour:{g.name}",
                     f"colour key obtained via '{nm}' for point group {g.name} colours {fl(v7.data[j])} as {fl(c2[j])}, "
                     f"DirectionColorKeyTSL({g.name}) as {fl(c7[j])}",
                     {"group": g.name, "route": nm, "v": fl(v7.data[j]), "space_group": SG_OF.get(g.name)})

    # (8) integer-dtype directions = the same directions as floats; the input is not modified; a second call and a
    #     call with one element alone give the same colours
    ints = np.array([[R.randint(-4, 4) for _ in range(3)] for _ in range(6)])
    ints[~ints.any(axis=1)] = [0, 0, 1]
    ints[0] = [[0, 0, 1], [1, 0, 1], [1, 1, 1], [-1, 2, 0], [1, -1, 0], [2, 1, -3]][gi % 6]
    vi = Vector3d(ints.copy())
    with np.errstate(all="ignore"):
        ci = ck.direction2color(vi)
        cf = ck.direction2color(Vector3d(ints.astype(float)))
    st(f"oracle/dtype/kind={vi.data.dtype.kind}")
    if ci.shape != cf.shape or not np.array_equal(ci, cf) or bad_rgb(ci):
        j = int(np.argmax(np.abs(ci - cf).max(axis=-1))) if ci.shape == cf.shape else 0
        fail(f"dtype:int:direction2color:{g.name}",
             f"integer-dtype direction {ints[j].tolist()} is coloured {fl(ci[j]) if ci.shape == cf.shape else ci.shape}, "
             f"the same direction as floats {fl(cf[j])}", {"group": g.name, "v": ints.tolist(), "dtype": str(ints.dtype)})
    if not np.array_equal(vi.data, ints) or vi.data.dtype != ints.dtype or not np.array_equal(v7.data, v7_before):
        fail(f"history:input-mutated:direction2color:{g.name}", "direction2color modified its input vectors",
             {"group": g.name, "v_int": ints.tolist(), "v": v7_before.tolist()})
    c7b = ck.direction2color(v7)
    st("oracle/history/repeat")
    if not np.array_equal(c7b, c7):
        fail(f"history:repeat:direction2color:{g.name}", "a second call of direction2color on the same key and "
             "vectors gives other colours", {"group": g.name, "v": v7_before.tolist()})
    for j in (gi % 6, (gi + 3) % 6):
        c1 = ck.direction2color(Vector3d(v7_before[j])).reshape(-1)
        st("oracle/batch-vs-single")
        if c1.size != 3 or (not nb7[j] and np.abs(c1 - c7[j]).max() > TOL_INV):
            fail(f"batch:single:direction2color:{g.name}",
                 f"direction {fl(v7_before[j])} alone is coloured {fl(c1)}, as element {j} of an array {fl(c7[j])}",
                 {"group": g.name, "v": v7_before.tolist(), "index": j})

    # (9) positive scaling; equivalents NOT obtained from Symmetry.laue: the antipode and the images under the
    #     point group's own elements and their negatives (= the Laue group by definition)
    v9 = np.array([unit(rand_vec(R)) for _ in range(2)])
    nb9 = nbv(Vector3d(v9))
    c9 = ck.direction2color(Vector3d(v9))
    scales = [1e-3, 0.05, 7.0, 300.0]
    for j in range(len(v9)):
        if nb9[j]:
            continue
        cs = ck.direction2color(Vector3d(np.array([v9[j] * s for s in scales])))
        st("oracle/scale", len(scales))
        if np.abs(cs - c9[j]).max() > TOL_INV:
            i = int(np.argmax(np.abs(cs - c9[j]).max(axis=-1)))
            fail(f"scale:direction2color:{g.name}",
                 f"direction {fl(v9[j])} is coloured {fl(c9[j])}, the same direction scaled by {scales[i]} {fl(cs[i])}",
                 {"group": g.name, "v": fl(v9[j]), "scale": scales[i]})
        gv = (g * Vector3d(v9[j])).data.reshape(-1, 3)
        own = np.vstack([-v9[j][None], gv, -gv])
        ce = ck.direction2color(Vector3d(own))
        dev = np.abs(ce - c9[j]).max(axis=-1)
        st("oracle/invariance/own-elements", len(own))
        if dev.max() > TOL_INV:
            i = int(np.argmax(dev))
            cls = classify(ck, L, fs, Vector3d(v9[j]), Vector3d(own[i]))
            how = "its antipode" if i == 0 else (f"its image under element {(i - 1) % g.size} of the point group "
                                                 f"{g.name}" + (" negated" if i > g.size else ""))
            fail(f"invariance:direction:{g.name}:{cls}",
                 f"IPF colour of direction {fl(v9[j])} is {fl(c9[j])} but {how}, {fl(own[i])}, gets {fl(ce[i])} "
                 f"(key of point group {g.name}, Laue group {L.name})",
                 {"group": g.name, "v": fl(v9[j]), "equivalent": fl(own[i]), "colour": fl(c9[j]),
                  "colour_equivalent": fl(ce[i])})

    # (10) point groups with the same Laue group (same element set) share one key
    tkey = canon_elements(L)
    with np.errstate(all="ignore"):
        ct = ck.direction2color(Vector3d(TWIN_DIRS))
    with np.errstate(all="ignore"):
        ht = Vector3d(TWIN_DIRS).in_fundamental_sector(L)
    if tkey in TWINS:
        g0, c0t, h0t = TWINS[tkey]
        dev = np.abs(ct - c0t).max(axis=-1)
        dev[near_boundary(fs, ht) | near_boundary(fs, h0t)] = 0
        st("oracle/laue-class-twin")
        if dev.max() > TOL_INV:
            j = int(np.argmax(dev))
            # the two keys differ only in the ORDER of the Laue elements; the same direction is then folded onto
            # two different equivalents h0, h1: the same defect class as a failed invariance under a Laue element
            # (signature of that stratum); anything else keeps its own signature
            if not (bool((h0t[j] <= fs).all()) and bool((ht[j] <= fs).all())):
                cls = "outside-sector"
            elif np.abs(h0t[j].unit.data - ht[j].unit.data).max() > 1e-6:
                cls = "two-in-sector"
            else:
                cls = "other"
            fail(f"invariance:direction:{g.name}:{cls}" if cls != "other" else f"laue-class:twin:{g.name}",
                 f"point groups {g0} and {g.name} have the same Laue group {L.name} (same elements, other order) but "
                 f"colour {fl(TWIN_DIRS[j])} as {fl(c0t[j])} and {fl(ct[j])}: it is folded to the equivalent "
                 f"directions {fl(h0t.data[j])} and {fl(ht.data[j])}",
                 {"group": g.name, "group0": g0, "v": fl(TWIN_DIRS[j]), "h0": fl(h0t.data[j]), "h": fl(ht.data[j])})
    else:
        TWINS[tkey] = (g.name, ct, ht)

    # (11) orientations: (improper flag) x (sample direction default / positional x / non-unit keyword / integer
    #      dtype with the Laue group given) x (Orientation with symmetry g / without / with another group /
    #      Rotation / Misorientation), cycled; reference = numpy rotation of the sample direction; equivalents:
    #      the flipped improper flag and every Laue element from the left
    other_g = symmetry._groups[(gi * 5 + 11) % len(symmetry._groups)]
    for k in range(NCOMBO):
        cnt = gi * NCOMBO + k
        imp, dk, oc = ORI_COMBOS[(cnt * 7) % len(ORI_COMBOS)]
        q = rand_unit_quat(R)
        if oc == "same":
            obj = Orientation(q, symmetry=g)
        elif oc == "C1":
            obj = Orientation(q)
        elif oc == "other":
            obj = Orientation(q, symmetry=other_g)
        elif oc == "rotation":
            obj = Rotation(q)
        else:
            obj = Misorientation(q, symmetry=(g, other_g))
        if imp:
            obj.improper = np.array([True])
        if dk == "default":
            d = np.array([0.0, 0.0, 1.0])
            key = IPFColorKeyTSL(g)
        elif dk == "x":
            d = np.array([1.0, 0.0, 0.0])
            key = IPFColorKeyTSL(g, Vector3d.xvector())
        elif dk == "nonunit":
            d = np.array(rand_vec(R), float) * R.choice([1e-2, 0.3, 40.0])
            key = IPFColorKeyTSL(g, direction=Vector3d(d))
        else:
            d = np.array([[1, -2, 2], [0, 1, 1], [-1, -1, 3], [2, 0, -1]][cnt % 4])
            key = IPFColorKeyTSL(L, direction=Vector3d(d.copy()))
            d = d.astype(float)
        qb, ib, db = obj.data.copy(), obj.improper.copy(), key.direction.data.copy()
        c0 = key.orientation2color(obj)
        st(f"oracle/ori-combo/improper={imp}/dir={dk}/obj={oc}")
        sigc = f"{g.name}:{oc}:{dk}:improper={imp}"
        rep = {"group": g.name, "q": q, "imp": int(imp), "d": fl(d), "object": oc, "direction_kind": dk,
               "other_group": other_g.name}
        if c0.shape != (1, 3) or bad_rgb(c0):
            fail(f"range:orientation2color:{sigc}", f"orientation colour has shape {c0.shape}, values {fl(c0)}", rep)
            continue
        if not (np.array_equal(obj.data, qb) and np.array_equal(obj.improper, ib)
                and np.array_equal(key.direction.data, db)):
            fail(f"history:input-mutated:orientation2color:{g.name}", "orientation2color modified the orientation or "
                 "the sample direction of the key", rep)
        vref = rot_ref(q, d, imp)
        Vref = Vector3d(vref)
        if nbv(Vref)[0]:
            continue
        cref = ck.direction2color(Vref)[0]
        if np.abs(cref - c0[0]).max() > TOL_INV:
            fail(f"orientation2color:reference:{sigc}",
                 f"orientation {q} (improper={imp}, {oc}) with sample direction {fl(d)} is coloured {fl(c0)}; the "
                 f"rotated direction {fl(vref)} (numpy) is coloured {fl(cref)}", rep)
        eq = Rotation(L) * obj
        ce = np.vstack([key.orientation2color(-obj), key.orientation2color(eq)])
        dev = np.abs(ce - c0[0]).max(axis=-1)
        st("oracle/invariance/orientation-combo", L.size + 1)
        if dev.max() > TOL_INV:
            j = int(np.argmax(dev))
            w = Vector3d(-vref) if j == 0 else L[j - 1] * Vref
            cls = classify(ck, L, fs, Vref, w)
            how = "with the improper flag flipped" if j == 0 else f"S[{j - 1}]*o under the Laue group {L.name}"
            fail(f"invariance:orientation:{g.name}:{cls}",
                 f"IPF colour of orientation {q} (improper={imp}, {oc}, sample direction {fl(d)}) is {fl(c0)} but "
                 f"the equivalent orientation {how} of {g.name} gets {fl(ce[j])}", dict(rep, element=j - 1))

    # (12) orientations that take the sample direction z exactly onto special points of the sector
    zc = cu.data.reshape(3)
    tgt = [("identity", np.array([0.0, 0.0, 1.0])), ("to-centre", zc)]
    if nv:
        tgt.append(("to-vertex", unit(verts[gi % nv].data.reshape(3))))
    for nm, t in tgt:
        ax = np.cross([0.0, 0.0, 1.0], t)
        if np.linalg.norm(ax) < 1e-12:
            qs = [1.0, 0.0, 0.0, 0.0] if t[2] > 0 else [0.0, 1.0, 0.0, 0.0]
        else:
            ang = math.acos(max(-1.0, min(1.0, float(t[2]))))
            qs = [math.cos(ang / 2)] + (math.sin(ang / 2) * unit(ax)).tolist()
        cs_ = IPFColorKeyTSL(g).orientation2color(Orientation(qs, symmetry=g))
        st(f"oracle/ori-special/{nm}")
        rep = {"group": g.name, "q": qs, "d": [0.0, 0.0, 1.0], "target": fl(t)}
        if cs_.shape != (1, 3) or bad_rgb(cs_):
            fail(f"range:orientation2color:{g.name}:{nm}", f"orientation taking z to the {nm} point {fl(t)} is "
                 f"coloured {fl(cs_)}", rep)
        elif nm == "identity" and not np.array_equal(cs_, ck.direction2color(Vector3d.zvector())):
            fail(f"orientation2color:special:{g.name}:identity", f"identity orientation is coloured {fl(cs_)}, the "
                 f"direction z {fl(ck.direction2color(Vector3d.zvector()))}", rep)
        elif nm == "to-centre" and np.abs(cs_ - 1).max() > 1e-4:
            fail(f"orientation2color:special:{g.name}:to-centre", f"orientation taking z to the sector centre "
                 f"{fl(t)} is coloured {fl(cs_)}, not white", rep)

    # (13) empty arrays and four axes; orientation arrays with several axes against the outer product with the
    #      Laue group
    for shp in SHAPES_EXTRA:
        n = int(np.prod(shp))
        arr = np.array([rand_vec(R) for _ in range(n)], float).reshape(shp + (3,))
        qq = np.array([rand_unit_quat(R) for _ in range(n)], float).reshape(shp + (4,))
        st(f"oracle/shape/{'empty' if n == 0 else 'ndim=%d' % len(shp)}")
        try:
            c = ck.direction2color(Vector3d(arr))
            co = IPFColorKeyTSL(g).orientation2color(Orientation(qq, symmetry=g))
        except Exception as ex:  # noqa
            fail(f"shape:raises:{g.name}", f"colouring directions / orientations of shape {shp} raised "
                 f"{type(ex).__name__}: {ex}", {"group": g.name, "shape": shp, "v": arr.tolist(), "q": qq.tolist()})
            continue
        if c.shape != shp + (3,):
            fail(f"shape:direction2color:{g.name}", f"colour array has shape {c.shape} for directions of shape {shp}",
                 {"group": g.name, "shape": shp, "v": arr.tolist()})
        elif n and (bad_rgb(c) or not np.array_equal(
                ck.direction2color(Vector3d(arr.reshape(-1, 3))).reshape(shp + (3,)), c)):
            fail(f"shape:layout:{g.name}", "colour of a reshaped array is not the reshaped colour array",
                 {"group": g.name, "shape": shp, "v": arr.tolist()})
        if co.shape != shp + (3,) or (n and bad_rgb(co)):
            fail(f"shape:orientation2color:{g.name}", f"orientation colours: shape {co.shape} for {shp}",
                 {"group": g.name, "shape": shp, "q": qq.tolist()})
    shp = (2, 1, 2)
    qq = np.array([rand_unit_quat(R) for _ in range(4)], float).reshape(shp + (4,))
    dd = [Vector3d.zvector(), Vector3d.yvector()][gi % 2]
    key = IPFColorKeyTSL(g, direction=dd)
    o = Orientation(qq, symmetry=g)
    c0 = key.orientation2color(o)
    ce = key.orientation2color(Rotation(L).outer(Rotation(qq)))
    st("oracle/invariance/orientation-nd", L.size * 4)
    if c0.shape != shp + (3,) or ce.shape != (L.size,) + shp + (3,):
        fail(f"shape:orientation2color:{g.name}", f"orientation colours: shapes {c0.shape}, {ce.shape} for {shp} and "
             f"its outer product with the Laue group", {"group": g.name, "shape": shp, "q": qq.tolist()})
    else:
        dev = np.abs(ce - c0[None]).max(axis=-1)
        dev[:, nbv(o * dd)] = 0
        if dev.max() > TOL_INV:
            j = np.unravel_index(int(np.argmax(dev)), dev.shape)
            qj = qq[j[1:]].tolist()
            vj = Vector3d(rot_ref(qj, dd.data.reshape(3), False))
            cls = classify(ck, L, fs, vj, L[j[0]] * vj)
            fail(f"invariance:orientation:{g.name}:{cls}",
                 f"IPF colour of orientation {qj} (element {j[1:]} of an array of shape {shp}, sample direction "
                 f"{fl(dd.data)}) is {fl(c0[j[1:]])} but S[{j[0]}]*o under the Laue group {L.name} of {g.name} "
                 f"(outer product) gets {fl(ce[j])}",
                 {"group": g.name, "q": qj, "d": fl(dd.data), "element": int(j[0])})

# -------------------------------------------------- the cubic key, exact corners
if not ONLY or "m-3m" in ONLY:
    ck = DirectionColorKeyTSL(symmetry.Oh)
    c = ck.direction2color(Vector3d([[0, 0, 1], [1, 0, 1], [1, 1, 1]]))
    cubic = {"corners": c.tolist()}
    for i, (nm, hkl) in enumerate([("red", "001"), ("green", "101"), ("blue", "111")]):
        st("oracle/cubic-corner")
        if np.abs(c[i] - np.eye(3)[i]).max() > 2e-2:
            fail(f"cubic:corner:{hkl}", f"[{hkl}] of the m-3m key is {fl(c[i])}, expected {nm} within 2e-2", {"group": "m-3m", "hkl": hkl})
        for g2 in (symmetry.O, symmetry.Td):
            c2 = DirectionColorKeyTSL(g2).direction2color(Vector3d([[0, 0, 1], [1, 0, 1], [1, 1, 1]]))
            if not np.allclose(c2, c, atol=1e-12):
                fail(f"cubic:laue-class:{g2.name}", f"{g2.name} does not use the m-3m key", {"group": g2.name})
    # permutations and sign changes of a direction are equivalent under m-3m
    v = unit(rand_vec(R))
    alls = np.array([[s0 * v[p[0]], s1 * v[p[1]], s2 * v[p[2]]] for p in itertools.permutations(range(3))
                     for s0 in (1, -1) for s1 in (1, -1) for s2 in (1, -1)])
    ca = ck.direction2color(Vector3d(alls))
    st("oracle/cubic-48", 48)
    if np.abs(ca - ca[0]).max() > TOL_INV:
        fail("cubic:permutations", f"the 48 signed permutations of {fl(v)} do not share one colour under m-3m",
             {"group": "m-3m", "v": fl(v)})

emit({"groups": groups, "hsv": hsv_cases, "hsl": hsl_cases, "fails": fails, "strata": strata})
