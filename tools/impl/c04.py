"""C04 implementation harness: symmetry-reduced dot products / angles."""
import math

import numpy as np
from common import emit, payload, rand_unit_quat, rng

from orix.quaternion import Misorientation, Orientation, Rotation
from orix.quaternion import symmetry as S
from orix.quaternion.symmetry import _get_unique_symmetry_elements

P = payload()
R = rng(P.get("seed", 0))
N = P.get("n", 40)
THOROUGH = P.get("thorough", False)

cases, fails, strata = [], [], {}
GROUPS = list(S._groups)
BYNAME = {g.name: g for g in GROUPS}
HEX = {"trigonal", "hexagonal"}
MAXDIS = {"1": 180.0, "2": 180.0, "112": 180.0, "211": 180.0, "121": 180.0, "222": 120.0, "4": 180.0,
          "422": 98.4208, "3": 180.0, "32": 104.4775, "321": 104.4775, "312": 104.4775, "6": 180.0,
          "622": 93.8411, "23": 90.0, "432": 62.7995}


def st(k):
    strata[k] = strata.get(k, 0) + 1


def fail(sig, what, rep):
    fails.append({"sig": sig, "what": what, "replay": rep})


def qmul(p, q):
    a, b, c, d = p[..., 0], p[..., 1], p[..., 2], p[..., 3]
    e, f, g, h = q[..., 0], q[..., 1], q[..., 2], q[..., 3]
    return np.stack([a * e - b * f - c * g - d * h, b * e + a * f - d * g + c * h,
                     c * e + d * f + a * g - b * h, d * e - c * f + b * g + a * h], -1)


def conj(p):
    return p * np.array([1, -1, -1, -1.0])


def brute(G1, G2, o1, o2):
    """max over all pairs (g1, g2) with proper product of |Re(g2 o2 ~o1 ~g1)|; o1,o2: (...,4)"""
    M = qmul(o2, conj(o1))
    best = np.zeros(M.shape[:-1])
    q1, i1 = G1.data.reshape(-1, 4), G1.improper.reshape(-1)
    q2, i2 = G2.data.reshape(-1, 4), G2.improper.reshape(-1)
    for a in range(len(q1)):
        for b in range(len(q2)):
            if i1[a] != i2[b]:
                continue
            v = np.abs(qmul(q2[b], qmul(M, conj(q1[a])))[..., 0])
            best = np.maximum(best, v)
    return best


def ang(d):
    return np.nan_to_num(np.arccos(np.clip(2 * d ** 2 - 1, -1, 1)))


def mk(shape, sym, near=None):
    n = int(np.prod(shape))
    q = np.array([rand_unit_quat(R) for _ in range(n)]).reshape(shape + (4,))
    return Orientation(q, symmetry=sym)


def pairclass(g1, g2):
    if g1.name == g2.name:
        return "same"
    s1, s2 = g1.system, g2.system
    if (s1 in HEX and s2 == "cubic") or (s1 == "cubic" and s2 in HEX):
        return "hexcubic"
    return "other"


def rj(G):
    return {"name": G.name, "q": G.data.reshape(-1, 4).tolist(), "imp": G.improper.reshape(-1).astype(int).tolist()}


TOL = 1e-7
SHAPES = [(1,), (4,), (2, 3), (3, 1), (2, 1, 2)]

# ------------------------------------------------------------------ same symmetry
gsel = GROUPS if THOROUGH else R.sample(GROUPS, min(len(GROUPS), max(8, N // 4)))
for name in ("m-3m", "432", "-4", "6/mmm", "1", "mm2"):
    if BYNAME[name] not in gsel:
        gsel.append(BYNAME[name])
for G in gsel:
    sa = R.choice(SHAPES)
    O1, O2 = mk(sa, G), mk(sa, G)
    # strata: equal, equivalent, within 1e-8 of equivalent
    flat2 = O2.data.reshape(-1, 4).copy()
    flat1 = O1.data.reshape(-1, 4)
    if len(flat2) >= 3:
        flat2[0] = flat1[0]
        propers = G.data.reshape(-1, 4)[~G.improper.reshape(-1)]
        g = propers[R.randrange(len(propers))]
        flat2[1] = qmul(g, flat1[1])
        pert = qmul(np.array([1.0, 1e-8, -1e-8, 0.5e-8]), qmul(g, flat1[2]))
        flat2[2] = pert / np.linalg.norm(pert)
    O2 = Orientation(flat2.reshape(sa + (4,)), symmetry=G)
    U = _get_unique_symmetry_elements(G, G)
    d = O1.dot(O2)
    st(f"same/{G.name}")
    for k in range(min(d.size, 6)):
        cases.append({"k": "dot", "U": rj(U), "o1": O1.data.reshape(-1, 4)[k].tolist(),
                      "o2": O2.data.reshape(-1, 4)[k].tolist(), "out": float(d.reshape(-1)[k]),
                      "pair": [G.name, G.name]})
    b = brute(G, G, O1.data, O2.data)
    rep = {"G1": G.name, "G2": G.name, "o1": O1.data.tolist(), "o2": O2.data.tolist()}
    if not np.allclose(d, b, atol=TOL):
        fail(f"dot:same-sym:{G.name}", f"Orientation.dot differs from the brute-force maximum for symmetry {G.name}", rep)
    a = O1.angle_with(O2)
    if not np.allclose(a, ang(b), atol=2e-7 + 1e-3 * (np.abs(b) > 1 - 1e-9)):
        fail(f"angle_with:same-sym:{G.name}", "angle_with differs from brute force", rep)
    if not np.allclose(O2.dot(O1), d, atol=TOL):
        fail("symmetric", "dot is not symmetric in its arguments", rep)
    if len(flat2) >= 3 and not (abs(d.reshape(-1)[0] - 1) < 1e-9 and abs(d.reshape(-1)[1] - 1) < 1e-9):
        fail("zero-for-equivalent", "dot of equivalent orientations is not 1", rep)
    # invariance under replacing an argument by an equivalent
    g = Rotation(G.data.reshape(-1, 4)[R.randrange(G.size)])
    if not G.improper.reshape(-1).any() or True:
        gq = G[R.randrange(G.size)]
        if not bool(gq.improper.any()):
            O1e = Orientation((Rotation(gq.data) * Rotation(O1.data)).data, symmetry=G)
            if not np.allclose(O1e.dot(O2), d, atol=TOL):
                fail("invariance", "dot changes when an argument is replaced by a symmetry-equivalent orientation", rep)
    pn = G.proper_subgroup.name
    if pn in MAXDIS and np.rad2deg(a.max()) > MAXDIS[pn] + 1e-3:
        fail("max-disorientation", f"angle {np.rad2deg(a.max())} exceeds the maximum disorientation angle of {pn}", rep)
    # difference operator
    try:
        Mis = O2 - O1
        am = np.asarray(Mis.angle).reshape(-1)
        bb = ang(brute(G, G, O1.data, O2.data)).reshape(-1)
        if am.shape != bb.shape or not np.allclose(am, bb, atol=1e-6):
            cls = "proper" if not G.improper.any() else "improper"
            fail(f"sub:angle:same-sym:{cls}", f"(O2 - O1).angle differs from the brute-force minimum for {G.name}", rep)
    except NotImplementedError:
        st("sub/no-region-defined")       # the property only speaks about pairs with a region
    except Exception as e:  # noqa
        fail("sub:raises", f"O2 - O1 raises {type(e).__name__} for {G.name}", rep)

# ------------------------------------------------------------------ outer, layouts, lazy
for trial in range(max(6, N // 5)):
    G = R.choice([BYNAME["432"], BYNAME["m-3m"], BYNAME["622"], BYNAME["-4"], BYNAME["222"], BYNAME["3"]])
    sa, sb = R.choice(SHAPES), R.choice(SHAPES)
    O1, O2 = mk(sa, G), mk(sb, G)
    st(f"outer/{len(sa)}x{len(sb)}")
    ref = np.zeros(sa + sb)
    for i in np.ndindex(*sa):
        for j in np.ndindex(*sb):
            ref[i + j] = brute(G, G, O1.data[i], O2.data[j])
    rep = {"G": G.name, "sa": sa, "sb": sb, "o1": O1.data.tolist(), "o2": O2.data.tolist()}
    nd = "same-ndim" if len(sa) == len(sb) else "ndim-differs"
    d = O1.dot_outer(O2)
    if d.shape != sa + sb or not np.allclose(d, ref, atol=TOL):
        fail(f"dot_outer:layout:{nd}", f"dot_outer is not indexed self.shape+other.shape / wrong values for shapes {sa} x {sb}", rep)
    cases.append({"k": "outer", "U": rj(_get_unique_symmetry_elements(G, G)), "A": O1.data.reshape(-1, 4).tolist(),
                  "B": O2.data.reshape(-1, 4).tolist(), "sa": list(sa), "sb": list(sb),
                  "shape": list(d.shape), "out": d.reshape(-1).tolist()})
    a = O1.angle_with_outer(O2)
    if a.shape != sa + sb or not np.allclose(a, ang(ref), atol=1e-6):
        fail(f"angle_with_outer:eager:{nd}", "angle_with_outer (eager) layout/values wrong", rep)
    for cs in (1, 2, 50):
        al = O1.angle_with_outer(O2, lazy=True, chunk_size=cs, progressbar=False)
        imp = "improper" if G.improper.any() else "proper"
        if al.shape != sa + sb or not np.allclose(al, ang(ref), atol=1e-6):
            kind = "layout" if (al.shape != sa + sb or np.allclose(np.sort(al.reshape(-1)), np.sort(ang(ref).reshape(-1)), atol=1e-6)) else "values"
            sq = "square" if sa == sb and len(sa) == 1 else "nonsquare"
            fail(f"angle_with_outer:lazy:{kind}:{imp}:{sq}", f"angle_with_outer(lazy=True, chunk_size={cs}) differs from brute force (shape {al.shape} vs {sa + sb})", rep)
            break
    if len(sa) == 1:
        D = O1.get_distance_matrix()
        refD = np.zeros(sa + sa)
        for i in range(sa[0]):
            for j in range(sa[0]):
                refD[i, j] = ang(brute(G, G, O1.data[i], O1.data[j]))
        if not np.allclose(D, refD, atol=1e-6):
            fail("distance_matrix:orientation", "Orientation.get_distance_matrix differs from brute force", rep)

# ------------------------------------------------------------------ two symmetries
pairs = [(g, h) for g in GROUPS for h in GROUPS if g.name != h.name]
psel = pairs if THOROUGH else R.sample(pairs, max(20, N))
MUST = [("3", "23"), ("432", "622"), ("m-3m", "6/mmm"), ("6/mmm", "m-3m"), ("m-3", "-3m"), ("222", "432"),
        ("4", "mmm"), ("m-3m", "4/mmm"), ("622", "432"), ("23", "6")]
for must in MUST:
    psel.append((BYNAME[must[0]], BYNAME[must[1]]))
for G1, G2 in psel:
    npts = 80 if (G1.name, G2.name) in MUST else 5      # rare failures (3-15 % of inputs) need more samples
    O1, O2 = mk((npts,), G1), mk((npts,), G2)
    cl = pairclass(G1, G2)
    st(f"two/{cl}")
    U = _get_unique_symmetry_elements(G2, G1)
    d = O1.dot(O2)
    cases.append({"k": "dot", "U": rj(U), "o1": O1.data[0].tolist(), "o2": O2.data[0].tolist(),
                  "out": float(d[0]), "pair": [G1.name, G2.name]})
    if G1.size * G2.size <= 300 or (G1.name, G2.name) in MUST[:4]:
        # what Orientation.dot(self=O1, other=O2) uses
        Ucode = _get_unique_symmetry_elements(G2, G1)
        cases.append({"k": "set", "U": rj(Ucode), "pair": [G1.name, G2.name]})
    b = brute(G1, G2, O1.data, O2.data)
    rep = {"G1": G1.name, "G2": G2.name, "o1": O1.data.tolist(), "o2": O2.data.tolist()}
    if not np.allclose(d, b, atol=TOL):
        fail(f"dot:two-sym:{cl}", f"two-phase Orientation.dot differs from the brute-force maximum for ({G1.name}, {G2.name}) by up to {float(np.max(np.abs(ang(d) - ang(b)))):.3f} rad", rep)
    elif not np.allclose(O1.angle_with(O2), ang(b), atol=1e-6):
        fail(f"angle_with:two-sym:{cl}", "two-phase angle_with differs from brute force", rep)
    # the difference operator O2 - O1 (a misorientation reduced into its zone)
    try:
        am = np.asarray((O2 - O1).angle).reshape(-1)
        if am.shape != b.reshape(-1).shape or not np.allclose(am, ang(b).reshape(-1), atol=1e-6):
            if G1.is_proper and G2.is_proper:
                laue = "proper"
            elif G1.contains_inversion and G2.contains_inversion:
                laue = "laue"
            else:
                laue = "mixed"
            fail(f"sub:angle:two-sym:{cl}:{laue}", f"(O2 - O1).angle differs from the brute-force minimum for ({G1.name}, {G2.name})", rep)
    except NotImplementedError:
        st("sub/no-region-defined")
    except Exception as e:  # noqa
        fail("sub:raises", f"O2 - O1 raises {type(e).__name__} for ({G1.name}, {G2.name})", rep)

# ------------------------------------------------------------------ misorientation distance matrix
for trial in range(max(4, N // 10)):
    same = trial % 2 == 0
    Gl = R.choice([BYNAME["432"], BYNAME["222"], BYNAME["622"], BYNAME["4"]])
    Gr = Gl if same else R.choice([g for g in (BYNAME["222"], BYNAME["4"], BYNAME["432"], BYNAME["32"]) if g.name != Gl.name])
    n = 4
    q = np.array([rand_unit_quat(R) for _ in range(n)])
    Mi = Misorientation(q, symmetry=(Gl, Gr))
    st(f"misdist/{'same' if same else 'diff'}")
    D = Mi.get_distance_matrix()
    ref = np.zeros((n, n))
    ql, qr = Gl.data.reshape(-1, 4), Gr.data.reshape(-1, 4)
    for i in range(n):
        for j in range(n):
            # d(a Mi b, c Mj d) = d(Mi, a^-1 c Mj d b^-1): enough to run over the equivalents of Mj
            eq = np.array([qmul(c, qmul(q[j], dd)) for c in ql for dd in qr])
            ref[i, j] = ang(np.max(np.abs(eq @ q[i])))
    if not np.allclose(D, ref, atol=1e-6):
        fail(f"misorientation:distance_matrix:{'same' if same else 'diff'}", f"Misorientation.get_distance_matrix differs from brute force over gl*M*gr equivalents for ({Gl.name},{Gr.name})",
             {"Gl": Gl.name, "Gr": Gr.name, "q": q.tolist()})


# ====================================================================== audit strata (coverage holes)
def bouter(G1, G2, A, B):
    """brute force for every pair: result indexed A.shape[:-1] + B.shape[:-1]"""
    sa, sb = A.shape[:-1], B.shape[:-1]
    return brute(G1, G2, A.reshape(sa + (1,) * len(sb) + (4,)), B.reshape((1,) * len(sa) + sb + (4,)))


def lauecls(G1, G2):
    if G1.is_proper and G2.is_proper:
        return "proper"
    if G1.contains_inversion and G2.contains_inversion:
        return "laue"
    return "mixed"


def equivalents(O, G):
    """every element replaced by its own randomly chosen PROPER-equivalent g*o (and a random sign)"""
    propers = G.data.reshape(-1, 4)[~G.improper.reshape(-1)]
    flat = O.data.reshape(-1, 4)
    out = np.array([qmul(propers[R.randrange(len(propers))], q) * R.choice([1.0, -1.0]) for q in flat])
    return Orientation(out.reshape(O.shape + (4,)), symmetry=G)


def swap_axes(d, na, nb):
    """array indexed b-axes + a-axes -> a-axes + b-axes"""
    return d.transpose(tuple(range(nb, nb + na)) + tuple(range(nb)))


# ------------------------------------------------------------------ outer APIs with TWO DIFFERENT symmetries
# (dot_outer, angle_with_outer eager/lazy each fetch their own symmetry-element set; the outer stratum above
#  only ever uses one group for both operands)
OPAIRS = [("3", "23"), ("m-3m", "6/mmm"), ("622", "432"), ("1m1", "32"), ("-4", "mm2"), ("222", "432"),
          ("23", "6"), ("4", "mmm"), ("-43m", "-6m2"), ("432", "4"), ("6/mmm", "m-3m"), ("mm2", "m-3")]
OSHAPES = [((2, 3), (4,)), ((3,), (2, 1, 2)), ((2,), (3, 1)), ((2, 2), (3, 2)), ((1,), (2, 3)), ((2, 1, 2), (1,)),
           ((3,), (3,))]
for t in range(len(OPAIRS) if THOROUGH or N >= 40 else 6):
    G1, G2 = BYNAME[OPAIRS[t][0]], BYNAME[OPAIRS[t][1]]
    sa, sb = OSHAPES[t % len(OSHAPES)]
    cs = (1, 3, 50)[t % 3]
    O1, O2 = mk(sa, G1), mk(sb, G2)
    cl = pairclass(G1, G2)
    st(f"outer-two/{cl}/{lauecls(G1, G2)}/{len(sa)}x{len(sb)}")
    ref = bouter(G1, G2, O1.data, O2.data)
    rep = {"G1": G1.name, "G2": G2.name, "sa": sa, "sb": sb, "o1": O1.data.tolist(), "o2": O2.data.tolist(), "chunk_size": cs}
    d = O1.dot_outer(O2)
    if d.shape != sa + sb or not np.allclose(d, ref, atol=TOL):
        fail(f"dot_outer:two-sym:{cl}", f"two-phase dot_outer differs from brute force / is not indexed self.shape+other.shape for ({G1.name}, {G2.name}), shapes {sa} x {sb}", rep)
    a = O1.angle_with_outer(O2)
    if a.shape != sa + sb or not np.allclose(a, ang(ref), atol=1e-6):
        fail(f"angle_with_outer:eager:two-sym:{cl}", f"two-phase angle_with_outer (eager) differs from brute force for ({G1.name}, {G2.name}), shapes {sa} x {sb}", rep)
    al = O1.angle_with_outer(O2, lazy=True, chunk_size=cs, progressbar=False)
    if al.shape != sa + sb or not np.allclose(al, ang(ref), atol=1e-6):
        fail(f"angle_with_outer:lazy:two-sym:{cl}", f"two-phase angle_with_outer(lazy=True, chunk_size={cs}) differs from brute force for ({G1.name}, {G2.name}), shapes {sa} x {sb} (got shape {al.shape})", rep)
    # symmetric in its arguments: the swapped call is the same array with the two axis blocks exchanged
    for nm, dsw in (("dot_outer", O2.dot_outer(O1)), ("angle_with_outer:lazy", np.cos(O2.angle_with_outer(O1, lazy=True, chunk_size=cs, progressbar=False)))):
        want = ref if nm == "dot_outer" else np.cos(ang(ref))
        if dsw.shape != sb + sa or not np.allclose(swap_axes(dsw, len(sa), len(sb)), want, atol=1e-6):
            fail(f"symmetric:{nm}:two-sym:{cl}", f"{nm} with swapped operands is not the transposed result for ({G1.name}, {G2.name})", rep)
    # unchanged when EITHER argument is replaced (element by element) by a symmetry-equivalent one
    E1, E2 = equivalents(O1, G1), equivalents(O2, G2)
    rep2 = dict(rep, o1_equivalent=E1.data.tolist(), o2_equivalent=E2.data.tolist())
    if not np.allclose(E1.dot_outer(O2), d, atol=TOL):
        fail("invariance:dot_outer:self", "dot_outer changes when self is replaced by symmetry-equivalent orientations", rep2)
    if not np.allclose(O1.dot_outer(E2), d, atol=TOL):
        fail("invariance:dot_outer:other", "dot_outer changes when other is replaced by symmetry-equivalent orientations", rep2)
    if not np.allclose(E1.angle_with_outer(E2, lazy=True, chunk_size=cs, progressbar=False), ang(ref), atol=1e-6):
        fail("invariance:angle_with_outer:lazy", "lazy angle_with_outer changes when both arguments are replaced by symmetry-equivalent orientations", rep2)

# ------------------------------------------------------------------ degrees=True keyword on every API that has it
DG = [BYNAME["432"], BYNAME["m-3m"], BYNAME["-4"], BYNAME["622"]]
for t in range(4):
    G = DG[t]
    G2 = (G, BYNAME["222"], BYNAME["6/mmm"], G)[t]
    sa, sb = (((3,), (3,)), ((2, 2), (2, 2)), ((2,), (3, 1)), ((4,), (2,)))[t]
    O1, O2 = mk(sa, G), mk(sb, G2)
    st("degrees/" + ("same" if G is G2 else "two"))
    rep = {"G1": G.name, "G2": G2.name, "sa": sa, "sb": sb, "o1": O1.data.tolist(), "o2": O2.data.tolist()}
    refo = np.rad2deg(ang(bouter(G, G2, O1.data, O2.data)))
    if sa == sb:
        refp = np.rad2deg(ang(brute(G, G2, O1.data, O2.data)))
        ap = O1.angle_with(O2, degrees=True)
        if ap.shape != refp.shape or not np.allclose(ap, refp, atol=1e-4):
            fail("degrees:angle_with", "angle_with(degrees=True) is not the brute-force minimum angle in degrees", rep)
    for lz in (False, True):
        kw = {"lazy": True, "chunk_size": 2, "progressbar": False} if lz else {}
        a = O1.angle_with_outer(O2, degrees=True, **kw)
        if a.shape != refo.shape or not np.allclose(a, refo, atol=1e-4):
            fail(f"degrees:angle_with_outer:{'lazy' if lz else 'eager'}", "angle_with_outer(degrees=True) is not the brute-force minimum angle in degrees", rep)
        D = O1.get_distance_matrix(degrees=True, **kw)
        refD = np.rad2deg(ang(bouter(G, G, O1.data, O1.data)))
        if D.shape != refD.shape or not np.allclose(D, refD, atol=1e-4):
            fail(f"degrees:distance_matrix:orientation:{'lazy' if lz else 'eager'}", "Orientation.get_distance_matrix(degrees=True) is not the brute-force minimum angle in degrees", rep)

# ------------------------------------------------------------------ Orientation.get_distance_matrix: lazy path, >1 axes
DMG = [BYNAME["m-3m"], BYNAME["622"], BYNAME["-4"], BYNAME["3"], BYNAME["mm2"], BYNAME["432"]]
DMS = [(2, 3), (5,), (2, 1, 2), (1,), (3, 1), (2, 2)]
for t in range(len(DMG)):
    G, sa, cs = DMG[t], DMS[t], (2, 1, 3)[t % 3]
    O1 = mk(sa, G)
    # a repeated and an equivalent element: exact zeros off the diagonal as well
    if O1.size >= 3:
        f = O1.data.reshape(-1, 4).copy()
        f[1] = f[0]
        f[2] = equivalents(Orientation(f[:1], symmetry=G), G).data[0]
        O1 = Orientation(f.reshape(sa + (4,)), symmetry=G)
    st(f"distmat/ndim{len(sa)}")
    refD = ang(bouter(G, G, O1.data, O1.data))
    rep = {"G": G.name, "shape": sa, "o": O1.data.tolist(), "chunk_size": cs}
    for lz in (False, True):
        kw = {"lazy": True, "chunk_size": cs, "progressbar": False} if lz else {}
        D = O1.get_distance_matrix(**kw)
        tag = "lazy" if lz else "eager"
        if D.shape != sa + sa or not np.allclose(D, refD, atol=1e-6):
            fail(f"distance_matrix:orientation:{tag}:ndim{min(len(sa), 2)}", f"Orientation.get_distance_matrix({'lazy=True' if lz else ''}) differs from brute force / is not indexed shape+shape for shape {sa}", rep)
        elif O1.size >= 3 and not (abs(D.reshape(O1.size, O1.size)[0, 1]) < 1e-6 and abs(D.reshape(O1.size, O1.size)[0, 2]) < 1e-6
                                   and np.all(np.abs(np.diag(D.reshape(O1.size, O1.size))) < 1e-6)):
            fail(f"distance_matrix:orientation:{tag}:zero-for-equivalent", "distance between equal/equivalent orientations is not zero", rep)

# ------------------------------------------------------------------ pairwise APIs with broadcasting operands
BC = [((4,), (1,)), ((1,), (4,)), ((2, 3), (3,)), ((3,), (2, 3)), ((2, 1), (1, 3)), ((2, 1, 2), (1, 1)), ((2, 2), (2, 2))]
BG = [("432", "432"), ("m-3m", "m-3m"), ("432", "622"), ("m-3m", "6/mmm"), ("-4", "-4"), ("23", "6"), ("3", "23")]
for t in range(len(BC)):
    sa, sb = BC[t]
    G1, G2 = BYNAME[BG[t][0]], BYNAME[BG[t][1]]
    O1, O2 = mk(sa, G1), mk(sb, G2)
    st(f"broadcast/{len(sa)}x{len(sb)}/{'same' if G1 is G2 else 'two'}")
    b = brute(G1, G2, O1.data, O2.data)          # numpy broadcasting of the two data arrays
    rep = {"G1": G1.name, "G2": G2.name, "sa": sa, "sb": sb, "o1": O1.data.tolist(), "o2": O2.data.tolist()}
    kind = "broadcast" if sa != sb else "2d"
    try:
        d = O1.dot(O2)
        if d.shape != b.shape or not np.allclose(d, b, atol=TOL):
            fail(f"dot:{kind}", f"Orientation.dot for shapes {sa}, {sb} differs from brute force on the broadcast operands", rep)
        a = O1.angle_with(O2)
        if a.shape != b.shape or not np.allclose(a, ang(b), atol=1e-6):
            fail(f"angle_with:{kind}", f"angle_with for shapes {sa}, {sb} differs from brute force on the broadcast operands", rep)
        am = np.asarray((O2 - O1).angle)
        if am.size != b.size or not np.allclose(am.reshape(-1), ang(b).reshape(-1), atol=1e-6):
            fail(f"sub:angle:{kind}", f"(O2 - O1).angle for shapes {sb}, {sa} differs from brute force on the broadcast operands", rep)
    except NotImplementedError:
        st("sub/no-region-defined")
    except Exception as e:  # noqa
        fail(f"pairwise:{kind}:raises", f"pairwise API raises {type(e).__name__}: {e} for shapes {sa}, {sb}", rep)

# ------------------------------------------------------------------ boundary of the disorientation zone
# O2 = h*O1 with h the HALF rotation of a symmetry operation (same axis, half the angle): two equivalents tie, the
# misorientation lies exactly on a face of the zone; also the exact inputs (identity, h).
for G in gsel:
    propers = G.data.reshape(-1, 4)[~G.improper.reshape(-1)]
    hs = []
    for g in propers:
        g = g if g[0] >= 0 else -g
        w = 2 * math.acos(min(1.0, max(-1.0, g[0])))
        if w < 1e-9:
            continue
        ax = g[1:] / np.linalg.norm(g[1:])
        hs.append(np.r_[math.cos(w / 4), math.sin(w / 4) * ax])
    if not hs:
        continue
    hs = np.array(hs)
    for exact in (False, True):
        o1 = np.tile([1.0, 0, 0, 0], (len(hs), 1)) if exact else np.array([rand_unit_quat(R) for _ in hs])
        o2 = qmul(hs, o1)
        O1, O2 = Orientation(o1, symmetry=G), Orientation(o2, symmetry=G)
        st("boundary/" + ("exact" if exact else "random"))
        b = brute(G, G, o1, o2)
        rep = {"G1": G.name, "G2": G.name, "o1": o1.tolist(), "o2": o2.tolist()}
        if not np.allclose(O1.dot(O2), b, atol=TOL) or not np.allclose(O2.dot(O1), b, atol=TOL):
            fail("dot:boundary", f"Orientation.dot differs from brute force for misorientations on the boundary of the zone of {G.name}", rep)
        k = min(len(hs), 6)
        al = O1[:k].angle_with_outer(O2[:k], lazy=True, chunk_size=2, progressbar=False)
        if not np.allclose(al, ang(bouter(G, G, o1[:k], o2[:k])), atol=1e-6):
            fail("angle_with_outer:lazy:boundary", f"lazy angle_with_outer differs from brute force on the boundary of the zone of {G.name}", rep)
        pn = G.proper_subgroup.name
        aw = O1.angle_with(O2)
        if pn in MAXDIS and np.rad2deg(aw.max()) > MAXDIS[pn] + 1e-3:
            fail("max-disorientation:boundary", f"angle {np.rad2deg(aw.max())} exceeds the maximum disorientation angle of {pn}", rep)
        try:
            am = np.asarray((O2 - O1).angle).reshape(-1)
            if am.shape != b.shape or not np.allclose(am, ang(b), atol=1e-6):
                fail("sub:angle:boundary", f"(O2 - O1).angle differs from the brute-force minimum on the boundary of the zone of {G.name}", rep)
        except NotImplementedError:
            st("sub/no-region-defined")
        except Exception as e:  # noqa
            fail("sub:raises", f"O2 - O1 raises {type(e).__name__} for {G.name} (boundary)", rep)

# ------------------------------------------------------------------ operands with a history / other constructors
HG = [BYNAME["m-3m"], BYNAME["622"], BYNAME["-4"], BYNAME["23"]]
for t in range(len(HG)):
    G = HG[t]
    G2 = G if t % 2 == 0 else BYNAME["222"]
    B0 = mk((2, 3), G)
    O2 = mk((2,), G2)
    eu = B0.to_euler()
    via_setter = Orientation(B0.data.copy())
    via_setter.symmetry = G
    derived = {
        "reshape": B0.reshape(3, 2), "transpose": B0.transpose(), "getitem": B0[::-1, 1:],
        "flatten": B0.flatten(), "inv-inv": ~(~B0), "unit": B0.unit, "squeeze": B0[:, :1].squeeze(),
        "from_euler": Orientation.from_euler(eu, symmetry=G), "setter": via_setter,
        "from_matrix": Orientation.from_matrix(B0.to_matrix(), symmetry=G),
    }
    # (not used: -O toggles the improper flag; Orientation.stack drops the symmetry by design;
    #  Orientation.map_into_symmetry_reduced_zone multiplies on the right -- the known C06 finding)
    for step, X in derived.items():
        st(f"history/{step}")
        rep = {"G1": G.name, "G2": G2.name, "step": step, "base": B0.data.tolist(), "o2": O2.data.tolist()}
        if step in ("from_euler", "from_matrix"):
            xd = B0.data                           # the same orientations (up to sign / equivalents)
            if X.shape != B0.shape:
                fail(f"history:{step}", f"{step} changes the shape", rep)
                continue
        else:
            xd = X.data
        try:
            if not isinstance(X, Orientation) or X.symmetry.name != G.name:
                fail(f"history:{step}", f"operand obtained by '{step}' lost its symmetry ({getattr(getattr(X, 'symmetry', None), 'name', None)} instead of {G.name})", rep)
                continue
            ref = bouter(G, G2, xd, O2.data)
            d = X.dot_outer(O2)
            dl = X.angle_with_outer(O2, lazy=True, chunk_size=2, progressbar=False)
            dr = O2.angle_with_outer(X)
            if d.shape != ref.shape or not np.allclose(d, ref, atol=1e-6) or not np.allclose(dl, ang(ref), atol=1e-6) \
                    or not np.allclose(swap_axes(dr, X.ndim, O2.ndim), ang(ref), atol=1e-6):
                fail(f"history:{step}", f"symmetry-reduced dot/angle of an operand obtained by '{step}' differs from brute force", rep)
        except Exception as e:  # noqa
            fail(f"history:{step}:raises", f"{type(e).__name__}: {e}", rep)

# ------------------------------------------------------------------ integer dtype and empty operands
G = BYNAME["432"]
ia = np.array([[1, 0, 0, 0], [1, 1, 0, 0], [2, 0, 0, 1], [0, 0, 0, 1]])
ib = np.array([[1, 1, 1, 1], [0, 0, 1, 0], [1, 0, 2, 0], [3, -1, 0, 0]])
fa, fb = ia / np.linalg.norm(ia, axis=1)[:, None], ib / np.linalg.norm(ib, axis=1)[:, None]
I1, I2 = Orientation(ia, symmetry=G), Orientation(ib, symmetry=BYNAME["m-3m"])
st("dtype/int")
rep = {"G1": "432", "G2": "m-3m", "o1": ia.tolist(), "o2": ib.tolist()}
try:
    if not np.allclose(I1.dot(I2), brute(G, BYNAME["m-3m"], fa, fb), atol=TOL) \
            or not np.allclose(I1.angle_with_outer(I2), ang(bouter(G, BYNAME["m-3m"], fa, fb)), atol=1e-6) \
            or not np.allclose(I1.angle_with_outer(I2, lazy=True, chunk_size=3, progressbar=False), ang(bouter(G, BYNAME["m-3m"], fa, fb)), atol=1e-6):
        fail("int-dtype", "integer-typed quaternion input gives a different reduced dot/angle than the same numbers as floats", rep)
except Exception as e:  # noqa
    fail("int-dtype:raises", f"{type(e).__name__}: {e}", rep)
E0 = Orientation(np.zeros((0, 4)), symmetry=G)
F4 = mk((2, 2), G)
for nm, fn, shp in (("dot", lambda: E0.dot(E0), (0,)), ("dot_outer:self", lambda: E0.dot_outer(F4), (0, 2, 2)),
                    ("dot_outer:other", lambda: F4.dot_outer(E0), (2, 2, 0)),
                    ("angle_with_outer:eager", lambda: F4.angle_with_outer(E0), (2, 2, 0)),
                    ("distance_matrix:eager", lambda: E0.get_distance_matrix(), (0, 0)),
                    ("angle_with_outer:lazy", lambda: E0.angle_with_outer(F4, lazy=True, progressbar=False), (0, 2, 2)),
                    ("distance_matrix:lazy", lambda: E0.get_distance_matrix(lazy=True, progressbar=False), (0, 0))):
    st("empty/" + nm)
    rep = {"G": "432", "api": nm, "empty_shape": [0], "other_shape": [2, 2], "o": F4.data.tolist()}
    try:
        got = np.asarray(fn()).shape
        if got != shp:
            fail(f"empty:{nm}:shape", f"{nm} with an empty operand returns shape {got}, expected {shp} (self.shape + other.shape)", rep)
    except Exception as e:  # noqa
        fail(f"empty:{nm}:raises", f"{nm} with an empty operand raises {type(e).__name__}: {e}", rep)

# ------------------------------------------------------------------ Misorientation.get_distance_matrix: Gl = Gr with
# improper operations, >1 axes, several chunk sizes, degrees (equivalents gl*M*gr with gl, gr both proper or both improper)
# (chunk_size also chunks the symmetry axes: small chunks only with small groups, or the call takes minutes)
MG = [("432", (2,), 20), ("m-3m", (2,), 20), ("mmm", (2, 1, 2), 3), ("-4", (3,), 2), ("4mm", (2, 2), 2),
      ("-43m", (2,), 20), ("622", (1,), 5), ("-1", (2, 3), 1), ("222", (2, 2), 1), ("3m", (3,), 2)]
for t in range(len(MG)):
    G, sa, cs = BYNAME[MG[t][0]], MG[t][1], MG[t][2]
    n = int(np.prod(sa))
    q = np.array([rand_unit_quat(R) for _ in range(n)])
    Mi = Misorientation(q.reshape(sa + (4,)), symmetry=(G, G))
    cls = "proper" if G.is_proper else ("laue" if G.contains_inversion else "improper-noinv")
    st(f"misdist-same/{cls}/ndim{len(sa)}")
    deg = t % 2 == 1
    D = Mi.get_distance_matrix(chunk_size=cs, progressbar=False, degrees=deg)
    gd, gi = G.data.reshape(-1, 4), G.improper.reshape(-1)
    ref = np.zeros((n, n))
    for i in range(n):
        for j in range(n):
            eq = np.array([qmul(c, qmul(q[j], dd)) for c, ci in zip(gd, gi) for dd, di in zip(gd, gi) if ci == di])
            ref[i, j] = ang(np.max(np.abs(eq @ q[i])))
    if deg:
        ref = np.rad2deg(ref)
    rep = {"Gl": G.name, "Gr": G.name, "shape": sa, "chunk_size": cs, "degrees": deg, "q": q.tolist()}
    if D.shape != sa + sa:
        fail("misorientation:distance_matrix:same:shape", f"Misorientation.get_distance_matrix returns shape {D.shape} for shape {sa}", rep)
    elif not np.allclose(D.reshape(n, n), ref, atol=1e-4 if deg else 1e-6):
        fail(f"misorientation:distance_matrix:same:{cls}", f"Misorientation.get_distance_matrix(chunk_size={cs}, degrees={deg}) differs from brute force over the equivalents gl*M*gr (gl, gr both proper or both improper) for ({G.name},{G.name}), shape {sa}: max difference {float(np.max(np.abs(D.reshape(n, n) - ref))):.4f} {'deg' if deg else 'rad'}", rep)

emit({"cases": cases, "fails": fails, "strata": strata})
