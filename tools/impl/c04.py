"""C04 implementation harness: symmetry-reduced dot products / angles."""
import math

import numpy as np
from common import emit, payload, rand_unit_quat, rng

from orix.quaternion import Misorientation, Orientation, Rotation
from orix.quaternion import symmetry as S
from orix.quaternion.symmetry import _get_unique_symmetry_elements

P = payload()
R = rng(P.get("seed", 0))
N = P.get("n", 40)
THOROUGH = P.get("thorough", False)

cases, fails, strata = [], [], {}
GROUPS = list(S._groups)
BYNAME = {g.name: g for g in GROUPS}
HEX = {"trigonal", "hexagonal"}
MAXDIS = {"1": 180.0, "2": 180.0, "112": 180.0, "211": 180.0, "121": 180.0, "222": 120.0, "4": 180.0,
          "422": 98.4208, "3": 180.0, "32": 104.4775, "321": 104.4775, "312": 104.4775, "6": 180.0,
          "622": 93.8411, "23": 90.0, "432": 62.7995}


def st(k):
    strata[k] = strata.get(k, 0) + 1


def fail(sig, what, rep):
    fails.append({"sig": sig, "what": what, "replay": rep})


def qmul(p, q):
    a, b, c, d = p[..., 0], p[..., 1], p[..., 2], p[..., 3]
    e, f, g, h = q[..., 0], q[..., 1], q[..., 2], q[..., 3]
    return np.stack([a * e - b * f - c * g - d * h, b * e + a * f - d * g + c * h,
                     c * e + d * f + a * g - b * h, d * e - c * f + b * g + a * h], -1)


def conj(p):
    return p * np.array([1, -1, -1, -1.0])


def brute(G1, G2, o1, o2):
    """max over all pairs (g1, g2) with proper product of |Re(g2 o2 ~o1 ~g1)|; o1,o2: (...,4)"""
    M = qmul(o2, conj(o1))
    best = np.zeros(M.shape[:-1])
    q1, i1 = G1.data.reshape(-1, 4), G1.improper.reshape(-1)
    q2, i2 = G2.data.reshape(-1, 4), G2.improper.reshape(-1)
    for a in range(len(q1)):
        for b in range(len(q2)):
            if i1[a] != i2[b]:
                continue
            v = np.abs(qmul(q2[b], qmul(M, conj(q1[a])))[..., 0])
            best = np.maximum(best, v)
    return best


def ang(d):
    return np.nan_to_num(np.arccos(np.clip(2 * d ** 2 - 1, -1, 1)))


def mk(shape, sym, near=None):
    n = int(np.prod(shape))
    q = np.array([rand_unit_quat(R) for _ in range(n)]).reshape(shape + (4,))
    return Orientation(q, symmetry=sym)


def pairclass(g1, g2):
    if g1.name == g2.name:
        return "same"
    s1, s2 = g1.system, g2.system
    if (s1 in HEX and s2 == "cubic") or (s1 == "cubic" and s2 in HEX):
        return "hexcubic"
    return "other"


def rj(G):
    return {"name": G.name, "q": G.data.reshape(-1, 4).tolist(), "imp": G.improper.reshape(-1).astype(int).tolist()}


TOL = 1e-7
SHAPES = [(1,), (4,), (2, 3), (3, 1), (2, 1, 2)]

# ------------------------------------------------------------------ same symmetry
gsel = GROUPS if THOROUGH else R.sample(GROUPS, min(len(GROUPS), max(8, N // 4)))
for name in ("m-3m", "432", "-4", "6/mmm", "1", "mm2"):
    if BYNAME[name] not in gsel:
        gsel.append(BYNAME[name])
for G in gsel:
    sa = R.choice(SHAPES)
    O1, O2 = mk(sa, G), mk(sa, G)
    # strata: equal, equivalent, within 1e-8 of equivalent
    flat2 = O2.data.reshape(-1, 4).copy()
    flat1 = O1.data.reshape(-1, 4)
    if len(flat2) >= 3:
        flat2[0] = flat1[0]
        propers = G.data.reshape(-1, 4)[~G.improper.reshape(-1)]
        g = propers[R.randrange(len(propers))]
        flat2[1] = qmul(g, flat1[1])
        pert = qmul(np.array([1.0, 1e-8, -1e-8, 0.5e-8]), qmul(g, flat1[2]))
        flat2[2] = pert / np.linalg.norm(pert)
    O2 = Orientation(flat2.reshape(sa + (4,)), symmetry=G)
    U = _get_unique_symmetry_elements(G, G)
    d = O1.dot(O2)
    st(f"same/{G.name}")
    for k in range(min(d.size, 6)):
        cases.append({"k": "dot", "U": rj(U), "o1": O1.data.reshape(-1, 4)[k].tolist(),
                      "o2": O2.data.reshape(-1, 4)[k].tolist(), "out": float(d.reshape(-1)[k]),
                      "pair": [G.name, G.name]})
    b = brute(G, G, O1.data, O2.data)
    rep = {"G1": G.name, "G2": G.name, "o1": O1.data.tolist(), "o2": O2.data.tolist()}
    if not np.allclose(d, b, atol=TOL):
        fail(f"dot:same-sym:{G.name}", f"Orientation.dot differs from the brute-force maximum for symmetry {G.name}", rep)
    a = O1.angle_with(O2)
    if not np.allclose(a, ang(b), atol=2e-7 + 1e-3 * (np.abs(b) > 1 - 1e-9)):
        fail(f"angle_with:same-sym:{G.name}", "angle_with differs from brute force", rep)
    if not np.allclose(O2.dot(O1), d, atol=TOL):
        fail("symmetric", "dot is not symmetric in its arguments", rep)
    if len(flat2) >= 3 and not (abs(d.reshape(-1)[0] - 1) < 1e-9 and abs(d.reshape(-1)[1] - 1) < 1e-9):
        fail("zero-for-equivalent", "dot of equivalent orientations is not 1", rep)
    # invariance under replacing an argument by an equivalent
    g = Rotation(G.data.reshape(-1, 4)[R.randrange(G.size)])
    if not G.improper.reshape(-1).any() or True:
        gq = G[R.randrange(G.size)]
        if not bool(gq.improper.any()):
            O1e = Orientation((Rotation(gq.data) * Rotation(O1.data)).data, symmetry=G)
            if not np.allclose(O1e.dot(O2), d, atol=TOL):
                fail("invariance", "dot changes when an argument is replaced by a symmetry-equivalent orientation", rep)
    pn = G.proper_subgroup.name
    if pn in MAXDIS and np.rad2deg(a.max()) > MAXDIS[pn] + 1e-3:
        fail("max-disorientation", f"angle {np.rad2deg(a.max())} exceeds the maximum disorientation angle of {pn}", rep)
    # difference operator
    try:
        Mis = O2 - O1
        am = np.asarray(Mis.angle).reshape(-1)
        bb = ang(brute(G, G, O1.data, O2.data)).reshape(-1)
        if am.shape != bb.shape or not np.allclose(am, bb, atol=1e-6):
            cls = "proper" if not G.improper.any() else "improper"
            fail(f"sub:angle:same-sym:{cls}", f"(O2 - O1).angle differs from the brute-force minimum for {G.name}", rep)
    except NotImplementedError:
        st("sub/no-region-defined")       # the property only speaks about pairs with a region
    except Exception as e:  # noqa
        fail("sub:raises", f"O2 - O1 raises {type(e).__name__} for {G.name}", rep)

# ------------------------------------------------------------------ outer, layouts, lazy
for trial in range(max(6, N // 5)):
    G = R.choice([BYNAME["432"], BYNAME["m-3m"], BYNAME["622"], BYNAME["-4"], BYNAME["222"], BYNAME["3"]])
    sa, sb = R.choice(SHAPES), R.choice(SHAPES)
    O1, O2 = mk(sa, G), mk(sb, G)
    st(f"outer/{len(sa)}x{len(sb)}")
    ref = np.zeros(sa + sb)
    for i in np.ndindex(*sa):
        for j in np.ndindex(*sb):
            ref[i + j] = brute(G, G, O1.data[i], O2.data[j])
    rep = {"G": G.name, "sa": sa, "sb": sb, "o1": O1.data.tolist(), "o2": O2.data.tolist()}
    nd = "same-ndim" if len(sa) == len(sb) else "ndim-differs"
    d = O1.dot_outer(O2)
    if d.shape != sa + sb or not np.allclose(d, ref, atol=TOL):
        fail(f"dot_outer:layout:{nd}", f"dot_outer is not indexed self.shape+other.shape / wrong values for shapes {sa} x {sb}", rep)
    cases.append({"k": "outer", "U": rj(_get_unique_symmetry_elements(G, G)), "A": O1.data.reshape(-1, 4).tolist(),
                  "B": O2.data.reshape(-1, 4).tolist(), "sa": list(sa), "sb": list(sb),
                  "shape": list(d.shape), "out": d.reshape(-1).tolist()})
    a = O1.angle_with_outer(O2)
    if a.shape != sa + sb or not np.allclose(a, ang(ref), atol=1e-6):
        fail(f"angle_with_outer:eager:{nd}", "angle_with_outer (eager) layout/values wrong", rep)
    for cs in (1, 2, 50):
        al = O1.angle_with_outer(O2, lazy=True, chunk_size=cs, progressbar=False)
        imp = "improper" if G.improper.any() else "proper"
        if al.shape != sa + sb or not np.allclose(al, ang(ref), atol=1e-6):
            kind = "layout" if (al.shape != sa + sb or np.allclose(np.sort(al.reshape(-1)), np.sort(ang(ref).reshape(-1)), atol=1e-6)) else "values"
            sq = "square" if sa == sb and len(sa) == 1 else "nonsquare"
            fail(f"angle_with_outer:lazy:{kind}:{imp}:{sq}", f"angle_with_outer(lazy=True, chunk_size={cs}) differs from brute force (shape {al.shape} vs {sa + sb})", rep)
            break
    if len(sa) == 1:
        D = O1.get_distance_matrix()
        refD = np.zeros(sa + sa)
        for i in range(sa[0]):
            for j in range(sa[0]):
                refD[i, j] = ang(brute(G, G, O1.data[i], O1.data[j]))
        if not np.allclose(D, refD, atol=1e-6):
            fail("distance_matrix:orientation", "Orientation.get_distance_matrix differs from brute force", rep)

# ------------------------------------------------------------------ two symmetries
pairs = [(g, h) for g in GROUPS for h in GROUPS if g.name != h.name]
psel = pairs if THOROUGH else R.sample(pairs, max(20, N))
MUST = [("3", "23"), ("432", "622"), ("m-3m", "6/mmm"), ("6/mmm", "m-3m"), ("m-3", "-3m"), ("222", "432"),
        ("4", "mmm"), ("m-3m", "4/mmm"), ("622", "432"), ("23", "6")]
for must in MUST:
    psel.append((BYNAME[must[0]], BYNAME[must[1]]))
for G1, G2 in psel:
    npts = 80 if (G1.name, G2.name) in MUST else 5      # rare failures (3-15 % of inputs) need more samples
    O1, O2 = mk((npts,), G1), mk((npts,), G2)
    cl = pairclass(G1, G2)
    st(f"two/{cl}")
    U = _get_unique_symmetry_elements(G2, G1)
    d = O1.dot(O2)
    cases.append({"k": "dot", "U": rj(U), "o1": O1.data[0].tolist(), "o2": O2.data[0].tolist(),
                  "out": float(d[0]), "pair": [G1.name, G2.name]})
    if G1.size * G2.size <= 300 or (G1.name, G2.name) in MUST[:4]:
        # what Orientation.dot(self=O1, other=O2) uses
        Ucode = _get_unique_symmetry_elements(G2, G1)
        cases.append({"k": "set", "U": rj(Ucode), "pair": [G1.name, G2.name]})
    b = brute(G1, G2, O1.data, O2.data)
    rep = {"G1": G1.name, "G2": G2.name, "o1": O1.data.tolist(), "o2": O2.data.tolist()}
    if not np.allclose(d, b, atol=TOL):
        fail(f"dot:two-sym:{cl}", f"two-phase Orientation.dot differs from the brute-force maximum for ({G1.name}, {G2.name}) by up to {float(np.max(np.abs(ang(d) - ang(b)))):.3f} rad", rep)
    elif not np.allclose(O1.angle_with(O2), ang(b), atol=1e-6):
        fail(f"angle_with:two-sym:{cl}", "two-phase angle_with differs from brute force", rep)
    # the difference operator O2 - O1 (a misorientation reduced into its zone)
    try:
        am = np.asarray((O2 - O1).angle).reshape(-1)
        if am.shape != b.reshape(-1).shape or not np.allclose(am, ang(b).reshape(-1), atol=1e-6):
            if G1.is_proper and G2.is_proper:
                laue = "proper"
            elif G1.contains_inversion and G2.contains_inversion:
                laue = "laue"
            else:
                laue = "mixed"
            fail(f"sub:angle:two-sym:{cl}:{laue}", f"(O2 - O1).angle differs from the brute-force minimum for ({G1.name}, {G2.name})", rep)
    except NotImplementedError:
        st("sub/no-region-defined")
    except Exception as e:  # noqa
        fail("sub:raises", f"O2 - O1 raises {type(e).__name__} for ({G1.name}, {G2.name})", rep)

# ------------------------------------------------------------------ misorientation distance matrix
for trial in range(max(4, N // 10)):
    same = trial % 2 == 0
    Gl = R.choice([BYNAME["432"], BYNAME["222"], BYNAME["622"], BYNAME["4"]])
    Gr = Gl if same else R.choice([g for g in (BYNAME["222"], BYNAME["4"], BYNAME["432"], BYNAME["32"]) if g.name != Gl.name])
    n = 4
    q = np.array([rand_unit_quat(R) for _ in range(n)])
    Mi = Misorientation(q, symmetry=(Gl, Gr))
    st(f"misdist/{'same' if same else 'diff'}")
    D = Mi.get_distance_matrix()
    ref = np.zeros((n, n))
    ql, qr = Gl.data.reshape(-1, 4), Gr.data.reshape(-1, 4)
    for i in range(n):
        for j in range(n):
            # d(a Mi b, c Mj d) = d(Mi, a^-1 c Mj d b^-1): enough to run over the equivalents of Mj
            eq = np.array([qmul(c, qmul(q[j], dd)) for c in ql for dd in qr])
            ref[i, j] = ang(np.max(np.abs(eq @ q[i])))
    if not np.allclose(D, ref, atol=1e-6):
        fail(f"misorientation:distance_matrix:{'same' if same else 'diff'}", f"Misorientation.get_distance_matrix differs from brute force over gl*M*gr equivalents for ({Gl.name},{Gr.name})",
             {"Gl": Gl.name, "Gr": Gr.name, "q": q.tolist()})

emit({"cases": cases, "fails": fails, "strata": strata})
