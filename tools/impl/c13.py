"""C13 implementation harness (runs under /venv python with PYTHONPATH=/repo).

Builds crystal maps through the public API from structured specs, saves them
with orix.io.save to a real HDF5 file under /verif/build/tmp, dumps the file
tree, loads it back with orix.io.load, and emits

* ``cases``: observed record of the map before saving, the dump of the file and
  the record of the loaded map (or the exception) -- compared with the Coq model
  (save: model tree vs file; load: model applied to the REAL file tree vs loaded
  map) by tools/props/C13.py;
* ``fails``: violations of the PROPERTY found by the oracle (field-by-field
  numpy comparison original vs loaded, save-does-not-mutate, second cycle), each
  with a stable signature ``<field>:<cause>`` computed from the failing element's
  own features, not from the generator's label;
* ``tables``: the symmetry tables the model embeds, as they are in the source.
"""
import copy
import math
import os
import traceback

import numpy as np
from common import emit, payload, rng

import h5py
from diffpy.structure import Atom, Lattice, Structure
from orix import __version__ as ORIX_VERSION
from orix import io
from orix.crystal_map import CrystalMap, Phase, PhaseList, create_coordinate_arrays
from orix.quaternion import Rotation, Symmetry
from orix.quaternion import symmetry as osym

P = payload()
R = rng(P.get("seed", 0))
N = P.get("n", 200)
ONLY = P.get("only")
TMP = P.get("tmp", "/verif/build/tmp")
os.makedirs(TMP, exist_ok=True)
PI = math.pi
RESERVED = ["y", "x", "phi1", "Phi", "phi2", "improper", "phase_id", "id", "is_in_data"]

cases, fails, strata = [], [], {}


def st(k):
    strata[k] = strata.get(k, 0) + 1


def fail(sig, what, rep):
    fails.append({"sig": sig, "what": what, "replay": rep})


# ------------------------------------------------------------------ specs
NAMES = ["austenite", "ferrite", "al", "Ni3Al", "a b", "", "None", "sigma-phase", "x" * 40]
NAMES_NA = ["α-Fe", "γ", "Fe₃C", "é", "γ′-Ni₃Al"]
PROPS = ["iq", "dp", "ci", "fit", "mad", "bc", "band_slope", "IQ", "Z", "é", "0", "phi", "X"]
COLORS = ["tab:blue", "b", "blue", "xkcd:blue", "#ff0000", "r", "C1", "0.5", "lime", "tab:orange", "k",
          "w", "g", "xkcd:sky blue", "darkorange", "#1f77b4"]
UNITS = ["px", "um", "nm", "", "mm", "A"]
PGS = [g.name for g in osym._groups]
SG_BAD = list(range(3, 10))
OFFS = [1e-3, 1e-4, 1e-5]


def gen_quat(kind):
    """-> quaternion (list of 4)"""
    if kind == "gimbal0":
        return Rotation.from_euler([R.uniform(0, 2 * PI), 0.0, R.uniform(0, 2 * PI)]).data[0].tolist()
    if kind == "gimbalpi":
        return Rotation.from_euler([R.uniform(0, 2 * PI), PI, R.uniform(0, 2 * PI)]).data[0].tolist()
    if kind == "neargimbal":
        Phi = R.choice([0.0, PI]) + R.choice(OFFS) * R.choice([1, -1])
        Phi = abs(Phi) if Phi < PI else 2 * PI - Phi
        return Rotation.from_euler([R.uniform(0, 2 * PI), Phi, R.uniform(0, 2 * PI)]).data[0].tolist()
    if kind == "identity":
        return [R.choice([1.0, -1.0]), 0.0, 0.0, 0.0]
    q = [R.gauss(0, 1) for _ in range(4)]
    n = math.sqrt(sum(x * x for x in q))
    s = 1.0 / n
    if kind == "nonunit":
        s *= R.choice([0.5, 2.0, 3.0])
    q = [x * s for x in q]
    if kind == "neg" and q[0] > 0:
        q = [-x for x in q]
    return q


def gen_phase(hostile=None):
    p = {"name": R.choice(NAMES), "sg": None, "pg": None, "color": R.choice(COLORS), "atoms": [],
         "lat": R.choice([[4.05, 4.05, 4.05, 90, 90, 90], [3.2, 3.2, 5.1, 90, 90, 120], [3, 4, 5, 90, 90, 90],
                          [3, 4, 5, 80, 95, 100], [1, 1, 1, 90, 90, 90], [2.5, 3.5, 4.5, 90, 101.5, 90],
                          [round(R.uniform(2, 6), 3), round(R.uniform(2, 6), 3), round(R.uniform(2, 6), 3),
                           round(R.uniform(70, 110), 2), round(R.uniform(70, 110), 2), round(R.uniform(70, 110), 2)]])}
    t = R.random()
    if t < 0.3:
        p["sg"] = R.choice([s for s in range(1, 231) if s not in SG_BAD])
    elif t < 0.6:
        p["pg"] = R.choice(PGS)
    elif t < 0.75:
        p["sg"] = R.choice([s for s in range(1, 231) if s not in SG_BAD])
        p["pg"] = osym.get_point_group(p["sg"]).name
        if p["pg"] not in PGS:
            p["pg"] = None
    for i in range(R.choice([0, 0, 1, 2, 3, 10])):
        p["atoms"].append({"element": R.choice(["Al", "Fe", "Ni", "C", "O", "Fe2+", "Ti"]),
                           "label": R.choice(["", "Al1", "site-%d" % i]),
                           "occ": R.choice([1.0, 0.5, round(R.random(), 3)]),
                           "xyz": [round(R.random(), 4) for _ in range(3)],
                           "U": R.choice([None, None, [[0.01, 0.002, 0.0], [0.002, 0.02, 0.001], [0.0, 0.001, 0.03]]])})
    if hostile == "sg-monoclinic":
        p["sg"], p["pg"] = R.choice(SG_BAD), None
    elif hostile == "pg-2":
        p["sg"], p["pg"] = None, "obj:C2"
    elif hostile == "pg-m":
        p["sg"], p["pg"] = None, "obj:Cs"
    elif hostile == "pg-custom":
        p["sg"], p["pg"] = None, "obj:custom"
    elif hostile == "name-nonascii":
        p["name"] = R.choice(NAMES_NA)
    elif hostile == "atom-nonascii":
        p["atoms"] = [{"element": "Fe", "label": "Fe-α", "occ": 1.0, "xyz": [0, 0, 0], "U": None}]
    elif hostile == "atoms11":
        k = R.choice([11, 12, 15])
        p["atoms"] = [{"element": "C", "label": "L%d" % i, "occ": 1.0, "xyz": [round(i / 20, 3), 0, 0], "U": None}
                      for i in range(k)]
    return p


HOSTILE = ["one-point", "one-point-k", "nx1", "improper", "gimbalpi", "prop-reserved", "prop-str", "prop-path",
           "unit-none", "unit-nonascii", "sg-monoclinic", "pg-2", "pg-m", "pg-custom", "name-nonascii",
           "atom-nonascii", "atoms11", "extra-phase", "ni-modified", "all-masked"]


def gen_spec(k):
    hostile = None
    if R.random() < 0.42:
        hostile = HOSTILE[k % len(HOSTILE)] if R.random() < 0.6 else R.choice(HOSTILE)
    s = {"hostile": hostile, "ext": R.choice(["h5", "hdf5", "H5"])}
    # shape / coordinates
    t = R.random()
    if hostile in ("one-point", "one-point-k"):
        s["shape"], s["steps"], s["coords"] = [1], None, R.choice(["none", "x", "xy"])
    elif t < 0.45:
        s["shape"] = [R.choice([2, 3, 4, 5, 7, 12])]
        s["steps"] = [R.choice([1, 1.5, 0.25, 2])]
        s["coords"] = R.choice(["none", "x", "y", "x"])
    else:
        s["shape"] = [R.choice([1, 2, 3, 4]), R.choice([2, 3, 4, 5])]
        if s["shape"][0] * s["shape"][1] == 1:
            s["shape"] = [2, 2]
        s["steps"] = R.choice([[1, 1], [1.5, 1.5], [0.5, 2], [2, 1], [0.1, 0.1]])
        s["coords"] = "xy"
    n = int(np.prod(s["shape"]))
    # rotations
    s["k"] = 0
    if hostile == "one-point-k":
        s["k"] = 3
    elif hostile == "nx1":
        s["k"] = 1
    elif R.random() < 0.25:
        s["k"] = R.choice([2, 3, 5])
    kinds = ["generic", "generic", "generic", "neg", "nonunit", "gimbal0", "neargimbal", "identity"]
    nrot = n * max(s["k"], 1)
    s["quats"] = [gen_quat(R.choice(kinds)) for _ in range(nrot)]
    if hostile == "gimbalpi":
        for i in R.sample(range(nrot), max(1, nrot // 3)):
            s["quats"][i] = gen_quat("gimbalpi")
    s["improper"] = [False] * nrot
    if hostile == "improper":
        s["improper"] = [R.random() < 0.5 for _ in range(nrot)]
        s["improper"][R.randrange(nrot)] = True
    # phases
    nph = R.choice([1, 1, 2, 3])
    ids = sorted(R.sample([0, 1, 2, 3, 5, 10, 11], nph))
    ph_host = hostile if hostile in ("sg-monoclinic", "pg-2", "pg-m", "pg-custom", "name-nonascii",
                                     "atom-nonascii", "atoms11") else None
    s["phases"] = {}
    used_names = set()
    for j, i in enumerate(ids):
        p = gen_phase(ph_host if j == 0 else None)
        while p["name"] in used_names:
            p["name"] += "'"
        used_names.add(p["name"])
        s["phases"][str(i)] = p
    s["phase_id"] = [R.choice(ids) for _ in range(n)]
    for j, i in enumerate(ids):                       # every listed phase is used
        if n > j:
            s["phase_id"][j] = i
    if len(set(s["phase_id"])) < len(ids):
        keep = sorted(set(s["phase_id"]))
        s["phases"] = {str(i): s["phases"][str(i)] for i in keep}
    if (R.random() < 0.3 and n > len(ids)) or hostile == "ni-modified":
        for i in R.sample(range(n), R.choice([1, 1, 2]) if n > 2 else 1):
            if s["phase_id"].count(s["phase_id"][i]) > 1 or hostile == "ni-modified":
                s["phase_id"][i] = -1
        if hostile == "ni-modified":
            s["phase_id"][n - 1] = -1
        keep = sorted(set(s["phase_id"]) - {-1})
        if keep:
            s["phases"] = {str(i): s["phases"][str(i)] for i in keep}
        else:
            s["phase_id"][0] = ids[0]
            s["phases"] = {str(ids[0]): s["phases"][str(ids[0])]}
    s["extra_phase"] = hostile == "extra-phase"
    s["ni_modified"] = hostile == "ni-modified"
    # mask
    t = R.random()
    if hostile == "all-masked":
        s["mask"] = [False] * n
    elif t < 0.5:
        s["mask"] = None
    else:
        s["mask"] = [R.random() < 0.6 for _ in range(n)]
        s["mask"][R.randrange(n)] = True
    # properties
    s["props"] = []
    names = R.sample(PROPS, R.choice([0, 1, 2, 3]))
    for nm in names:
        dt = R.choice(["float64", "float64", "int64", "bool", "float32", "uint8", "int32"])
        kk = R.choice([0, 0, 0, 2, 1])
        cnt = n * max(kk, 1)
        if dt.startswith("float"):
            vals = [R.choice([round(R.uniform(-100, 100), 3), float(R.randrange(10)), 0.1 * R.randrange(100)]) for _ in range(cnt)]
        elif dt == "bool":
            vals = [R.random() < 0.5 for _ in range(cnt)]
        elif dt == "uint8":
            vals = [R.randrange(256) for _ in range(cnt)]
        else:
            vals = [R.randrange(-1000, 1000) for _ in range(cnt)]
        s["props"].append({"name": nm, "dtype": dt, "k": kk, "vals": vals})
    if hostile == "prop-reserved":
        nm = R.choice([r for r in RESERVED if r != "is_in_data"])   # a property named is_in_data cannot even be constructed
        s["props"].append({"name": nm, "dtype": "float64", "k": 0, "vals": [10.0 + i for i in range(n)]})
    elif hostile == "prop-str":
        s["props"].append({"name": "label", "dtype": "str", "k": 0, "vals": ["g%d" % i for i in range(n)]})
    elif hostile == "prop-path":
        s["props"].append({"name": "a/b", "dtype": "float64", "k": 0, "vals": [10.0 + i for i in range(n)]})
    s["unit"] = R.choice(UNITS)
    if hostile == "unit-none":
        s["unit"] = None
    elif hostile == "unit-nonascii":
        s["unit"] = R.choice(["µm", "Å", "μm", "Å⁻¹"])
    return s


# ------------------------------------------------------------------ building
def build_phase(p):
    atoms = []
    for a in p["atoms"]:
        kw = {}
        if a["U"] is not None:
            kw["U"] = np.array(a["U"], float)
        atoms.append(Atom(a["element"], a["xyz"], label=a["label"], occupancy=a["occ"], **kw))
    pg = p["pg"]
    if pg == "obj:C2":
        pg = osym.C2
    elif pg == "obj:Cs":
        pg = osym.Cs
    elif pg == "obj:custom":
        pg = Symmetry(osym.D3.data.copy())
        pg.name = "my32"
    return Phase(name=p["name"], space_group=p["sg"], point_group=pg,
                 structure=Structure(atoms=atoms, lattice=Lattice(*p["lat"])), color=p["color"])


def build(s):
    n = int(np.prod(s["shape"]))
    q = np.array(s["quats"], float)
    if s["k"]:
        q = q.reshape(n, s["k"], 4)
    rot = Rotation(q)
    if any(s["improper"]):
        rot.improper = np.array(s["improper"]).reshape(rot.shape)
    kw = {}
    if s["coords"] != "none":
        if len(s["shape"]) == 2:
            d, _ = create_coordinate_arrays(tuple(s["shape"]), tuple(s["steps"]))
            kw["x"], kw["y"] = d["x"], d["y"]
        else:
            step = s["steps"][0] if s["steps"] else 1
            arr = np.arange(n) * step
            if "x" in s["coords"]:
                kw["x"] = arr
            if "y" in s["coords"]:
                kw["y"] = arr.copy() if s["coords"] != "xy" else np.zeros(n)
    pl = PhaseList({int(i): build_phase(p) for i, p in s["phases"].items()})
    prop = {}
    for p in s["props"]:
        a = np.array(p["vals"], dtype=None if p["dtype"] == "str" else p["dtype"])
        if p["k"]:
            a = a.reshape(n, p["k"])
        prop[p["name"]] = a
    kw2 = {} if s["unit"] == "default" else {"scan_unit": s["unit"]}
    xmap = CrystalMap(rot, phase_id=np.array(s["phase_id"]), phase_list=pl, prop=prop,
                      is_in_data=None if s["mask"] is None else np.array(s["mask"], bool), **kw, **kw2)
    if s["extra_phase"]:
        xmap.phases.add(Phase("unused", point_group="m-3m", color="xkcd:puke"))
    if s["ni_modified"] and -1 in xmap.phases.ids:
        xmap.phases[-1].color = "k"
        xmap.phases[-1].name = "unindexed"
    return xmap


# ------------------------------------------------------------------ observing
def arr_rec(a):
    a = np.asarray(a)
    kind = a.dtype.kind
    flat = a.reshape(-1)
    if kind == "f":
        data = [float(x) for x in flat]
        cls = "F"
    elif kind in "iu":
        data = [int(x) for x in flat]
        cls = "I"
    elif kind == "b":
        data = [bool(x) for x in flat]
        cls = "B"
    else:
        return {"dt": str(a.dtype), "sh": list(a.shape), "cls": "X", "d": [str(x) for x in flat]}
    return {"dt": str(a.dtype), "sh": list(a.shape), "cls": cls, "d": data}


def phase_rec(p):
    st_ = p.structure
    return {"name": p.name, "sg": None if p.space_group is None else int(p.space_group.number),
            "pg": None if p.point_group is None else p.point_group.name, "color": p.color,
            "abcABG": arr_rec(np.array(st_.lattice.abcABG())), "baserot": arr_rec(st_.lattice.baserot),
            "base": np.asarray(st_.lattice.base).reshape(-1).tolist(),
            "atoms": [{"element": a.element, "label": a.label, "occ": float(a.occupancy), "xyz": arr_rec(a.xyz),
                       "U": arr_rec(a.U)} for a in st_]}


def map_rec(x):
    rot = x._rotations
    return {"rsh": list(rot.shape), "q": rot.data.reshape(-1, 4).tolist(),
            "imp": [bool(b) for b in rot.improper.reshape(-1)],
            "pid": [int(i) for i in x._phase_id],
            "x": None if x._x is None else arr_rec(x._x), "y": None if x._y is None else arr_rec(x._y),
            "ind": [bool(b) for b in x.is_in_data],
            "props": {k: arr_rec(v) for k, v in dict.items(x._prop)},
            "unit": x.scan_unit,
            "phases": {str(int(i)): phase_rec(p) for i, p in x.phases},
            "shape": list(x.shape) if np.any(x.is_in_data) else None}


def dump_h5(g):
    out = {}
    for k in g.keys():
        v = g[k]
        if isinstance(v, h5py.Group):
            out[k] = {"g": dump_h5(v)}
        else:
            val = v[()]
            if v.dtype.kind == "S":
                out[k] = {"s": [list(bytes(b)) for b in np.asarray(val).reshape(-1)], "w": int(v.dtype.itemsize),
                          "sh": list(v.shape)}
            else:
                out[k] = {"a": arr_rec(val)}
    return out


# ------------------------------------------------------------------ oracle
def is_ascii(s):
    return all(0 < ord(c) < 128 for c in s)


def euler_class(q):
    q = np.asarray(q, float)
    q = q / np.linalg.norm(q)
    q_ad, q_bc = q[0] ** 2 + q[3] ** 2, q[1] ** 2 + q[2] ** 2
    if math.sqrt(q_ad * q_bc) >= 1e-9:
        return "generic"
    return "gimbal0" if q_bc < 1e-9 else "gimbalpi"


def arr_same(a, b):
    return a["dt"] == b["dt"] and a["sh"] == b["sh"] and a["cls"] == b["cls"] and (
        np.allclose(a["d"], b["d"], rtol=0, atol=0, equal_nan=True) if a["cls"] == "F" else a["d"] == b["d"])


def compare(m0, m1, pre, rep):
    """original record m0 vs loaded record m1 -> failures with signatures"""
    n = len(m0["pid"])
    if m0["shape"] != m1["shape"]:
        cause = ":prop-reserved" if ("x" in m0["props"] or "y" in m0["props"]) else ""
        fail(pre + "shape" + cause, f"map shape {m0['shape']} became {m1['shape']}", rep)
    if m0["ind"] != m1["ind"]:
        fail(pre + "is_in_data", "is_in_data differs after the round trip", rep)
    for c in "xy":
        a, b = m0[c], m1[c]
        if (a is None) != (b is None) or (a is not None and not arr_same(a, b)):
            cause = "prop-reserved" if c in m0["props"] else "other"
            fail(pre + f"coord:{cause}", f"{c} coordinates differ after the round trip", rep)
    if m0["pid"] != m1["pid"]:
        cause = "prop-reserved" if "phase_id" in m0["props"] else "other"
        fail(pre + f"phase_id:{cause}", "phase ids differ after the round trip", rep)
    # rotations as rotations
    if m0["rsh"] != m1["rsh"]:
        cause = "n-by-1-squeezed" if len(m0["rsh"]) == 2 and m0["rsh"][1] == 1 and m1["rsh"] == m0["rsh"][:1] else "other"
        fail(pre + f"rotshape:{cause}", f"rotations shape {m0['rsh']} became {m1['rsh']}", rep)
    if len(m0["q"]) == len(m1["q"]):
        seen = set()
        for i, (a, b) in enumerate(zip(m0["q"], m1["q"])):
            a = np.array(a) / np.linalg.norm(a)
            b = np.array(b) / np.linalg.norm(b)
            if abs(abs(float(a @ b)) - 1) > 1e-7:
                cause = "eu:" + euler_class(a)
                if any(k in m0["props"] for k in ("phi1", "Phi", "phi2")):
                    cause = "prop-reserved"
                if cause not in seen:
                    seen.add(cause)
                    fail(pre + f"rot:{cause}", f"rotation {i} ({a.tolist()}) is another rotation after the round trip "
                         f"({b.tolist()})", rep)
            if m0["imp"][i] != m1["imp"][i] and "imp" not in seen:
                seen.add("imp")
                cause = "prop-reserved" if "improper" in m0["props"] else "improper-lost"
                fail(pre + f"rot:{cause}", f"improper flag of rotation {i} is {m0['imp'][i]} before and "
                     f"{m1['imp'][i]} after the round trip", rep)
    # properties
    for k in sorted(set(m0["props"]) | set(m1["props"])):
        a, b = m0["props"].get(k), m1["props"].get(k)
        if a is None or b is None or not arr_same(a, b):
            cause = "reserved-name:" + k if k in RESERVED else ("name-path" if "/" in k or "/" in "".join(m0["props"]) else "other")
            fail(pre + f"prop:{cause}", f"property {k!r} {'is missing' if b is None else 'appeared' if a is None else 'differs'} "
                 "after the round trip", rep)
    if m0["unit"] != m1["unit"]:
        cause = "non-ascii" if m0["unit"] is not None and not is_ascii(m0["unit"]) else "other"
        fail(pre + f"str:{cause}:scan_unit", f"scan unit {m0['unit']!r} became {m1['unit']!r}", rep)
    # phases
    ids0, ids1 = sorted(m0["phases"], key=int), sorted(m1["phases"], key=int)
    if ids0 != ids1:
        used = set(str(i) for i in m0["pid"])
        cause = ("prop-reserved" if "phase_id" in m0["props"] else
                 "unused-dropped" if set(ids1) == set(ids0) & used and set(ids1) < set(ids0) else "other")
        fail(pre + f"phases:{cause}", f"phase ids {ids0} became {ids1}", rep)
    for i in ids0:
        if i not in m1["phases"]:
            continue
        p, r = m0["phases"][i], m1["phases"][i]
        if i == "-1" and any(p[f] != r[f] for f in ("name", "color")):
            fail(pre + "phases:not-indexed-reset", f"the not-indexed phase {p['name']!r}/{p['color']} was reset to "
                 f"{r['name']!r}/{r['color']}", rep)
            continue
        if p["name"] != r["name"]:
            cause = "non-ascii" if not is_ascii(p["name"]) else "other"
            fail(pre + f"str:{cause}:phase-name", f"phase name {p['name']!r} became {r['name']!r}", rep)
        if p["sg"] != r["sg"] or p["pg"] != r["pg"]:
            cause = f"sg={p['sg']}" if p["sg"] is not None else f"pg={p['pg']}"
            fail(pre + f"sym:{cause}:changed", f"phase {i}: space group {p['sg']} / point group {p['pg']} became "
                 f"{r['sg']} / {r['pg']}", rep)
        if p["color"] != r["color"]:
            fail(pre + "color", f"phase colour {p['color']!r} became {r['color']!r}", rep)
        if not (np.allclose(p["abcABG"]["d"], r["abcABG"]["d"], atol=1e-9, rtol=0)
                and np.allclose(p["base"], r["base"], atol=1e-9, rtol=0)):
            fail(pre + "lattice", f"lattice of phase {i} differs after the round trip", rep)
        a0, a1 = p["atoms"], r["atoms"]
        if len(a0) != len(a1):
            fail(pre + "atoms:count", f"phase {i}: {len(a0)} atoms became {len(a1)}", rep)
            continue

        def same_atom(a, b):
            return (a["element"] == b["element"] and a["label"] == b["label"] and abs(a["occ"] - b["occ"]) < 1e-12
                    and np.allclose(a["xyz"]["d"], b["xyz"]["d"], atol=1e-9, rtol=0)
                    and np.allclose(a["U"]["d"], b["U"]["d"], atol=1e-12, rtol=0))
        if not all(same_atom(a, b) for a, b in zip(a0, a1)):
            texts = [a["element"] + a["label"] for a in a0]
            if not all(is_ascii(t) for t in texts):
                cause = "str:non-ascii:atom"
            elif len(a0) >= 11 and all(any(same_atom(a, b) for b in a1) for a in a0):
                cause = "atoms:order:ge11"
            else:
                cause = "atoms:other"
            fail(pre + cause, f"atoms of phase {i} differ (or are permuted) after the round trip", rep)


def classify_load_error(m0, e):
    n = len(m0["pid"])
    name = type(e).__name__
    if n == 1:
        return "load:one-point"
    if m0["unit"] is None:
        return "load:scan-unit-none"
    if any(k in RESERVED for k in m0["props"]):
        return "load:prop:reserved-name:" + [k for k in m0["props"] if k in RESERVED][0]
    if any("/" in k for k in m0["props"]):
        return "load:prop:name-path"
    if isinstance(e, ValueError) and "valid point" in str(e):
        for i, p in m0["phases"].items():
            if p["pg"] is not None and p["pg"] not in PGS and p["pg"] not in ("2", "20", "22", "42", "43", "m3m"):
                if p["sg"] is not None:
                    return "load:sym:sg=%d:raises" % p["sg"]
                return "load:sym:pg=m:raises" if p["pg"] == "m" else "load:sym:pg-unlisted:raises"
    return f"load:exception:{name}"


def classify_save_error(x, e):
    if not np.any(x.is_in_data) and isinstance(e, ZeroDivisionError):
        return "save:all-masked"
    if any(np.asarray(v).dtype.kind in "USO" for v in dict.values(x._prop)):
        return "save:prop-dtype-str"
    if any(k == "" or "/" in k for k in dict.keys(x._prop)):
        return "save:prop:name-path"
    return f"save:exception:{type(e).__name__}"


def run_case(s, k):
    rep = {"spec": s}
    st("hostile:" + str(s["hostile"]))
    st("dim%d" % len(s["shape"]))
    st("k=%d" % s["k"])
    st("mask:" + ("none" if s["mask"] is None else "partial" if any(s["mask"]) else "empty"))
    st("phases=%d" % len(s["phases"]) + ("+ni" if -1 in s["phase_id"] else ""))
    st("props=%d" % len(s["props"]))
    x = build(s)
    m0 = map_rec(x)
    case = {"id": k, "hostile": s["hostile"], "m": m0, "version": ORIX_VERSION, "file": None, "loaded": None,
            "save_exc": None, "load_exc": None, "corr": True}
    # the model has no string arrays and HDF5 path semantics of "/" in names
    if any(v["cls"] == "X" for v in m0["props"].values()) or any(k2 == "" or "/" in k2 for k2 in m0["props"]):
        case["corr"] = False
    # a float property overriding the phase_id dataset is cast by astype(int), one overriding the improper dataset is
    # broadcast and cast to bool: these casts are not modelled
    if "phase_id" in m0["props"] or "improper" in m0["props"]:
        case["corr"] = False
    fn = os.path.join(TMP, f"c13_{os.getpid()}_{k}.{s['ext']}")
    try:
        # ---- save
        try:
            io.save(fn, x, overwrite=True)
        except Exception as e:  # noqa
            case["save_exc"] = type(e).__name__
            fail(classify_save_error(x, e), f"saving raises {type(e).__name__}: {str(e)[:120]}", rep)
            return case
        m0b = map_rec(x)
        if m0b != m0:
            diff = [f for f in m0 if m0[f] != m0b[f]]
            fail("save:mutates:" + ",".join(diff), "saving modified the map in memory", rep)
        with h5py.File(fn, "r") as f:
            case["file"] = dump_h5(f)
        # ---- load
        try:
            y = io.load(fn)
        except Exception as e:  # noqa
            case["load_exc"] = type(e).__name__
            tb = traceback.extract_tb(e.__traceback__)[-1]
            fail(classify_load_error(m0, e), f"loading the saved map raises {type(e).__name__}: {str(e)[:120]} "
                 f"({os.path.basename(tb.filename)}:{tb.lineno})", rep)
            return case
        m1 = map_rec(y)
        case["loaded"] = m1
        compare(m0, m1, "", rep)
        # ---- second cycle
        try:
            io.save(fn, y, overwrite=True)
            z = io.load(fn)
            compare(m1, map_rec(z), "cycle2:", rep)
        except Exception as e:  # noqa
            fail("cycle2:" + classify_load_error(m1, e), f"second save/load cycle raises {type(e).__name__}: {str(e)[:120]}", rep)
        return case
    finally:
        if os.path.exists(fn):
            os.remove(fn)


def tables():
    import warnings
    warnings.filterwarnings("ignore")
    return {"sg2pg": [osym.get_point_group(i).name for i in range(1, 231)],
            "aliases": [[k, list(v)] for k, v in osym.point_group_aliases.items()],
            "groups": [g.name for g in osym._groups]}


def canon_colors(names):
    out = {}
    for c in names:
        out[c] = Phase(color=c).color
    return out


if ONLY is not None:
    specs = ONLY
else:
    specs = [gen_spec(k) for k in range(N)]
for k, s in enumerate(specs):
    try:
        c = run_case(s, k)
        cases.append(c)
    except Exception as e:  # noqa  (building the map itself failed: generator problem, reported loudly)
        fail("harness:build:" + type(e).__name__, f"could not build the map of a spec: {traceback.format_exc()[-400:]}", {"spec": s})

# idempotence of the colour canonicalisation on its own outputs (external table)
colors_used = sorted({p["color"] for c in cases for p in c["m"]["phases"].values()} | {"white", "w"})
canon = canon_colors(colors_used)
for c_, v in canon.items():
    if Phase(color=v).color != v:
        fail("color:canon-not-idempotent", f"Phase(color={v!r}).color != {v!r}", {"color": c_})
emit({"cases": cases, "fails": fails, "strata": strata, "tables": tables(), "canon": canon})
